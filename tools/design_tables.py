#!/usr/bin/env python3
"""Regenerate the generated blocks of DESIGN.md: repaired defects (from known_findings.json 'fixed'), open findings
per property, and the reverted-fix detection table (seeded/reverted_fixes.json)."""
import collections
import json
import os
import re

p = '/verif/DESIGN.md'
s = open(p).read()
kf = json.load(open('/verif/known_findings.json'))


def block(s, name, body):
    a, b = '<!-- %s-BEGIN -->' % name, '<!-- %s-END -->' % name
    if a not in s:
        raise SystemExit('marker %s missing' % a)
    i, j = s.index(a), s.index(b)
    return s[:i + len(a)] + '\n' + body + '\n' + s[j:]


def esc(t):
    return ' '.join(str(t).split()).replace('|', '\\|')


rows = ['| property | commit | failing input / history (what failed before the repair) |', '|---|---|---|']
for line in kf['fixed']:
    m = re.match(r'fixed: property=(C\d+) ([0-9a-f]{7}) (.*)', line)
    if m:
        rows.append('| %s | %s | %s |' % (m.group(1), m.group(2), esc(m.group(3))))
s = block(s, 'FIXED', '\n'.join(rows))

byp = collections.OrderedDict()
for f in kf['findings']:
    byp.setdefault(f['property'], []).append(f)
rows = ['| property | open findings | examples |', '|---|---|---|']
for pid in sorted(byp):
    fs = byp[pid]
    ex = '; '.join(esc(f['what'])[:160] for f in fs[:3])
    rows.append('| %s | %d | %s |' % (pid, len(fs), ex))
s = block(s, 'OPEN', '\n'.join(rows))

rp = '/verif/seeded/reverted_fixes.json'
if os.path.exists(rp):
    rv = json.load(open(rp))
    rows = ['| reverted fix commit | property | result | first signature |', '|---|---|---|---|']
    for h, e in rv.items():
        if 'properties' not in e:
            continue
        sig = ''
        for v in e.get('checks', {}).values():
            if v.get('first_sig'):
                sig = v['first_sig'].split(' occurrences=')[0].replace('sig=', '')
                break
        rows.append('| %s %s | %s | %s | `%s` |' % (h, esc(e['subject'])[:80], ','.join(sorted(set(e['properties']))),
                                                   esc(e.get('result', '')), esc(sig)[:110]))
    s = block(s, 'REVERTED', '\n'.join(rows))
open(p, 'w').write(s)
print('DESIGN.md tables regenerated')
