#!/usr/bin/env python3
"""Validate MANIFEST.json and evidence/*.json against the schemas in /root/.vp (python3-vt has jsonschema)."""
import glob
import json
import sys

import jsonschema

ok = True
m = json.load(open('/verif/MANIFEST.json'))
jsonschema.validate(m, json.load(open('/root/.vp/MANIFEST.schema.json')))
props = [json.loads(l)['id'] for l in open('/verif/properties.jsonl')]
claimed = [c['property_id'] for c in m['checks']]
na = [c['property_id'] for c in m.get('not_applicable', [])]
for p in props:
    if (p in claimed) == (p in na):
        print('property %s: claimed=%s not_applicable=%s' % (p, p in claimed, p in na))
        ok = False
es = json.load(open('/root/.vp/EVIDENCE.schema.json'))
for f in sorted(glob.glob('/verif/evidence/*.json')):
    try:
        jsonschema.validate(json.load(open(f)), es)
    except Exception as e:
        ok = False
        print('INVALID', f, str(e)[:300])
print('manifest ok; claimed=%d n/a=%d evidence files=%d' % (len(claimed), len(na), len(glob.glob('/verif/evidence/*.json'))))
sys.exit(0 if ok else 1)
