#!/usr/bin/env python3
"""Run the checks against the seeded property-breaking changes kept under /verif/seeded/<id>/.

For each seeded change: make a scratch worktree of /repo HEAD (outside /repo and /verif), apply
patch.diff, run the demonstration (must fail), run the property's check with VERIF_REPO pointing at
the worktree (must exit 1 with a VIOLATION line), remove the worktree.  Results go to
/verif/seeded/<id>/result.json and a summary table is printed.  Nothing is ever applied to /repo.

usage: tools/seeded.py [--tier quick|thorough] [id ...]
"""
import json
import os
import shutil
import subprocess
import sys
import time

SEEDED = '/verif/seeded'


def sh(cmd, **kw):
    return subprocess.run(cmd, shell=True, stdout=subprocess.PIPE, stderr=subprocess.STDOUT, text=True, **kw)


def main():
    args = sys.argv[1:]
    tier = 'quick'
    if '--tier' in args:
        i = args.index('--tier')
        tier = args[i + 1]
        del args[i:i + 2]
    ids = args or sorted(d for d in os.listdir(SEEDED) if os.path.isdir(os.path.join(SEEDED, d)))
    rows = []
    for sid in ids:
        d = os.path.join(SEEDED, sid)
        if not os.path.isdir(d):
            continue
        meta = json.load(open(os.path.join(d, 'meta.json')))
        props = meta['property'] if isinstance(meta['property'], list) else [meta['property']]
        wt = '/tmp/wt_seed_%s' % sid.replace('-', '_')
        sh('git -C /repo worktree remove --force %s' % wt)
        r = sh('git -C /repo worktree add -q --detach %s %s && git -C %s apply %s/patch.diff' % (
            wt, os.environ.get('SEEDED_BASE', 'HEAD'), wt, d))
        if r.returncode:
            rows.append((sid, props, 'PATCH DOES NOT APPLY', '', ''))
            print(r.stdout)
            continue
        env = dict(os.environ, BCL_DATA_DIR='/tmp/bcl_seed_%s' % sid)
        os.makedirs(env['BCL_DATA_DIR'], exist_ok=True)
        demo = [f for f in os.listdir(d) if f.startswith('demo')]
        demo_res = 'no demo'
        if demo:
            r = sh('cd %s && /venv/bin/python %s/%s' % (wt, d, demo[0]), env=dict(env, PYTHONPATH=wt), timeout=900)
            demo_res = 'fails (as intended)' if r.returncode else 'PASSES (change not effective?)'
        res = {}
        for p in props:
            t0 = time.time()
            r = sh('cd /verif && VERIF_REPO=%s /venv/bin/python /verif/check.py %s --tier %s' % (wt, p, tier),
                   timeout=7200)
            sigs = [l.strip()[:200] for l in r.stdout.splitlines() if l.strip().startswith('sig=')]
            res[p] = {'exit': r.returncode, 'violation_lines': r.stdout.count('VIOLATION property='),
                      'first_sigs': sigs[:5], 'wall_s': round(time.time() - t0, 1), 'tier': tier}
        shutil.rmtree(env['BCL_DATA_DIR'], ignore_errors=True)
        sh('git -C /repo worktree remove --force %s' % wt)
        sh('git -C /repo worktree prune')
        out = {'seeded': sid, 'repo_head': sh('git -C /repo rev-parse --short HEAD').stdout.strip(),
               'demo': demo_res, 'checks': res}
        json.dump(out, open(os.path.join(d, 'result.json'), 'w'), indent=1)
        rows.append((sid, props, demo_res, ' '.join('%s:exit%d' % (p, v['exit']) for p, v in res.items()),
                     '; '.join(s for v in res.values() for s in v['first_sigs'][:1])))
    # the evidence files were rewritten by runs against modified code: restore the committed ones
    sh('cd /verif && git checkout -- evidence')
    for row in rows:
        print('%-22s %-8s demo=%-28s %s  %s' % (row[0], ','.join(row[1]), row[2], row[3], row[4][:150]))


if __name__ == '__main__':
    main()
