#!/usr/bin/env python3
"""Regenerate MANIFEST.json from tools/manifest_src.py (single source for per-check texts)."""
import json
import os
import sys

sys.path.insert(0, os.path.dirname(__file__))
from manifest_src import CHECKS, NOT_APPLICABLE, NOTES  # noqa

props = [json.loads(l)['id'] for l in open('/verif/properties.jsonl')]
checks = []
for pid in props:
    if pid not in CHECKS:
        continue
    c = CHECKS[pid]
    checks.append({
        'property_id': pid,
        'quick_cmd': '/venv/bin/python /verif/check.py %s --tier quick' % pid,
        'thorough_cmd': '/venv/bin/python /verif/check.py %s --tier thorough' % pid,
        'evidence_file': '/verif/evidence/%s.json' % pid,
        'replay_cmd_template': '/venv/bin/python /verif/check.py %s --replay {path}' % pid,
        'engine': 'vf',
        'level_claimed': {'category': c['level'], 'text': c['text'], 'design_ref': c['design_ref']},
        'level_note': c['note'],
        'technique': c['technique'],
    })
na = [{'property_id': p, 'reason': NOT_APPLICABLE.get(p, 'check not built yet in this revision of /verif')}
      for p in props if p not in CHECKS]
m = {
    'version': 1,
    'setup_cmd': '/venv/bin/python /verif/tools/setup_check.py',
    'hooks': {
        'guard': 'BITCOINLIB_VERIF',
        'enable': 'no source hooks exist: every seam (RNG, clock, providers, data dir) is patched from outside by the '
                  'checks; /venv has /repo installed editable, so checks execute the current working tree',
        'baseline_off_cmd': 'cd /repo && /venv/bin/python -m pytest -ra -q -p no:cacheprovider --timeout=900 '
                            '--continue-on-collection-errors',
        'source_commits': [],
        'add_only': True,
    },
    'engines': [{'name': 'vf', 'path': '/verif/vf', 'serves_properties': [c['property_id'] for c in checks],
                 'kind_free_text': 'hand-written explicit-state / bounded-exhaustive explorer for Python: canonical '
                                   'case enumeration sharded over 16 worker processes, BFS over event histories with '
                                   'state hashing, independent reference models in vf/ref'}],
    'checks': checks,
    'not_applicable': na,
    'notes': NOTES,
}
json.dump(m, open('/verif/MANIFEST.json', 'w'), indent=1)
print('wrote MANIFEST.json with %d checks, %d not_applicable' % (len(checks), len(na)))
