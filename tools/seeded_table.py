#!/usr/bin/env python3
"""Rewrite the table of seeded changes in DESIGN.md (between the SEEDED-TABLE markers) from seeded/*/."""
import json
import os

NOTES = {
    'c09_9': '**not reported (open)**: needs a wallet holding a second network and address_index(i, network=...); the C09 histories '
             'call address_index only on the default network. Found in the last minutes of the final session; the sub-space '
             '(second network account x address_index/key_for_path/get_key with network=) is the next extension',
    'c10_9': '**not reported (open)**: needs sign(keys=[k2, k3]) with a LIST of two handed-over master keys on a 3-of-n wallet; the C10 '
             'ceremonies hand over one key per call. A first attempt at the event (master keys of two cosigners in one call) '
             'raised deviations on the unchanged tree that could not be classified (defect or harness) in the time left, so it was '
             'withdrawn rather than registered; next extension',
    'c20_9': '**not reported (open)**: needs a transaction cached by a provider that leaves spent unknown (spent=None) before '
             'isspent(); the C20 fixture providers always deliver a known spent state. Next extension: provider answers with '
             'spent=None in the cache-history sub-space',
    'c01_9': '**missed at first**: the C01 object histories never changed the serialised version alone (C02 did, in its tamper '
             'alphabet); the event edit_version was added to the C01 history search, the digest must follow the bytes raw() writes',
    'c07_9': '**missed at first**: every requested amount was an integer; the amount dimension got text and Value-object forms '
             "(written from the integer with exact decimals, e.g. '0.29000000 TST'), incl. decimals whose float quotient lies just "
             'below the integer',
    'c05': '**missed at first**: C05 accepted "unknown / no address" for non-standard witness programs in the reverse '
           'direction; it now demands the inverse law for every destination the library itself accepts',
    'c08': '**missed at first**: C08 got the events delete_funding / utxo_add_spent and funded start states',
    'c09': '**missed at first**: C09 got a second, lower explicit path per chain (descending creation order)',
    'c01_2': '**missed at first**: a stale hashOutputs cache only shows when outputs change in place between two digests on the '
             'same object; C01 got the operation-history search on one live Transaction (vf/txhist.py)',
    'c06_2': '**missed at first**: stale id after sign_and_update; C06 got the same history search with id/byte invariants',
    'c09_2': '**missed at first**: explicit account_id=0 in a wallet whose default account is not 0; C09 got a configuration '
             'with default account 5 and events with explicit account ids (this also exposed a genuine defect: utxo_add '
             're-labelled the funded key to account 0, repaired)',
    'c10_2': '**missed at first**: explicit cosigner_id=0 through get_key(); C10 now requests every cosigner index through '
             'get_key / get_keys / new_key on legacy wallets',
    'c20_2': '**missed at first**: needs a partially filled address cache; C20 got getutxos(limit) events, the bal family and the '
             'invariant on the cached address record',
    'c01_3': '**missed at first**: the per-input key conversion only matters when raw key bytes are signed onto keyless '
             'inputs of differing compression; C01 got the sub-space routes (how keys reach the inputs x key form x call pattern)',
    'c02_3': '**missed at first**: version is kept twice (bytes and int) and the tamper alphabet changed both; C02 now also '
             'changes each copy of a doubly-kept field alone and compares verify() with the reference verdict on raw()',
    'c03_3': '**missed at first**: stale hash160 after address(compressed=False) on the parent; C03 got call histories on the '
             'parent object before deriving (sub-space khist)',
    'c05_3': '**missed at first**: every address string tried was canonical lower case of a known network; C05 got the '
             'sub-space addrstr (spellings, unknown and neighbour HRPs, all 256 version bytes, invalid neighbours) - this exposed '
             'two genuine defects (Bech32 network filter, Base58 hash length), repaired',
    'c06_3': '**missed at first**: no call histories on Block objects; C06 got the sub-space blockhist (both readers, limits, '
             'serialize, against a cursor model)',
    'c07_3': '**missed at first**: explicit inputs were only given as tuples; C07 now also passes the Input objects '
             'select_inputs() returns, including outputs at index 1',
    'c08_3': '**missed at first**: every funding output had index 0 and its own txid; C08 got funding transactions with several '
             'outputs and sends with an explicit choice of inputs (tuple and Input-object form)',
    'c09_3': '**missed at first**: no wallet restored from a private key below the master; C09 got the origin acc_xprv with requests '
             'that need the master (other witness type, other account) - this exposed a genuine defect (key of account 0 returned '
             'for account 1), repaired',
    'c10_3': '**missed at first**: ceremonies used default creation options; C10 now also hands around spends with explicit '
             'locktime, replace-by-fee and locktime 0 and compares locktime/version/sequences after every import - this exposed two '
             'genuine defects (dictionary import loses sequences, raw import replaces locktime 0), repaired',
    'c12_3': '**missed at first**: exports of public-only keys imported in compressed form were not compared; C12 got the sub-space '
             'pubforms (every import form x accessor order, secrets whose point has leading zero digits in x or y)',
    'c18_3': '**missed at first**: scripts were only parsed from bytes, never built from command lists; C18 got the sub-spaces build '
             '(incl. the empty data item) and concat - this exposed two genuine defects (Script.__add__, Script.parse of a stream), '
             'repaired',
    'c19_3': '**missed at first**: IF/NOTIF conditions were at most one byte; C19 got conditions wider than a script number',
    'c20_3': '**missed at first**: every fixture block had one transaction and one request window; C20 got a five-transaction block '
             'and paging histories - this exposed a genuine defect (cached block page order), repaired',
    'c01_4': '**missed at first**: no pay-to-public-key input with an uncompressed key; the input kind p2pk_u was added to the '
             'generator shared by C01 and C02',
    'c04_4': '**missed at first**: Address() was always called with an explicit encoding; C04 now also leaves it out and demands the '
             'address of the derived encoding',
    'c08_4': '**missed at first**: single-account wallets only; C08 got a second funded account (keys interleaving in creation '
             'order) and observes balance / unspent outputs / key balances per account and for the call without account',
    'c10_4': '**missed at first**: a witness signature of 70 bytes (leading zero byte in r or s) is a rare size class that fixed '
             'amounts never produce; C02 and C10 now scan a window of locktimes / amounts, measure the library signature and add '
             'configurations whose first signature is <= 70 bytes (selection only, verdicts stay with the reference)',
    'c18_4': '**missed at first**: nothing was called after a call that failed; C18 got the differential sub-space afterfail (c2 '
             'after a failed c1 must answer what c2 answers on a fresh object; repair of the command list)',
    'c02_5': '**missed at first**: C02 histories held no private keys on the object, so nothing the object re-signs itself was '
             'explored; C02 got the live-object history search (vf/txhist.py) with verify() == reference verdict and "what the '
             'library just re-signed verifies"',
    'c04_5': '**missed at first**: C04 imported private keys as int/hex/bytes only; WIF forms through Key() and HDKey() were added',
    'c07_5': '**missed at first**: funded outputs never shared a transaction and requests were single; C07 got paired funding '
             'outputs and the request send_twice (a second request judged against the ledger after the first broadcast)',
    'c08_5': '**missed at first**: multisig transactions spent outputs of one key only; C08 got multisig configurations funded on two keys. '
             '**Missed again in the re-evaluation after round 8**: the repair becc7bc (an input keeps the unlocking script it was given) '
             'made the reloaded bytes right although the reloaded inputs still carried the keys of other inputs; the reload comparison '
             'of C08 now also covers address, keys, redeem script, number of signatures and the verify() verdict per input - which '
             'exposed a genuine defect (segwit multisig transactions reload without signatures), repaired (19f62d8)',
    'c09_5': '**missed at first**: a callee emptying the list it was given; C09 keeps the path list, compares it after the call and '
             'asks the same list again',
    'c10_5': '**missed at first**: r starting with byte 0x30 makes the 64-byte r||s form of a dictionary export look like DER; C02 and '
             'C10 select such signatures by scanning (selection only)',
    'c11_5': '**missed at first**: only ASCII symbols were substituted; C11 got the sub-space unicode (every code point a standard '
             'transform maps onto ASCII, at every position; characters strip() removes)',
    'c13_5': '**missed at first**: signer options were enumerated one at a time; C13 got their full product (sign_opts) and signer '
             'call histories (sign_hist)',
    'c15_5': '**missed at first**: every passphrase was unmistakably text; C15 got passphrases shaped like hex, numbers, WIF, padded, '
             'empty, as str and bytes, at every entry point',
    'c16_5': '**missed at first**: every public view was called with one spelling of its arguments; C16 got the sub-space hdargs (every '
             'argument form: str/list/tuple paths, flag spellings, positional/keyword) - exposed a genuine defect (bare M), repaired',
    'c17_5': '**missed at first**: only value_sat and str() were observed; C17 got every documented output form with every parameter '
             'value (views) - exposed a genuine defect (str_auto of zero), repaired',
    'c18_5': '**missed at first**: wire primitives were only given bytes; C18 got varstr of texts (ASCII, Latin-1, beyond) judged by '
             'framing',
    'c20_5': '**missed at first**: getbalance was only asked for one address; C20 got address lists cut into several requests with the '
             'per-address cache records',
    'c03_6': '**missed at first**: the documented network argument of child_public / child_private / subkey_for_path was never '
             'spelled out; C03 now derives with it as well',
    'c04_6': '**missed at first**: address_obj was only read after address(); C04 reads it first on fresh HD keys and on public(), '
             'and both in both orders on one object',
    'c07_6': '**missed by C07**, reported by C08 (history [send_ext, delete_funding, utxo_add_spent]): the change is in utxos_update, '
             'the ledger side of the same clause; both checks are run for it',
    'c08_6': '**missed at first**: utxos_update was only called for the whole wallet; C08 got the single-key update as an event',
    'c09_6': '**missed at first**: only the BIP44/49/84/48 key structures; C09 got a wallet with the bundled all-hardened key path '
             '(and now reports index fields outside [0, 2^31) instead of failing on them)',
    'c10_6': '**missed at first** (reported by the thorough tier after the change): needs m+2 distinct signers; 2-of-5 ceremonies of '
             'length 4 were added to the thorough menu',
    'c12_6': '**missed at first**: hints were given none / network / all three; C12 now imports with every partial combination of hints',
    'c13_6': '**missed at first**: no digest whose 32 bytes read as text; C13 got hex-digit, decimal, blank-padded and base58-looking '
             'digests',
    'c17_6': '**missed at first**: fees derived by the Transaction constructor were not observed; C17 got the sub-space txfee '
             '(inputs vs outputs x coinbase x given/derived fee)',
    'c18_6': '**missed at first**: the generic Script.parse() was only given bytes and streams; it is now also given hexadecimal text, '
             'and raw scripts of twice/half the heuristic lengths were added',
    'c19_6': '**missed at first**: every branch of a conditional had its own marker; C19 got the sub-space condbody (every assignment '
             'of empty / equal bodies to the branches)',
    'c20_6': '**missed at first**: every provider answer was a complete transaction; C20 got the sub-space incomplete (copies without '
             'input values / block time / block height that the cache refuses) - exposed two genuine defects, repaired',
    'c01_7': '**missed at first**: inputs described by their scriptPubKey always came with an explicit witness type; C01 got the route '
             'keys_spk_nowt (witness type read from the scriptPubKey)',
    'c02_7': '**missed at first**: the optional locktime argument of the relative-locktime setters; the live-object histories got the '
             'events rel_blocks_lt / rel_time_lt',
    'c03_7': '**missed at first**: HD keys that keep an uncompressed public key were outside the space; C03 got the differential '
             'sub-space uncommute (public routes vs public part of the private child)',
    'c05_7': '**missed at first**: an address string was never handed over together with a locking script or hash; C05 got those ways',
    'c06_7': '**missed at first**: witness stacks were handed to add_input as lists only; C06 also hands them over in serialized form',
    'c07_7': '**missed by C07**, reported by C08 (history [send_pick [0], send_pick [0], delete_last] on two outputs of one funding '
             'transaction): both checks are run for it',
    'c08_7': '**missed at first** (the wallet could no longer list its transactions and the harness stopped): C08 now reports a wallet '
             'that cannot be observed as a deviation',
    'c09_7': '**missed at first**: new_account() was only called for the wallet\'s own witness type; C09 got the event '
             'new_account_otherwt',
    'c10_7': '**missed at first**: every cosigner wallet knew the funding output; C10 got offline-cosigner ceremonies - exposed a genuine '
             'defect (dictionary hand-off to an offline cosigner), repaired',
    'c13_7': '**missed at first**: verify-call histories never used the negated signer key (same x); it was added to the key alphabet',
    'c17_7': '**missed at first**: amounts were int, float, text or Value; C17 got Decimal and Fraction amounts - exposed a genuine defect '
             '(fractions stored as output values), repaired',
    'c20_7': '**missed at first**: provider fee estimates were always inside the network range; C20 got value classes around the '
             'bounds (values, values_fo)',
    'c01_8': '**harness error at first**: the digest sub-space did enumerate hash type 0x81, but the code that NAMES a deviating hash '
             'type only knew NONE and SINGLE and crashed (exit 2, not a detection) - a report path that had never run; corrected',
    'c05_8': '**missed at first**: payloads were constants, counters and fillers; none looked like a witness-program header. C05 got '
             'payloads that start like something a decoder might strip (version opcode + push length, script heads, length '
             'prefixes, Base58 version bytes)',
    'c06_8': '**missed at first**: partially signed multisig stacks had no empty placeholders; C06 got the 27 slot layouts '
             '{signature, empty, absent}^3 per carrier - these showed that the unchanged library already rewrote most of them on '
             'parsing (two genuine defects, repaired: df568f0, becc7bc - seven open findings closed)',
    'c07_8': '**missed at first**: explicit inputs were (txid, n) pairs or Input objects; C07 got the long tuple form (txid, n, key_id, '
             'value) with correct, stale and unknown entries beyond the first',
    'c09_8': '**missed at first**: paths were always relative to the default account; C09 got the event path_full (complete path text '
             'naming another account) - exposed a genuine defect for wallets whose default account is not 0, repaired (2b74042)',
    'c10_8': '**missed at first**: every ceremony spent ONE input; C10 got two-input ceremonies (sub-space cer2) with per-input '
             'signing states: a cosigner that signs one input only',
    'c20_8': '**missed at first**: every history had the cache database to itself; C20 got histories that start after ANOTHER network '
             'has used the same cache (blocks at the same heights, block count, fees) and header-only requests - exposed a genuine '
             'defect (cached block lists the other network\'s transactions), repaired (5b89518)',
    'c13': '**missed at first**: C13 verified every triple on a fresh object; it now explores verify-call histories on '
           'one Signature object (sub-space reuse)',
}
rows = ['| seeded | property | change | needs | check result (first signature) | note |', '|---|---|---|---|---|---|']
for sid in sorted(os.listdir('/verif/seeded')):
    d = '/verif/seeded/' + sid
    if not os.path.exists(d + '/result.json'):
        continue
    m = json.load(open(d + '/meta.json'))
    r = json.load(open(d + '/result.json'))
    prop = m['property'] if isinstance(m['property'], str) else ','.join(m['property'])
    res = []
    for p, v in r['checks'].items():
        sig = (v['first_sigs'] or [''])[0]
        sig = sig.split(' occurrences=')[0].replace('sig=', '').replace('|', '\\|')
        res.append('%s exit %d `%s`' % (p, v['exit'], sig[:120]))

    def clip(t, n):
        t = ' '.join(str(t).split()).replace('|', '\\|')
        return t if len(t) <= n else t[:n - 1] + '…'
    rows.append('| %s | %s | %s | %s | %s | %s |' % (sid, prop, clip(m.get('summary', ''), 230), clip(m.get('needs', ''), 200),
                                                    '; '.join(res), NOTES.get(sid, 'as built') +
                                                    (' - **superseded**: ' + clip(m['superseded'], 400) if m.get('superseded') else '') +
                                                    (' - ported: ' + clip(m['ported'], 200) if m.get('ported') else '')))
p = '/verif/DESIGN.md'
s = open(p).read()
a, b = '<!-- SEEDED-TABLE-BEGIN -->', '<!-- SEEDED-TABLE-END -->'
if a not in s:
    i = s.index('## 8. Seeded changes vs checks')
    s = s[:i] + '## 8. Seeded changes vs checks\n\n' + a + '\n' + b + '\n'
i, j = s.index(a), s.index(b)
s = s[:i + len(a)] + '\n' + '\n'.join(rows) + '\n' + s[j:]
open(p, 'w').write(s)
print('table with %d rows' % (len(rows) - 2))
