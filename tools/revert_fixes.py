#!/usr/bin/env python3
"""Detection demonstration with real defects: revert each `fix:` commit of /repo (one at a time) in a
scratch worktree and run the check of the property it was recorded under (known_findings.json
"fixed:" lines).  A repaired defect must be reported again when it returns.

usage: tools/revert_fixes.py [--tier quick] [commit ...]
Writes /verif/seeded/reverted_fixes.json.  Nothing is changed in /repo.
"""
import json
import os
import re
import subprocess
import sys
import time


def sh(cmd, **kw):
    return subprocess.run(cmd, shell=True, stdout=subprocess.PIPE, stderr=subprocess.STDOUT, text=True, **kw)


def main():
    args = sys.argv[1:]
    tier = 'quick'
    if '--tier' in args:
        i = args.index('--tier')
        tier = args[i + 1]
        del args[i:i + 2]
    kf = json.load(open('/verif/known_findings.json'))
    fixed = {}
    for line in kf['fixed']:
        m = re.match(r'fixed: property=(C\d+) ([0-9a-f]{7}) (.*)', line)
        if m:
            fixed.setdefault(m.group(2), []).append((m.group(1), m.group(3)))
        # lines may name further commits ("refined by <hash>")
    commits = sh('git -C /repo log --format="%h %s" 074a788..HEAD').stdout.strip().split('\n')
    out_path = '/verif/seeded/reverted_fixes.json'
    results = json.load(open(out_path)) if os.path.exists(out_path) else {}
    for line in reversed(commits):
        h, subj = line.split(' ', 1)
        if args and h not in args:
            continue
        if h not in fixed:
            results.setdefault(h, {'subject': subj, 'note': 'no fixed: line names this commit (follow-up / side-effect repair)'})
            continue
        wt = '/tmp/wt_revert_%s' % h
        sh('git -C /repo worktree remove --force %s' % wt)
        r = sh('git -C /repo worktree add -q %s HEAD && cd %s && git revert --no-commit %s' % (wt, wt, h))
        entry = {'subject': subj, 'properties': [p for p, _ in fixed[h]], 'what': [w for _, w in fixed[h]], 'tier': tier}
        if r.returncode:
            entry['result'] = 'revert does not apply cleanly on HEAD (later commits touch the same lines)'
        else:
            entry['checks'] = {}
            for p in sorted(set(entry['properties'])):
                t0 = time.time()
                c = sh('cd /verif && VERIF_REPO=%s /venv/bin/python /verif/check.py %s --tier %s' % (wt, p, tier), timeout=7200)
                sigs = [l.strip()[:160] for l in c.stdout.splitlines() if l.strip().startswith('sig=')]
                entry['checks'][p] = {'exit': c.returncode, 'violations': c.stdout.count('VIOLATION property='),
                                      'first_sig': sigs[0] if sigs else '', 'wall_s': round(time.time() - t0, 1)}
            entry['result'] = 'detected' if any(v['exit'] == 1 for v in entry['checks'].values()) else 'NOT DETECTED'
        sh('git -C /repo worktree remove --force %s' % wt)
        results[h] = entry
        json.dump(results, open(out_path, 'w'), indent=1)
        print(h, entry.get('result'), entry.get('properties'), subj[:70], flush=True)
    sh('git -C /repo worktree prune')
    sh('cd /verif && git checkout -- evidence')
    n = sum(1 for v in results.values() if v.get('result') == 'detected')
    m = sum(1 for v in results.values() if v.get('result') == 'NOT DETECTED')
    print('reverted fixes detected: %d, not detected: %d, other: %d' % (n, m, len(results) - n - m))


if __name__ == '__main__':
    main()
