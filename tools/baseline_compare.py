#!/usr/bin/env python3
"""Compare a junit xml of the repository test-suite with /root/.vp/BASELINE.json stable_pass."""
import json
import sys
import xml.etree.ElementTree as ET

base = set(json.load(open('/root/.vp/BASELINE.json'))['stable_pass'])
passed = set()
for tc in ET.parse(sys.argv[1]).getroot().iter('testcase'):
    if not any(c.tag in ('failure', 'error', 'skipped') for c in tc):
        passed.add('%s::%s' % (tc.get('classname'), tc.get('name')))
missing = sorted(base - passed)
print('stable baseline tests: %d, passing now: %d, missing: %d' % (len(base), len(base & passed), len(missing)))
for m in missing:
    print('  NOT PASSING:', m)
sys.exit(1 if missing else 0)
