#!/bin/bash
# Run every claimed check (quick by default) and print one summary line each.
TIER=${1:-quick}
cd /verif
for id in $(python3 -c "import json; print(' '.join(c['property_id'] for c in json.load(open('MANIFEST.json'))['checks']))"); do
  s=$(date +%s)
  out=$(/venv/bin/python check.py $id --tier $TIER 2>&1); rc=$?
  e=$(date +%s)
  echo "$id rc=$rc $((e-s))s | $(echo "$out" | tail -1 | cut -c1-220)"
  if [ $rc -ne 0 ]; then echo "$out" | grep -A1 "^VIOLATION\|ERROR\|FAILED" | head -12; fi
done
