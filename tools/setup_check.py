#!/venv/bin/python
"""MANIFEST.setup_cmd: nothing is compiled; verify that the pieces the checks need are present offline."""
import importlib
import os
import sys

sys.path.insert(0, '/verif')
os.environ.setdefault('PYTHONHASHSEED', '0')
from vf import env  # noqa
env.setup()
import bitcoinlib  # noqa
assert os.path.realpath(os.path.dirname(bitcoinlib.__file__)) == '/repo/bitcoinlib', bitcoinlib.__file__
for m in ('secp', 'codec', 'tx', 'interp', 'nets', 'addr', 'bip32', 'bip39', 'bip38'):
    mod = importlib.import_module('vf.ref.' + m)
    mod.selftest()
os.makedirs('/verif/evidence', exist_ok=True)
os.makedirs('/verif/replays', exist_ok=True)
print('setup ok: bitcoinlib %s from /repo, reference self-tests passed' % bitcoinlib.__version__ if hasattr(bitcoinlib, '__version__') else 'setup ok')
