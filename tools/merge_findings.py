#!/usr/bin/env python3
"""Move drafts from known_findings.d/<ID>.json into known_findings.json (optionally dropping some sigs)."""
import json
import os
import sys

pid = sys.argv[1]
drop = set(sys.argv[2:])
main = '/verif/known_findings.json'
draft = '/verif/known_findings.d/%s.json' % pid
d = json.load(open(main))
dd = json.load(open(draft))
have = {(f['property'], f['sig']) for f in d['findings']}
n = 0
for f in dd['findings']:
    if f['sig'] in drop or (f['property'], f['sig']) in have:
        continue
    d['findings'].append({'property': f['property'], 'sig': f['sig'], 'status': f.get('status', 'open'),
                          'what': f['what'], 'example': f.get('example', '')})
    n += 1
for x in dd.get('fixed', []):
    if x not in d['fixed']:
        d['fixed'].append(x)
json.dump(d, open(main, 'w'), indent=1)
os.remove(draft)
print('merged %d findings of %s (dropped %d)' % (n, pid, len(drop)))
