"""Explicit-state exploration of operation histories on ONE live Transaction object.

The Transaction API mutates the object (sign, set_locktime_*, bumpfee, shuffle, sign_and_update, direct
field edits).  State that survives between calls (cached hashes, ids, sizes, signatures) only shows on
particular orders of operations, so the histories are enumerated breadth-first; every history is
replayed on a freshly built object.  Used by C01 (digest / signature validity in every reached state)
and C06 (reported id and byte-level round trip in every reached state).
"""
import hashlib

from vf import txgen, wharness
from vf.ref import tx as rtx, interp

EVENTS = [['sign'], ['verify'], ['sighash'], ['raw'], ['sign_and_update'], ['lock_blocks'], ['lock_time'],
          ['rel_blocks', 0], ['rel_time', 0], ['rel_blocks', 1], ['rel_blocks_lt', 0], ['rel_time_lt', 0], ['bumpfee'], ['edit_out'], ['shuffle_out'],
          ['shuffle_in'], ['add_out']]


def spec_for(cfg):
    outs = [{'kind': 'p2pkh', 'payload': '11' * 32, 'value': 40000},
            {'kind': 'p2wpkh', 'payload': '22' * 32, 'value': 150000}]
    return txgen.make_spec(cfg.get('seed', 0), cfg['kinds'], mn=tuple(cfg.get('mn', (2, 3))), version=cfg.get('version', 1),
                           locktime=0, seqs=[0xffffffff], values=[120000, 130000], outputs=outs)


def _mod(model):
    """A signed-over field changed: every existing signature is now older than the fields."""
    model['epoch'] += 1
    model['txid_fresh'] = False


def _resign_all(model):
    model['sig_epoch'] = [model['epoch']] * len(model['sig_epoch'])
    model['txid_fresh'] = True


def apply_event(t, ev, model, n_in):
    """Execute one event; advance the model (epoch of the fields, epoch of each input's signature)."""
    from bitcoinlib.transactions import TransactionError
    k = ev[0]
    try:
        if k == 'sign':
            t.sign()
            # sign() adds signatures for keys that have not signed yet; it does not replace existing ones
            if any(e is None for e in model['sig_epoch']):
                # new signatures change the scriptSig of legacy inputs and thereby the id; sign() alone is not
                # documented to refresh Transaction.txid (sign_and_update is)
                model['txid_fresh'] = False
            model['sig_epoch'] = [model['epoch'] if e is None else e for e in model['sig_epoch']]
        elif k == 'verify':
            t.verify()
        elif k == 'sighash':
            for i in t.inputs:
                t.signature_hash(i.index_n, 1, i.witness_type)
        elif k == 'raw':
            t.raw()
        elif k == 'sign_and_update':
            t.sign_and_update()
            _resign_all(model)
        elif k == 'lock_blocks':
            _mod(model)
            t.set_locktime_blocks(606060)
            _resign_all(model)
        elif k == 'lock_time':
            _mod(model)
            t.set_locktime_time(1700000000)
            _resign_all(model)
        elif k in ('rel_blocks', 'rel_time', 'rel_blocks_lt', 'rel_time_lt'):
            idx = ev[1]
            if idx >= n_in:
                return 'noop'
            _mod(model)
            if k == 'rel_blocks':
                t.set_locktime_relative_blocks(100 + idx, input_index_n=idx)
            elif k == 'rel_time':
                t.set_locktime_relative_time(512 * 3, input_index_n=idx)
            elif k == 'rel_blocks_lt':
                # the optional third argument: an absolute locktime set in the same call
                t.set_locktime_relative_blocks(100 + idx, input_index_n=idx, locktime=700000 + t.locktime % 7)
            else:
                t.set_locktime_relative_time(512 * 3, input_index_n=idx, locktime=1800000000 + t.locktime % 7)
            # documented: "existing signatures for THIS input will be removed": only that input is re-signed
            model['sig_epoch'][idx] = model['epoch']
            model['txid_fresh'] = True
        elif k == 'bumpfee':
            _mod(model)
            t.bumpfee(extra_fee=3000)
            _resign_all(model)
        elif k == 'edit_out':
            t.outputs[0].value -= 1
            _mod(model)
        elif k == 'edit_version':
            # the version is kept twice (bytes and int); a caller changing the serialised copy alone must see digests
            # follow the bytes that raw() writes (event used by C01 only)
            t.version = b'\x00\x00\x00\x02'
            _mod(model)
        elif k == 'shuffle_out':
            with wharness.ForcedRandom(None, None, 'reverse'):
                t.shuffle_outputs()
            _mod(model)
        elif k == 'shuffle_in':
            if n_in < 2:
                return 'noop'
            with wharness.ForcedRandom(None, None, 'reverse'):
                t.shuffle_inputs()
            model['sig_epoch'].reverse()
            _mod(model)
        elif k == 'add_out':
            t.add_output(700, address=txgen.output_address({'kind': 'p2wpkh', 'payload': '33' * 32}, 'bitcoin'))
            _mod(model)
        else:
            raise ValueError(k)
    except TransactionError:
        return 'refused'
    return 'ok'


def replay(cfg, hist):
    """(transaction, spec, refs-by-current-input-order, model, label of last event)"""
    spec = spec_for(cfg)
    t = txgen.build(spec, sign=False)
    # second output is the change output of a transaction with a known fee (needed by bumpfee)
    t.outputs[1].change = True
    t.fee = sum(i.value for i in t.inputs) - sum(o.value for o in t.outputs)
    model = {'epoch': 0, 'sig_epoch': [None] * len(spec['inputs']), 'txid_fresh': False}
    lab = 'init'
    for ev in hist:
        lab = apply_event(t, ev, model, len(spec['inputs']))
    return t, spec, model, lab


def refs_in_order(t, spec):
    """Reference view per CURRENT input position (inputs may have been shuffled)."""
    by_op = {}
    for i in spec['inputs']:
        by_op[(i['txid'], i['vout'])] = (i, txgen.input_ref(i))
    out = []
    for i in t.inputs:
        out.append(by_op[(i.prev_txid.hex(), i.output_n_int)])
    return out


def canon(t, model, lab):
    try:
        raw = t.raw().hex()
    except Exception as e:
        raw = 'raise:' + type(e).__name__
    attrs = sorted('%s:%s' % (k, type(v).__name__) for k, v in vars(t).items())
    return {'raw': hashlib.sha256(raw.encode()).hexdigest()[:24], 'txid': t.txid, 'model': dict(model),
            'attrs': hashlib.sha256('|'.join(attrs).encode()).hexdigest()[:12], 'size': t.size,
            'sigs': [len(i.signatures) for i in t.inputs]}


def check_digests_and_signatures(t, spec, model, tag):
    """C01 invariants in the reached state."""
    devs = []
    try:
        raw = t.raw()
        r = rtx.parse(raw)
    except Exception as e:
        return [{'sig': 'hist|raw_unparseable|after_%s' % tag, 'detail': {'exc': repr(e)[:200]}}]
    refs = refs_in_order(t, spec)
    for idx, (inp, ref) in enumerate(refs):
        wt = txgen.KINDS[inp['kind']][1]
        if ref['sigversion'] == 'base':
            exp = rtx.sighash_legacy(r, idx, ref['script_code'], 1)
        else:
            exp = rtx.sighash_bip143(r, idx, ref['script_code'], ref['amount'], 1)
        try:
            got = t.signature_hash(idx, 1, wt)
        except Exception as e:
            got = repr(e)[:100]
        if got != exp:
            devs.append({'sig': 'hist|signature_hash_differs_from_reference_of_current_fields|%s|after_%s' % (inp['kind'], tag),
                         'detail': {'input': idx, 'expected': exp.hex(), 'got': got.hex() if isinstance(got, bytes) else got}})
    if all(e == model['epoch'] for e in model['sig_epoch']):
        for idx, (inp, ref) in enumerate(refs):
            wit = r.wit[idx] if r.wit else []
            ok = interp.verify_script(r.vin[idx]['script'], ref['spk'], wit, interp.TxChecker(r, idx, ref['amount']))
            if not ok:
                devs.append({'sig': 'hist|freshly_signed_input_fails_reference_interpreter|%s|after_%s' % (inp['kind'], tag),
                             'detail': {'input': idx}})
        try:
            lv = bool(t.verify())
        except Exception as e:
            lv = 'raise:' + type(e).__name__
        if lv is not True:
            devs.append({'sig': 'hist|freshly_signed_transaction_not_verified_by_library|after_%s' % tag, 'detail': {'verify': lv}})
    return devs


def check_verify_equals_reference(t, spec, model, tag):
    """C02 invariant in every reached state: verify() of the live object says exactly what the reference interpreter
    says about the bytes the object serialises to (sound and complete, whatever operations came before)."""
    devs = []
    try:
        raw = t.raw()
        r = rtx.parse(raw)
    except Exception as e:
        return [{'sig': 'hist|raw_unparseable|after_%s' % tag, 'detail': {'exc': repr(e)[:200]}}]
    refs = refs_in_order(t, spec)
    ok_all = True
    for idx, (inp, ref) in enumerate(refs):
        wit = r.wit[idx] if r.wit else []
        try:
            ok = interp.verify_script(r.vin[idx]['script'], ref['spk'], wit, interp.TxChecker(r, idx, ref['amount']))
        except Exception:
            ok = False
        ok_all = ok_all and ok is True
    try:
        lv = bool(t.verify())
    except Exception as e:
        lv = 'raise:' + type(e).__name__
    kinds = '+'.join(i['kind'] for i in spec['inputs'])
    if all(e == model['epoch'] for e in model['sig_epoch']) and not (ok_all and lv is True):
        # every input was signed (again) by the library after the last change of a signed-over field
        devs.append({'sig': 'txhist|transaction_signed_by_the_library_with_the_right_keys_does_not_verify|after_%s' % tag,
                     'detail': {'kinds': kinds, 'verify': lv, 'reference': ok_all}})
    elif lv is not ok_all:
        devs.append({'sig': 'txhist|verify_%s_where_reference_says_%s|after_%s' % (
            'true' if lv is True else 'false' if lv is False else lv, 'valid' if ok_all else 'invalid', tag),
            'detail': {'kinds': kinds, 'verify': lv, 'reference': ok_all}})
    return devs


def check_ids_and_bytes(t, spec, model, tag):
    """C06 invariants in the reached state."""
    from bitcoinlib.transactions import Transaction
    devs = []
    try:
        raw = t.raw()
        r = rtx.parse(raw)
    except Exception as e:
        return [{'sig': 'hist|raw_unparseable|after_%s' % tag, 'detail': {'exc': repr(e)[:200]}}]
    rid = rtx.txid(r)
    if model['txid_fresh'] and t.txid != rid:
        devs.append({'sig': 'hist|txid_not_hash_of_stripped_serialization_after_update|after_%s' % tag,
                     'detail': {'txid': t.txid, 'expected': rid}})
    # the bytes the object writes must be read back by the library to the same bytes and id
    try:
        t2 = Transaction.parse(raw, strict=False)
        raw2 = t2.raw()
        id2 = t2.txid
    except Exception as e:
        devs.append({'sig': 'hist|own_serialization_not_parseable|%s|after_%s' % (type(e).__name__, tag),
                     'detail': {'raw': raw.hex()[:300], 'exc': repr(e)[:200]}})
        return devs
    if raw2 != raw:
        devs.append({'sig': 'hist|parse_of_own_serialization_reserializes_differently|after_%s' % tag,
                     'detail': {'raw': raw.hex()[:400], 'raw2': raw2.hex()[:400]}})
    elif id2 != rid:
        devs.append({'sig': 'hist|parsed_txid_differs_from_reference|after_%s' % tag, 'detail': {'txid': id2, 'expected': rid}})
    # fields of the object vs the bytes
    if [(i.prev_txid[::-1], i.output_n_int, i.sequence) for i in t.inputs] != [(i['txid'], i['vout'], i['seq']) for i in r.vin]:
        devs.append({'sig': 'hist|input_fields_differ_from_bytes|after_%s' % tag, 'detail': {}})
    if [(int(o.value), bytes(o.lock_script)) for o in t.outputs] != [(o['value'], o['script']) for o in r.vout]:
        devs.append({'sig': 'hist|output_fields_differ_from_bytes|after_%s' % tag, 'detail': {}})
    if t.locktime != r.locktime or t.version_int != r.version:
        # version bytes are only refreshed by sign_and_update; demand equality when the library says it updated
        if model['txid_fresh']:
            devs.append({'sig': 'hist|version_or_locktime_differ_from_bytes_after_update|after_%s' % tag,
                         'detail': {'locktime': [t.locktime, r.locktime], 'version': [t.version_int, r.version]}})
    return devs


def sub_hist(case, checker):
    cfg, hist = case['cfg'], case['hist']
    t, spec, model, lab = replay(cfg, hist)
    tag = hist[-1][0] if hist else 'init'
    devs = checker(t, spec, model, tag)
    for d in devs:
        d['detail']['hist'] = hist
        d['detail']['cfg'] = cfg
    return {'devs': devs, 'ret': {'state': canon(t, model, lab), 'enabled': cfg['events']}, 'out': lab}


CONFIGS = [['p2pkh'], ['p2wpkh'], ['p2pkh', 'p2wpkh'], ['p2sh_ms'], ['p2wsh_ms'], ['p2sh_p2wpkh', 'p2pkh'], ['p2pk'],
           ['p2sh_p2wsh_ms', 'p2wpkh']]
