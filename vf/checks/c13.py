"""C13 ECDSA signatures are valid, canonical (strict DER, low S), deterministic; the verifier is exact.

E1 input-space enumeration on bitcoinlib.keys.sign / verify / Signature against the plain-integer
secp256k1 reference in vf/ref/secp.py (ECDSA verify, raw signer, RFC 6979, BIP66 strict DER) and a
lax (BER, unsigned) DER reader written here from Bitcoin Core's contrib/lax_der_parsing description.

Signer side: every produced signature must verify with the reference verifier, be strictly DER encoded
with the requested hash-type byte, have s <= n//2, be identical when produced twice (with every entropy
source of the library scripted differently) and never share r with another (key, digest) pair.  With an
explicit nonce k (argument or scripted SystemRandom) r, s must be exactly the textbook values, which
lets the digest be *solved* so that the raw s hits chosen targets around n//2 and 2^255.  The signer's
optional parameters (use_rfc6979, k, hash_type) are also walked as a full product through keyword and
positional calls of sign() and Signature.create() (sub sign_opts) and as call sequences on one key object
(sub sign_hist): which nonce a call uses is decided by ITS arguments alone - explicit k, else SystemRandom
when use_rfc6979 is false, else the one deterministic nonce of (key, digest).

Verifier side: triples are built with the reference signer (never with the library) and pushed through
every verify entry point; the library verdict (a raise counts as reject) must equal textbook ECDSA.
"""
import hashlib
import os
import random as _random

from vf.ref import secp

ID = 'C13'
LEVEL = 'exploration'
RULE = ('full products of explicitly listed alphabets: private scalars x 32-byte digests (edge values, values '
        'around n, leading-zero values, one VERIF_SEED-positioned window each) x input spellings; all 256 '
        'hash-type bytes; explicit nonces; every integer s-target in windows around 1, n//2, 2^255, n-1 (digest '
        'solved from s, k, d); the full product entry (sign / Signature.create, keyword / positional) x use_rfc6979 '
        '(omitted, True, False, 1, 0) x k (omitted, None, explicit values) x hash_type x key spelling x digest '
        'spelling with SystemRandom scripted per call, and every sequence of <= 2 (thorough 3) such calls over a '
        '16-event alphabet on one key object; for the verifier (r,s) alphabets squared, high-S twins, 35 named DER '
        're-encodings, wrong / malformed public keys, every single-bit digest flip and z+-n twins, through all '
        'entry points (Signature(r,s).verify, verify(), Signature.parse/parse_bytes/parse_hex with raw r||s '
        'and DER||hashtype in bytes and hex). An evaluation is non-trivial when the library produced a '
        'signature / a verdict that was compared with the reference; distinct by (key, digest, nonce) or by '
        '(base triple, mutation).')
ASSUMPTIONS = [
    'trusted base: vf/ref/secp.py (validated in selftest on RFC6979/secp256k1 vectors, 2G/3G, strict-DER cases), '
    'hashlib, Python integers',
    'the nonce derivation is not required to be a particular RFC 6979 instantiation (the library feeds '
    'sha256(ascii-hex(digest)) as h1; recorded as an outcome label); demanded is only: same inputs -> same '
    'signature with all entropy sources scripted differently, and no r shared between distinct (key, digest mod n)',
    'DER entry points take DER||hashtype (the last byte is the hash type, as Signature.as_der_encoded emits); for a '
    'strict-DER (BIP66) body the verdict must equal textbook ECDSA on the encoded (r,s); for a non-strict body '
    'rejection is always allowed and acceptance only if the lax unsigned BER reading of the body verifies',
    'a 64-byte input starting with 0x30 is inherently ambiguous (raw r||s or DER||hashtype): acceptance is allowed '
    'if either reading verifies, nothing else is demanded',
    'standard ECDSA accepts the high-S twin (r, n-s); low S is demanded of the signer only',
    'public keys are passed as Key/HDKey objects or SEC1 bytes; hex-string public keys (which Signature.public_key '
    'cannot take: AttributeError) and digests that are not 32 bytes are outside the enumerated space',
    'explicit nonces are in [1, n-1]; hash types are one byte',
    'nonce selection as documented by sign / Signature.create: an explicit k is the nonce whatever use_rfc6979 is; '
    'without k (omitted or None) a false use_rfc6979 (False, 0) means exactly one SystemRandom().randint draw, a true '
    'or omitted one the deterministic nonce; k=0 (an invalid nonce that the library reads as "not given") and '
    'use_rfc6979=None are not enumerated; Signature.k is recorded in the detail, not judged',
    'only the fastecdsa code path exists in this environment (the python-ecdsa fallback of USE_FASTECDSA=False '
    'cannot be imported here, the package is not installed), so that environment answer is not enumerated',
]

N = secp.N
HALF = N // 2
T255 = 1 << 255
T256 = 1 << 256
KHALF = (N + 1) // 2        # k = 1/2 mod n: (k*G).x is only 166 bits long (shortest known r)


def selftest():
    secp.selftest()
    # the lax reader agrees with the strict reader on strict encodings and reads the usual BER variants
    for r, s in ((1, 1), (N - 1, HALF), (T255, T255 + 5), (secp.mul_g(KHALF)[0], 1)):
        der = secp.der_encode(r, s)
        assert secp.der_decode_strict(der) == (r, s) and lax_der(der) == (r, s)
        for name, b in _der_variants(r, s):
            if name in ('r_pad00', 's_pad00', 'seq_long_form', 'r_long_form', 's_long_form', 'junk_inside_seq',
                        'junk_after_seq', 'seq_len_plus1', 'seq_len_minus1', 'r_unpadded', 's_unpadded'):
                assert lax_der(b) == (r, s), name
                assert not secp.is_strict_der(b), name
            if name in ('empty', 'only_tag', 'truncated_1', 'truncated_half', 'tag_seq_31', 'tag_r_03', 'tag_s_03',
                        'r_len_plus1', 's_len_plus1'):
                assert lax_der(b) is None, name
    assert lax_der(bytes.fromhex('3006020101020101')) == (1, 1)
    # solved digests reproduce the requested raw s
    d, k = 0x1234567, KHALF
    z, r = _solve(d, k, HALF + 1)
    assert secp.ecdsa_sign_raw(d, z, k) == (r, HALF + 1)
    assert secp.ecdsa_verify(z, r, HALF + 1, secp.pub(d)) and secp.ecdsa_verify(z, r, N - HALF - 1, secp.pub(d))
    # forged triple construction is valid
    P = secp.pub(7)
    z, r, s = _forge(P, 0, 5)
    assert z == 0 and secp.ecdsa_verify(z, r, s, P)


# ------------------------------------------------------------------------------------------------ helpers
def _b32(v):
    return v.to_bytes(32, 'big')


def _solve(d, k, s):
    """Digest (as integer < n) for which the textbook signature of key d with nonce k has exactly this raw s."""
    r = secp.mul_g(k)[0] % N
    return (s * k - r * d) % N, r


def _forge(P, a, b):
    """A valid triple without the private key: R = a*G + b*P, r = R.x, s = r/b, z = a*s."""
    R = secp.add(secp.mul_g(a) if a else None, secp.mul(b, P))
    r = R[0] % N
    s = r * pow(b, -1, N) % N
    return a * s % N, r, s


def lax_der(sig):
    """(r, s) as Bitcoin Core's lax DER parser reads them (BER lengths, unsigned integers, sequence length and
    trailing bytes ignored), else None."""
    n = len(sig)
    pos = 0
    if pos == n or sig[pos] != 0x30:
        return None
    pos += 1
    if pos == n:
        return None
    lb = sig[pos]
    pos += 1
    if lb & 0x80:
        lb -= 0x80
        if lb > n - pos:
            return None
        pos += lb
    out = []
    for _ in range(2):
        if pos == n or sig[pos] != 0x02:
            return None
        pos += 1
        if pos == n:
            return None
        lb = sig[pos]
        pos += 1
        if lb & 0x80:
            lb -= 0x80
            if lb > n - pos:
                return None
            while lb > 0 and sig[pos] == 0:
                pos += 1
                lb -= 1
            if lb >= 8:
                return None
            ln = 0
            while lb > 0:
                ln = (ln << 8) + sig[pos]
                pos += 1
                lb -= 1
        else:
            ln = lb
        if ln > n - pos:
            return None
        out.append(int.from_bytes(sig[pos:pos + ln], 'big'))
        pos += ln
    return out[0], out[1]


def _enc_int(v, pad=0, strip=False, longform=False):
    b = v.to_bytes((v.bit_length() + 7) // 8 or 1, 'big')
    if b[0] & 0x80 and not strip:
        b = b'\x00' + b
    b = b'\x00' * pad + b
    ln = bytes([0x81, len(b)]) if longform else bytes([len(b)])
    return b'\x02' + ln + b


def _seq(body, longform=False, delta=0):
    ln = len(body) + delta
    return b'\x30' + (bytes([0x81, ln & 0xff]) if longform else bytes([ln & 0xff])) + body


def _der_variants(r, s):
    """Named re-encodings / corruptions of the DER body of (r, s) (without the hash-type byte)."""
    ri, si = _enc_int(r), _enc_int(s)
    can = _seq(ri + si)
    out = [
        ('canonical', can),
        ('r_pad00', _seq(_enc_int(r, pad=1) + si)),
        ('s_pad00', _seq(ri + _enc_int(s, pad=1))),
        ('rs_pad00x2', _seq(_enc_int(r, pad=2) + _enc_int(s, pad=2))),
        ('seq_long_form', _seq(ri + si, longform=True)),
        ('r_long_form', _seq(_enc_int(r, longform=True) + si)),
        ('s_long_form', _seq(ri + _enc_int(s, longform=True))),
        ('seq_len_plus1', _seq(ri + si, delta=1)),
        ('seq_len_minus1', _seq(ri + si, delta=-1)),
        ('junk_inside_seq', _seq(ri + si + b'\x00')),
        ('junk_after_seq', can + b'\x00'),
        ('junk_after_seq_x2', can + b'\x01\x01'),
        ('truncated_1', can[:-1]),
        ('truncated_half', can[:len(can) // 2]),
        ('empty', b''),
        ('only_tag', b'\x30'),
        ('tag_seq_31', b'\x31' + can[1:]),
        ('tag_r_03', _seq(b'\x03' + ri[1:] + si)),
        ('tag_s_03', _seq(ri + b'\x03' + si[1:])),
        ('r_len_plus1', _seq(ri[:1] + bytes([ri[1] + 1]) + ri[2:] + si)),
        ('r_len_minus1', _seq(ri[:1] + bytes([ri[1] - 1]) + ri[2:] + si)),
        ('s_len_plus1', _seq(ri + si[:1] + bytes([si[1] + 1]) + si[2:])),
        ('s_len_minus1', _seq(ri + si[:1] + bytes([si[1] - 1]) + si[2:])),
        ('r_zero_len', _seq(b'\x02\x00' + si)),
        ('s_zero_len', _seq(ri + b'\x02\x00')),
        ('r_is_zero', _seq(_enc_int(0) + si)),
        ('s_is_zero', _seq(ri + _enc_int(0))),
        ('swapped_s_r', _seq(si + ri)),
        ('only_r', _seq(ri)),
        ('three_ints', _seq(ri + si + si)),
        ('indefinite_len', b'\x30\x80' + ri + si + b'\x00\x00'),
        ('r_plus_n', _seq(_enc_int(r + N) + si)),
        ('s_plus_n', _seq(ri + _enc_int(s + N))),
    ]
    if (r.to_bytes(32, 'big').lstrip(b'\0') or b'\0')[0] & 0x80:
        out.append(('r_unpadded', _seq(_enc_int(r, strip=True) + si)))      # reads as negative in DER
    if (s.to_bytes(32, 'big').lstrip(b'\0') or b'\0')[0] & 0x80:
        out.append(('s_unpadded', _seq(ri + _enc_int(s, strip=True))))
    # two's complement negative of r (a DER integer that really is -r)
    nb = (r.bit_length() // 8) + 1
    out.append(('r_negative', _seq(b'\x02' + bytes([nb]) + ((1 << (8 * nb)) - r).to_bytes(nb, 'big') + si)))
    return out


class _Rng(object):
    """Stand-in for the `random` module inside bitcoinlib.keys: SystemRandom().randint answers from a script."""

    def __init__(self, vals):
        self.vals = list(vals)
        self.calls = 0

    def SystemRandom(self, *a):
        return self

    def randint(self, a, b):
        v = self.vals[self.calls % len(self.vals)]
        self.calls += 1
        return v

    def __getattr__(self, name):
        return getattr(_random, name)


class _entropy(object):
    """Script every entropy source the signing path could reach (random module of bitcoinlib.keys, os.urandom)."""

    def __init__(self, vals):
        self.rng = _Rng(vals)

    def __enter__(self):
        import bitcoinlib.keys as K
        self.K = K
        self.old = (K.random, os.urandom)
        K.random = self.rng
        fill = self.rng.vals[0] & 0xff
        os.urandom = lambda n: bytes([(fill + i) & 0xff for i in range(n)])
        return self.rng

    def __exit__(self, *a):
        self.K.random, os.urandom = self.old
        return False


class _Devs(object):
    def __init__(self):
        self.devs = []
        self.seen = set()
        self.out = {}
        self.n = 0
        self.nt = []

    def dev(self, sig, detail):
        # one representative per signature and case keeps evidence small; counts are kept in out
        self.out['dev'] = self.out.get('dev', 0) + 1
        if sig not in self.seen:
            self.seen.add(sig)
            self.devs.append({'sig': sig, 'detail': detail})

    def label(self, name, c=1):
        self.out[name] = self.out.get(name, 0) + c

    def result(self, ret=None):
        r = {'devs': self.devs, 'n': self.n, 'nt': self.nt, 'out': self.out}
        if ret is not None:
            r['ret'] = ret
        return r


def _mkkey(d, form):
    """The signer's key in one of the accepted spellings."""
    from bitcoinlib.keys import Key, HDKey
    h = '%064x' % d
    if form == 'key':
        return Key(h)
    if form == 'hdkey':
        return HDKey(h)
    if form == 'hex':
        return h
    raise ValueError(form)


def _high_s_class(d, z, r, s, k):
    """Name the exact low-S failure: the float comparison `s > n / 2` leaves raw s in (n//2, 2^255] alone."""
    raw = secp.ecdsa_sign_raw(d, z, k) if k else None
    if raw and raw == (r, s) and HALF < s <= T255:
        return 'high_s_emitted|raw_s_in_(n//2,2^255]_not_normalised'
    return 'high_s_emitted|other'


def _check_sig_object(D, site, sg, d, zi, ht, k_used, ctxd):
    """Property clauses on one produced Signature object; returns (r, s)."""
    r, s = sg.r, sg.s
    P = secp.pub(d)
    if not (isinstance(r, int) and isinstance(s, int)):
        D.dev(site + '|r_s_not_int', ctxd)
        return None
    if not secp.ecdsa_verify(zi, r, s, P):
        D.dev(site + '|signature_does_not_verify', dict(ctxd, r=hex(r), s=hex(s)))
    if s > HALF:
        D.dev(site + '|' + _high_s_class(d, zi, r, s, k_used), dict(ctxd, r=hex(r), s=hex(s)))
    try:
        der = sg.as_der_encoded()
        body = sg.as_der_encoded(include_hash_type=False)
        forms_ok = (bytes(sg) == der and str(sg) == der.hex() and sg.as_der_encoded(as_hex=True) == der.hex()
                    and sg.bytes() == _b32(r) + _b32(s) and sg.hex() == (_b32(r) + _b32(s)).hex()
                    and sg.as_bytes() == sg.bytes())
    except Exception as e:
        D.dev(site + '|encoding_raises|' + type(e).__name__, dict(ctxd, exc=repr(e)[:200]))
        return r, s
    if not forms_ok:
        D.dev(site + '|encodings_disagree', dict(ctxd, der=der.hex()))
    if der[:-1] != body or der[-1:] != bytes([ht]):
        D.dev(site + '|hash_type_byte_wrong', dict(ctxd, der=der.hex(), hash_type=ht))
    if not secp.is_strict_der(body):
        D.dev(site + '|der_not_strict', dict(ctxd, der=body.hex()))
    elif secp.der_decode_strict(body) != (r, s) or body != secp.der_encode(r, s):
        D.dev(site + '|der_encodes_other_values', dict(ctxd, der=body.hex(), r=hex(r), s=hex(s)))
    return r, s


def _nonce_label(d, zb, r):
    if r == secp.mul_g(secp.rfc6979_k(d, hashlib.sha256(zb.hex().encode()).digest()))[0] % N:
        return 'nonce=rfc6979(h1=sha256(asciihex(digest)))'
    if r == secp.mul_g(secp.rfc6979_k(d, zb))[0] % N:
        return 'nonce=rfc6979(h1=digest)'
    return 'nonce=other_deterministic'


# ------------------------------------------------------------------------------------------- signer subs
def sub_sign(case):
    """case = {'d': hex, 'zs': [hex digests]}; default (deterministic) mode, all input spellings."""
    from bitcoinlib.keys import sign
    d = int(case['d'], 16)
    D = _Devs()
    ret = []
    for zh in case['zs']:
        zb = bytes.fromhex(zh)
        zi = int(zh, 16)
        ctxd = {'d': case['d'], 'digest': zh}
        first = None
        for i, (kform, zform) in enumerate((('key', 'bytes'), ('hex', 'hex'), ('hdkey', 'bytes'), ('key', 'hex'))):
            site = 'sign'
            D.n += 1
            try:
                with _entropy([0x1111 + 977 * i, 0x2222 + i]):
                    sg = sign(zb if zform == 'bytes' else zh, _mkkey(d, kform))
            except Exception as e:
                D.dev(site + '|raises|' + type(e).__name__, dict(ctxd, form=[kform, zform], exc=repr(e)[:200]))
                continue
            if first is None:
                rs = _check_sig_object(D, site, sg, d, zi, 1, getattr(sg, 'k', None), dict(ctxd, form=[kform, zform]))
                if rs is None:
                    continue
                first_der = sg.as_der_encoded()
            else:
                # identical (r, s) and identical encoding as the fully checked first spelling, or a deviation
                rs = (sg.r, sg.s)
                if rs == first and sg.as_der_encoded() != first_der:
                    D.dev(site + '|encodings_disagree', dict(ctxd, form=[kform, zform]))
            if first is None:
                first = rs
                D.nt.append('%s:%s' % (case['d'], zh))
                D.label(_nonce_label(d, zb, rs[0]))
                _verify_entries(D, zb, secp.pub(d), rs[0], rs[1], 'produced', quick=True)
            elif rs != first:
                # same key, same digest, different spelling / second call with other entropy answers
                D.dev(site + '|nondeterministic_or_spelling_dependent', dict(
                    ctxd, form=[kform, zform], first=[hex(first[0]), hex(first[1])], got=[hex(rs[0]), hex(rs[1])]))
        if first is not None:
            ret.append([case['d'], '%x' % (zi % N), '%x' % first[0], zh])
    return D.result(ret)


def sub_sign_ht(case):
    """case = {'d','z','hts':[...]}: hash-type byte; (r,s) must not depend on it, last DER byte must be it."""
    from bitcoinlib.keys import sign, Signature
    d = int(case['d'], 16)
    zb = bytes.fromhex(case['z'])
    zi = int(case['z'], 16)
    D = _Devs()
    key = _mkkey(d, 'key')
    base = None
    for ht in case['hts']:
        D.n += 1
        ctxd = {'d': case['d'], 'digest': case['z'], 'hash_type': ht}
        try:
            sg = sign(zb, key, hash_type=ht)
        except Exception as e:
            D.dev('sign(hash_type)|raises|' + type(e).__name__, dict(ctxd, exc=repr(e)[:200]))
            continue
        rs = _check_sig_object(D, 'sign(hash_type)', sg, d, zi, ht, getattr(sg, 'k', None), ctxd)
        D.nt.append('%s:%s:%d' % (case['d'][-8:], case['z'][-8:], ht))
        if base is None:
            base = rs
        elif rs != base:
            D.dev('sign(hash_type)|r_s_depend_on_hash_type', ctxd)
        # round trip through the DER entry point keeps the byte
        try:
            back = Signature.parse_bytes(sg.as_der_encoded())
            if (back.r, back.s, back.hash_type) != (rs[0], rs[1], ht):
                D.dev('parse[der]|hash_type_or_values_lost', dict(ctxd, got=[hex(back.r), hex(back.s), back.hash_type]))
        except Exception as e:
            D.dev('parse[der]|own_encoding_refused|' + type(e).__name__, dict(ctxd, exc=repr(e)[:200]))
    D.label('ok' if not D.devs else 'dev')
    return D.result()


def _expect_k(d, zi, k):
    raw = secp.ecdsa_sign_raw(d, zi, k)
    if raw is None:
        return None, None
    r, s = raw
    return raw, (r, s if s <= HALF else N - s)


def _check_explicit(D, site, sg, d, zi, k, ctxd, full):
    raw, exp = _expect_k(d, zi, k)
    r, s = sg.r, sg.s
    if r != exp[0]:
        D.dev(site + '|r_is_not_(kG).x', dict(ctxd, r=hex(r), expected=hex(exp[0])))
    elif s != exp[1]:
        if s == raw[1] and s > HALF:
            D.dev(site + '|' + _high_s_class(d, zi, r, s, k), dict(ctxd, r=hex(r), s=hex(s)))
        else:
            D.dev(site + '|s_mismatch', dict(ctxd, s=hex(s), expected=hex(exp[1])))
    elif full:
        _check_sig_object(D, site, sg, d, zi, 1, k, ctxd)
    else:
        # exact equality with the reference signer already implies validity and low S; check the encoding
        body = sg.as_der_encoded(include_hash_type=False)
        if body != secp.der_encode(r, s) or sg.as_der_encoded() != body + b'\x01':
            D.dev(site + '|der_encodes_other_values', dict(ctxd, der=body.hex()))
    D.label('raw_high_s' if raw[1] > HALF else 'raw_low_s')


def sub_sign_k(case):
    """case = {'d','zs','k'}: explicit nonce argument."""
    from bitcoinlib.keys import sign
    d = int(case['d'], 16)
    k = int(case['k'], 16)
    key = _mkkey(d, 'key')
    D = _Devs()
    for zh in case['zs']:
        zi = int(zh, 16)
        ctxd = {'d': case['d'], 'digest': zh, 'k': case['k']}
        D.n += 1
        try:
            with _entropy([3, 5]):
                sg = sign(bytes.fromhex(zh), key, k=k)
        except Exception as e:
            D.dev('sign(k)|raises|' + type(e).__name__, dict(ctxd, exc=repr(e)[:200]))
            continue
        D.nt.append('%s:%s:%s' % (case['d'], zh, case['k']))
        _check_explicit(D, 'sign(k)', sg, d, zi, k, ctxd, True)
    return D.result()


def sub_sign_rng(case):
    """case = {'d','zs','k'}: use_rfc6979=False, the SystemRandom answer is scripted to k."""
    from bitcoinlib.keys import sign
    d = int(case['d'], 16)
    k = int(case['k'], 16)
    key = _mkkey(d, 'key')
    D = _Devs()
    for zh in case['zs']:
        zi = int(zh, 16)
        ctxd = {'d': case['d'], 'digest': zh, 'k': case['k']}
        D.n += 1
        try:
            with _entropy([k]) as rng:
                sg = sign(bytes.fromhex(zh), key, use_rfc6979=False)
            calls = rng.calls
        except Exception as e:
            D.dev('sign(random_k)|raises|' + type(e).__name__, dict(ctxd, exc=repr(e)[:200]))
            continue
        D.nt.append('%s:%s:%s' % (case['d'], zh, case['k']))
        if calls != 1:
            D.dev('sign(random_k)|nonce_not_from_SystemRandom', dict(ctxd, calls=calls))
            continue
        _check_explicit(D, 'sign(random_k)', sg, d, zi, k, ctxd, True)
    return D.result()


def sub_sign_starget(case):
    """case = {'d','k','lo','hi'}: for every integer s in [lo, hi) the digest is solved so that the raw s of the
    textbook signature (key d, nonce k) is exactly s; the library must emit (r, min(s, n-s))."""
    from bitcoinlib.keys import sign
    d = int(case['d'], 16)
    k = int(case['k'], 16)
    lo, hi = int(case['lo'], 16), int(case['hi'], 16)
    key = _mkkey(d, 'key')
    r = secp.mul_g(k)[0] % N
    D = _Devs()
    for s in range(lo, hi):
        if not 1 <= s < N:
            continue
        zi = (s * k - r * d) % N
        ctxd = {'d': case['d'], 'k': case['k'], 'raw_s': hex(s), 'digest': '%064x' % zi}
        D.n += 1
        try:
            sg = sign(_b32(zi), key, k=k)
        except Exception as e:
            D.dev('sign(k)|raises|' + type(e).__name__, dict(ctxd, exc=repr(e)[:200]))
            continue
        _check_explicit(D, 'sign(k)', sg, d, zi, k, ctxd, False)
    D.nt.append('%s:%s:%s-%s' % (case['d'][-8:], case['k'][-8:], case['lo'], case['hi']))
    return D.result()


def sub_nonce_pair(case):
    """case = [[d, z], [d', z']]: two distinct (key, digest mod n) pairs whose default signatures had equal r."""
    from bitcoinlib.keys import sign
    rs = []
    for dh, zh in case:
        sg = sign(bytes.fromhex(zh), _mkkey(int(dh, 16), 'key'))
        rs.append(sg.r)
    D = _Devs()
    D.n = 1
    D.nt = True
    if rs[0] == rs[1]:
        kind = 'same_key_different_digest' if case[0][0] == case[1][0] else (
            'different_keys_same_digest' if case[0][1] == case[1][1] else 'different_keys_and_digests')
        D.dev('sign|nonce_shared|' + kind, {'pairs': case, 'r': hex(rs[0])})
    return D.result()


# ------------------------------------------------------- signer: option product and signer call histories
# The signer has three optional parameters that together select the nonce: use_rfc6979, k and (irrelevant for
# the nonce, relevant for the encoding) hash_type.  The specification (docstrings of sign / Signature.create):
#   an explicit k IS the nonce ("Provide own k"), whatever use_rfc6979 says;
#   without k: use_rfc6979 true (or left out) -> deterministic nonce, use_rfc6979 false -> SystemRandom nonce.
# sign_k / sign_rng / sign_ht walk each parameter alone; sign_opts walks their full product through every way of
# passing them, sign_hist walks sequences of such calls on one key object.
_OM = 'omitted'
_RFC_SPELLINGS = (_OM, 'True', 'False', '1', '0')
_RFC_VALUES = {'True': True, 'False': False, '1': 1, '0': 0}
_OPT_ENTRIES = ('sign(kw)', 'sign(positional)', 'Signature.create(kw)', 'Signature.create(positional)')


def _rfc_class(sp):
    return 'default' if sp == _OM else ('truthy' if _RFC_VALUES[sp] else 'falsy')


def _nonce_source(rfc_sp, k_sp):
    """Which nonce the documentation promises for this combination of arguments."""
    if k_sp not in (_OM, 'None'):
        return 'explicit'
    return 'random' if _rfc_class(rfc_sp) == 'falsy' else 'deterministic'


def _opt_site(rfc_sp, k_sp):
    return 'sign(use_rfc6979=%s,k=%s)' % (_rfc_class(rfc_sp), 'explicit' if k_sp not in (_OM, 'None') else 'none')


def _opt_call(entry, zarg, key, rfc_sp, k_sp, ht_sp):
    """One signer call with the options passed as keywords or positionally (trailing omitted ones left out,
    inner omitted ones filled with the documented default)."""
    from bitcoinlib.keys import sign, Signature
    fn = sign if entry.startswith('sign(') else Signature.create
    vals = [_OM if rfc_sp == _OM else _RFC_VALUES[rfc_sp],
            _OM if k_sp == _OM else (None if k_sp == 'None' else int(k_sp, 16)),
            _OM if ht_sp == _OM else int(ht_sp)]
    given = [sp != _OM for sp in (rfc_sp, k_sp, ht_sp)]
    if entry.endswith('(kw)'):
        kw = dict((name, v) for name, v, g in zip(('use_rfc6979', 'k', 'hash_type'), vals, given) if g)
        return fn(zarg, key, **kw)
    while given and not given[-1]:
        given.pop()
    args = [vals[i] if given[i] else (True, None, 1)[i] for i in range(len(given))]
    return fn(zarg, key, *args)


class _NonceOracle(object):
    """Reference answers for one private key: the textbook signature per (digest, nonce), and which of the nonces
    in play an observed r reveals."""

    def __init__(self, d):
        self.d = d
        self.rk = {}
        self.tb = {}
        self.det = {}

    def r_of(self, k):
        if k not in self.rk:
            self.rk[k] = secp.mul_g(k)[0] % N
        return self.rk[k]

    def textbook(self, zi, k):
        """(r, low s, raw s) of the textbook signature with nonce k."""
        key = (zi, k)
        if key not in self.tb:
            r = self.r_of(k)
            s = pow(k, -1, N) * (zi + r * self.d) % N
            self.tb[key] = (r, min(s, N - s), s)
        return self.tb[key]

    def det_candidates(self, zb):
        """The RFC 6979 instantiations known to the reference: {(r, low s): label}."""
        if zb not in self.det:
            zi = int.from_bytes(zb, 'big')
            out = {}
            for lab, h1 in (('nonce=rfc6979(h1=sha256(asciihex(digest)))', hashlib.sha256(zb.hex().encode()).digest()),
                            ('nonce=rfc6979(h1=digest)', zb)):
                out.setdefault(self.textbook(zi, secp.rfc6979_k(self.d, h1))[:2], lab)
            self.det[zb] = out
        return self.det[zb]

    def reveals(self, zb, r, known):
        """Name of the first nonce in `known` ([(name, k), ...]) whose (kG).x is r."""
        for name, k in known:
            if k and r == self.r_of(k):
                return name
        for (cr, _), lab in self.det_candidates(zb).items():
            if r == cr:
                return 'deterministic'
        return 'unknown'


def _judge_signer_call(D, O, site, sg, calls, zb, source, nonce, ht, known, first_det, ctxd, tail=''):
    """One produced signature against the promised nonce source.  `nonce` is the explicit k / the scripted
    SystemRandom answer; `known` names every nonce that is around (for the classifier only); `first_det` is the
    dict digest -> (r, s) of the first deterministic-mode signature seen for this key."""
    zi = int.from_bytes(zb, 'big')
    r, s = sg.r, sg.s
    if not (isinstance(r, int) and isinstance(s, int)):
        D.dev(site + '|r_s_not_int' + tail, ctxd)
        return
    exact = False
    if source in ('explicit', 'random'):
        er, es, raw_s = O.textbook(zi, nonce)
        what = 'the_explicit_k' if source == 'explicit' else 'the_SystemRandom_answer'
        if source == 'random' and calls != 1:
            D.dev('%s|random_mode_draws_%s_nonces%s' % (site, 'no' if calls == 0 else 'several', tail),
                  dict(ctxd, calls=calls))
        if r != er:
            D.dev('%s|nonce_is_not_%s|used=%s%s' % (site, what, O.reveals(zb, r, known), tail),
                  dict(ctxd, r=hex(r), expected_r=hex(er), k_attribute=repr(getattr(sg, 'k', None))[:80]))
        elif s != es:
            if s == raw_s and s > HALF:
                D.dev(site + '|' + _high_s_class(O.d, zi, r, s, nonce) + tail, dict(ctxd, r=hex(r), s=hex(s)))
            else:
                D.dev(site + '|s_mismatch' + tail, dict(ctxd, s=hex(s), expected=hex(es)))
        else:
            exact = True
            D.label('%s_nonce_honoured' % source)
    else:
        lab = O.det_candidates(zb).get((r, s))
        if lab:
            exact = True
            D.label(lab)
        else:
            used = O.reveals(zb, r, known)
            if used not in ('unknown', 'deterministic'):
                D.dev('%s|deterministic_mode_nonce_from=%s%s' % (site, used, tail), dict(ctxd, r=hex(r)))
            else:
                D.label('nonce=other_deterministic')
        if zb not in first_det:
            first_det[zb] = (r, s)
        elif first_det[zb] != (r, s):
            D.dev('%s|deterministic_mode_result_varies%s' % (site, tail),
                  dict(ctxd, first=[hex(v) for v in first_det[zb]], got=[hex(r), hex(s)]))
    if getattr(sg, 'hash_type', None) != ht:
        D.dev(site + '|hash_type_attribute_wrong' + tail, dict(ctxd, got=repr(getattr(sg, 'hash_type', None))[:40]))
    if exact:
        # equality with the reference signer implies validity and low S: only the encoding is left
        try:
            body = sg.as_der_encoded(include_hash_type=False)
            der = sg.as_der_encoded()
        except Exception as e:
            D.dev(site + '|encoding_raises|' + type(e).__name__ + tail, dict(ctxd, exc=repr(e)[:200]))
            return
        if body != secp.der_encode(r, s):
            D.dev(site + '|der_encodes_other_values' + tail, dict(ctxd, der=body.hex()))
        elif der != body + bytes([ht]):
            D.dev(site + '|hash_type_byte_wrong' + tail, dict(ctxd, der=der.hex(), hash_type=ht))
    else:
        _check_sig_object(D, site, sg, O.d, zi, ht, None, ctxd)


def sub_sign_opts(case):
    """case = {'d','z','kform','entries','ks':[hex],'krs':[hex,hex],'hts':[...]}: the full product of
    entry x use_rfc6979 spelling x k spelling x hash_type spelling x digest spelling for one key in one spelling.
    SystemRandom is scripted with an answer that alternates between two values from call to call, so that a
    deterministic or explicit-nonce signature that depends on it cannot stay unnoticed.  A key object is made
    anew for every (entry, use_rfc6979, k) block and serves the hash_type x digest spellings of that block
    (building a key costs more than signing; what a key object may carry over between calls is sign_hist's job)."""
    from bitcoinlib.keys import sign
    d = int(case['d'], 16)
    zh = case['z']
    zb = bytes.fromhex(zh)
    krs = [int(x, 16) for x in case['krs']]
    O = _NonceOracle(d)
    D = _Devs()
    first_det = {}
    # the canonical plain call fixes what "the" deterministic signature of (key, digest) is, for every case alike
    try:
        with _entropy([krs[1], krs[0]]):
            sg0 = sign(zb, _mkkey(d, 'key'))
    except Exception as e:
        D.dev('sign|raises|' + type(e).__name__, {'d': case['d'], 'digest': zh, 'exc': repr(e)[:200]})
        return D.result()
    D.n += 1
    rs0 = _check_sig_object(D, 'sign', sg0, d, int(zh, 16), 1, None, {'d': case['d'], 'digest': zh})
    if rs0 is None:
        return D.result()
    first_det[zb] = rs0
    ck = _spec_key({'d': case['d'], 'z': zh, 'kform': case['kform']})
    i = 0
    for entry in case['entries']:
        for rfc_sp in _RFC_SPELLINGS:
            for k_sp in [_OM, 'None'] + case['ks']:
                key = _mkkey(d, case['kform'])
                source = _nonce_source(rfc_sp, k_sp)
                site = _opt_site(rfc_sp, k_sp)
                for ht_sp in [_OM] + [str(h) for h in case['hts']]:
                    ht = 1 if ht_sp == _OM else int(ht_sp)
                    for zform in ('bytes', 'hex'):
                        i += 1
                        kr = krs[i & 1]
                        ctxd = {'d': case['d'], 'digest': zh, 'entry': entry, 'use_rfc6979': rfc_sp, 'k': k_sp,
                                'hash_type': ht_sp, 'forms': [case['kform'], zform], 'SystemRandom_answer': '%x' % kr}
                        D.n += 1
                        try:
                            with _entropy([kr]) as rng:
                                sg = _opt_call(entry, zb if zform == 'bytes' else zh, key, rfc_sp, k_sp, ht_sp)
                            calls = rng.calls
                        except Exception as e:
                            D.dev(site + '|raises|' + type(e).__name__, dict(ctxd, exc=repr(e)[:200]))
                            continue
                        if source == 'explicit':
                            nonce = int(k_sp, 16)
                            known = [('SystemRandom_answer', kr), ('explicit_k', nonce)]
                        else:
                            nonce = kr if source == 'random' else None
                            known = [('SystemRandom_answer', kr)]
                        known += [('SystemRandom_answer_of_another_call', krs[1 - (i & 1)])]
                        known += [('other_explicit_k', int(x, 16)) for x in case['ks']]
                        _judge_signer_call(D, O, site, sg, calls, zb, source, nonce, ht, known, first_det, ctxd)
                        D.nt.append('%s|%s|%s|%s|%s|%s' % (ck, entry, rfc_sp, k_sp, ht_sp, zform))
    return D.result()


def _hist_events(nz, nk):
    """The call alphabet of signer histories: (mode, digest index, nonce index)."""
    ev = [['det', zi, 0] for zi in range(nz)] + [['rnd', zi, 0] for zi in range(nz)]
    for mode in ('k', 'rnd+k', 'det+k'):
        ev += [[mode, zi, ki] for zi in range(nz) for ki in range(nk)]
    return ev


_HIST_OPTS = {'det': (_OM, _OM), 'rnd': ('False', _OM), 'k': (_OM, 'K'), 'rnd+k': ('False', 'K'), 'det+k': ('True', 'K')}


def sub_sign_hist(case):
    """case = {'d','zs','ks','krs','kform','first','L'}: every sequence of <= L signer calls that starts with
    event `first`, each sequence on ONE fresh key object.  Every call is judged for ITS arguments: an explicit
    nonce is the nonce, use_rfc6979=False takes the SystemRandom answer scripted for that step, the default mode
    gives the one deterministic signature of (key, digest) - whatever was signed before on the same key."""
    import itertools
    d = int(case['d'], 16)
    zbs = [bytes.fromhex(z) for z in case['zs']]
    ks = [int(x, 16) for x in case['ks']]
    krs = [int(x, 16) for x in case['krs']]
    events = _hist_events(len(zbs), len(ks))
    O = _NonceOracle(d)
    D = _Devs()
    first_det = {}
    ck = _spec_key({'d': case['d'], 'zs': case['zs'], 'ks': case['ks']})
    for ln in range(1, case['L'] + 1):
        for rest in itertools.product(range(len(events)), repeat=ln - 1):
            hist = [case['first']] + list(rest)
            key = _mkkey(d, case['kform'])
            earlier = []
            for step, ei in enumerate(hist):
                mode, zi, ki = events[ei]
                rfc_sp, k_sp = _HIST_OPTS[mode]
                if k_sp == 'K':
                    k_sp = '%x' % ks[ki]
                source = _nonce_source(rfc_sp, k_sp)
                site = 'sign_hist|' + _opt_site(rfc_sp, k_sp)
                tail = '|step=%s' % ('first' if step == 0 else 'later')
                kr = krs[step % len(krs)]
                ctxd = {'d': case['d'], 'kform': case['kform'], 'history': [events[e] for e in hist], 'step': step,
                        'digests': case['zs'], 'ks': case['ks'], 'SystemRandom_answers': case['krs']}
                if step == len(hist) - 1:
                    D.n += 1        # the prefix was evaluated as a history of its own
                try:
                    with _entropy([kr]) as rng:
                        sg = _opt_call(_OPT_ENTRIES[step & 1], zbs[zi], key, rfc_sp, k_sp, _OM)
                    calls = rng.calls
                except Exception as e:
                    D.dev(site + '|raises|' + type(e).__name__ + tail, dict(ctxd, exc=repr(e)[:200]))
                    break
                nonce = int(k_sp, 16) if source == 'explicit' else (kr if source == 'random' else None)
                known = [('SystemRandom_answer', kr)] + ([('explicit_k', nonce)] if source == 'explicit' else [])
                known += [('nonce_of_earlier_call', k) for k in earlier]
                known += [('other_explicit_k', k) for k in ks]
                if step == len(hist) - 1:
                    _judge_signer_call(D, O, site, sg, calls, zbs[zi], source, nonce, 1, known, first_det, ctxd, tail)
                if nonce:
                    earlier.append(nonce)
                elif isinstance(getattr(sg, 'k', None), int):
                    earlier.append(sg.k)
            D.nt.append('%s:%s:%s' % (ck, case['kform'], '.'.join(str(e) for e in hist)))
    return D.result()


# ----------------------------------------------------------------------------------------- verifier subs
def _verdict(fn):
    try:
        v = fn()
    except Exception as e:     # a raise counts as reject
        m = str(e)
        tag = type(e).__name__
        if 'Signature length must be 64 bytes' in m:
            tag += '(length!=64)'
        return 'reject', tag
    if v is True:
        return 'accept', 'True'
    if v is False:
        return 'reject', 'False'
    return 'other', repr(v)[:40]


def _pub_arg(form, P=None, raw=None, d=None):
    """Build the public_key argument (inside the guarded call: a refusal here is a rejection of the triple)."""
    from bitcoinlib.keys import Key, HDKey
    if form == 'key_c':
        return Key(secp.ser(P).hex())
    if form == 'key_u':
        return Key(secp.ser(P, False).hex())
    if form == 'hdkey':
        return HDKey(secp.ser(P))
    if form == 'bytes_c':
        return secp.ser(P)
    if form == 'bytes_u':
        return secp.ser(P, False)
    if form == 'private_key':
        return Key('%064x' % d)
    if form == 'raw_bytes':
        return raw
    if form == 'raw_key':
        return Key(raw.hex()) if len(raw) in (33, 65) else Key(raw)
    raise ValueError(form)


def _route(inp):
    if len(inp) == 64:
        return 'len64_0x30' if inp[:1] == b'\x30' else 'raw'
    return 'der'


def _expect_bytes(inp, zi, P, cache):
    """('exact'|'atmost', bool, strict?) for a byte-string signature argument."""
    def ok(r, s):
        key = (r, s)
        if key not in cache:
            cache[key] = secp.ecdsa_verify(zi, r, s, P)
        return cache[key]
    route = _route(inp)
    raw = (int.from_bytes(inp[:32], 'big'), int.from_bytes(inp[32:64], 'big')) if len(inp) == 64 else None
    if route == 'raw':
        return 'exact', ok(*raw), False
    body = inp[:-1]
    strict = secp.der_decode_strict(body)
    if route == 'len64_0x30':
        lax = strict or lax_der(body)
        return 'atmost', ok(*raw) or bool(lax and ok(*lax)), False
    if strict is not None:
        return 'exact', ok(*strict), True
    lax = lax_der(body)
    return 'atmost', bool(lax and ok(*lax)), False


_INT_ENTRIES = ('Signature(r,s).verify(z,pub)', 'verify(z,Signature(r,s),pub)', 'Signature(r,s,public_key=pub).verify(z)')
_BYTE_ENTRIES = ('verify(z,bytes,pub)', 'verify(zhex,hex,pub)', 'parse_bytes(bytes,pub).verify(z)',
                 'parse_hex(hex).verify(zhex,pub)', 'parse(hex,pub).verify(z)')


def _call_int(entry, zb, r, s, pubf):
    from bitcoinlib.keys import Signature, verify
    if entry == _INT_ENTRIES[0]:
        return Signature(r, s).verify(zb, pubf())
    if entry == _INT_ENTRIES[1]:
        return verify(zb, Signature(r, s), pubf())
    return Signature(r, s, public_key=pubf()).verify(zb)


def _call_bytes(entry, zb, inp, pubf):
    from bitcoinlib.keys import Signature, verify
    if entry == _BYTE_ENTRIES[0]:
        return verify(zb, inp, pubf())
    if entry == _BYTE_ENTRIES[1]:
        return verify(zb.hex(), inp.hex(), pubf())
    if entry == _BYTE_ENTRIES[2]:
        return Signature.parse_bytes(inp, pubf()).verify(zb)
    if entry == _BYTE_ENTRIES[3]:
        return Signature.parse_hex(inp.hex()).verify(zb.hex(), pubf())
    return Signature.parse(inp.hex(), pubf()).verify(zb)


def _compare(D, site, entry, mode, expected, got, how, kind, detail):
    """Record the outcome class; name the deviation."""
    if got == 'other':
        D.dev('%s|returns_non_bool' % site, dict(detail, entry=entry, got=how))
        return
    D.label('%s:%s' % (got, 'valid' if expected else 'invalid'))
    if expected and got == 'reject' and mode == 'exact':
        D.dev('%s|rejects_valid|%s|%s' % (site, kind, how), dict(detail, entry=entry))
    elif not expected and got == 'accept':
        D.dev('%s|accepts_invalid|%s' % (site, kind), dict(detail, entry=entry))


def _judge_bytes(D, zb, P, inp, kind, pubf, cache, detail, entries=_BYTE_ENTRIES):
    zi = int.from_bytes(zb, 'big')
    mode, expected, strict = _expect_bytes(inp, zi, P, cache)
    route = _route(inp)
    site = 'parse[%s]' % route
    if route == 'der' and strict and expected and len(inp) < 64:
        # classifier of the length heuristic in Signature.parse_bytes (len(signature) > 64 decides "is DER")
        kind = 'strict_der_with_hashtype_shorter_than_64_bytes'
    for entry in entries:
        D.n += 1
        got, how = _verdict(lambda: _call_bytes(entry, zb, inp, pubf))
        _compare(D, site, entry, mode, expected, got, how, kind, dict(detail, sig=inp.hex(), digest=zb.hex()))


def _judge_ints(D, zb, P, r, s, kind, pubf, cache, detail, entries=_INT_ENTRIES):
    zi = int.from_bytes(zb, 'big')
    if (r, s) not in cache:
        cache[(r, s)] = secp.ecdsa_verify(zi, r, s, P)
    expected = cache[(r, s)]
    for entry in entries:
        D.n += 1
        got, how = _verdict(lambda: _call_int(entry, zb, r, s, pubf))
        _compare(D, 'Signature(r,s)', entry, 'exact', expected, got, how, kind,
                 dict(detail, r=hex(r), s=hex(s), digest=zb.hex()))


def _verify_entries(D, zb, P, r, s, kind, quick=False):
    """Push one (r, s) through the integer, raw and DER entry points."""
    cache = {}
    pubf = lambda: _pub_arg('key_c', P)
    _judge_ints(D, zb, P, r, s, kind, pubf, cache, {}, _INT_ENTRIES[:1] if quick else _INT_ENTRIES)
    if r < T256 and s < T256 and r >= 0 and s >= 0:
        _judge_bytes(D, zb, P, _b32(r) + _b32(s), kind, pubf, cache, {}, _BYTE_ENTRIES[:1] if quick else _BYTE_ENTRIES)
    if r >= 0 and s >= 0:
        _judge_bytes(D, zb, P, secp.der_encode(r, s) + b'\x01', kind, pubf, cache, {},
                     _BYTE_ENTRIES[:1] if quick else _BYTE_ENTRIES)


def _base(spec):
    """A valid triple from the *reference* signer: returns (d or None, P, zb, r, s)."""
    if 'forge' in spec:
        q, a, b = [int(x, 16) for x in spec['forge']]
        P = secp.pub(q)
        zi, r, s = _forge(P, a, b)
        return q, P, _b32(zi), r, s
    d = int(spec['d'], 16)
    P = secp.pub(d)
    if 's' in spec:         # solved digest: raw s target with nonce k
        k = int(spec['k'], 16)
        s = int(spec['s'], 16)
        zi, r = _solve(d, k, s)
        return d, P, _b32(zi), r, s
    zb = bytes.fromhex(spec['z'])
    k = int(spec['k'], 16) if spec.get('k') else secp.rfc6979_k(d, zb)
    r, s = secp.ecdsa_sign_raw(d, int.from_bytes(zb, 'big'), k)
    if spec.get('high'):
        s = max(s, N - s)
    elif spec.get('low'):
        s = min(s, N - s)
    return d, P, zb, r, s


def sub_ver_rs(case):
    """case = {'base': spec, 'wide': bool}: (r, s) alphabets squared through every entry point."""
    d, P, zb, r, s = _base(case['base'])
    assert secp.ecdsa_verify(int.from_bytes(zb, 'big'), r, s, P)
    D = _Devs()
    RA = [('0', 0), ('1', 1), ('n-1', N - 1), ('n', N), ('n+1', N + 1), ('2^256-1', T256 - 1), ('r', r), ('n-r', N - r)]
    SA = [('0', 0), ('1', 1), ('n-1', N - 1), ('n', N), ('n+1', N + 1), ('2^256-1', T256 - 1), ('s', s), ('n-s', N - s)]
    if r + N < T256:
        RA.append(('r+n', r + N))
    if s + N < T256:
        SA.append(('s+n', s + N))
    if case.get('wide'):
        RA += [('r+1', r + 1), ('r-1', r - 1), ('n//2', HALF), ('2^255', T255), ('2', 2), ('2^256', T256), ('-r', -r)]
        SA += [('s+1', s + 1), ('s-1', s - 1), ('n//2', HALF), ('n//2+1', HALF + 1), ('2^255', T255), ('2', 2),
               ('2^256', T256), ('-s', -s), ('n-s+n', 2 * N - s)]
    cache = {}
    pubf = lambda: _pub_arg('key_c', P)
    for rn, rv in RA:
        for sn, sv in SA:
            kind = 'r=%s,s=%s' % (rn, sn)
            D.nt.append(kind)
            _judge_ints(D, zb, P, rv, sv, kind, pubf, cache, {})
            if 0 <= rv < T256 and 0 <= sv < T256:
                _judge_bytes(D, zb, P, _b32(rv) + _b32(sv), kind, pubf, cache, {})
            if rv >= 0 and sv >= 0 and rv < T256 and sv < T256:
                _judge_bytes(D, zb, P, secp.der_encode(rv, sv) + b'\x01', kind, pubf, cache, {})
    r_ = D.result()
    r_['nt'] = ['%s|%s' % (_spec_key(case['base']), k) for k in D.nt]
    return r_


def _spec_key(spec):
    return hashlib.sha256(repr(sorted(spec.items())).encode()).hexdigest()[:12]


def sub_ver_der(case):
    """case = {'base': spec}: every named DER re-encoding of (r,s) and of the high-S twin, + hash-type bytes."""
    d, P, zb, r, s = _base(case['base'])
    D = _Devs()
    pubf = lambda: _pub_arg('key_c', P)
    for twin, sv in (('', s), ('twin:', N - s)):
        cache = {}
        for name, body in _der_variants(r, sv):
            D.nt.append(twin + name)
            _judge_bytes(D, zb, P, body + b'\x01', 'der:' + name, pubf, cache, {'variant': twin + name})
        # the DER body without a hash-type byte (the entry point strips the last byte of s)
        _judge_bytes(D, zb, P, secp.der_encode(r, sv), 'der:no_hashtype_byte', pubf, cache, {'variant': twin + 'no_ht'})
    cache = {}
    body = secp.der_encode(r, s)
    for ht in case.get('hts', ()):
        D.nt.append('ht%d' % ht)
        _judge_bytes(D, zb, P, body + bytes([ht]), 'der:hashtype_byte', pubf, cache, {'hash_type': ht},
                     entries=_BYTE_ENTRIES[:3:2])
    r_ = D.result()
    r_['nt'] = ['%s|%s' % (_spec_key(case['base']), k) for k in D.nt]
    return r_


def sub_ver_key(case):
    """case = {'base': spec}: right key in every spelling; wrong, negated, malformed and off-curve keys."""
    d, P, zb, r, s = _base(case['base'])
    D = _Devs()
    zi = int.from_bytes(zb, 'big')
    keys = []
    for form in ('key_c', 'key_u', 'hdkey', 'bytes_c', 'bytes_u') + (('private_key',) if 'forge' not in case['base'] else ()):
        keys.append(('right_key:' + form, P, (lambda f=form: _pub_arg(f, P, d=d))))
    others = [('negated', secp.neg(P)), ('doubled', secp.add(P, P)), ('G', secp.G), ('P+G', secp.add(P, secp.G)),
              ('P-G', secp.add(P, secp.neg(secp.G)))]
    for name, Q in others:
        if Q is None or Q == P:
            continue
        for form in ('key_c', 'bytes_u'):
            keys.append(('other_key:%s:%s' % (name, form), Q, (lambda f=form, Q=Q: _pub_arg(f, Q))))
    x, y = P
    bad = [
        ('y+1', b'\x04' + _b32(x) + _b32((y + 1) % secp.P)),
        ('x+1_same_y', b'\x04' + _b32((x + 1) % secp.P) + _b32(y)),
        ('zero_point', b'\x04' + bytes(64)),
        ('x_not_on_curve_02', b'\x02' + _b32(5)),
        ('x_ge_p_02', b'\x02' + b'\xff' * 32),
        ('y_ge_p', b'\x04' + _b32(x) + _b32(y + secp.P) if y + secp.P < T256 else b'\x04' + _b32(x) + b'\xff' * 32),
        ('hybrid_06', bytes([6 + (y & 1)]) + _b32(x) + _b32(y)),
        ('wrong_parity_is_other_point', bytes([2 + (1 - (y & 1))]) + _b32(x)),
    ]
    for name, raw in bad:
        Q = secp.decode_pub(raw)
        for form in ('raw_bytes', 'raw_key'):
            keys.append(('malformed_key:%s:%s' % (name, form) if Q is None else 'other_key:%s:%s' % (name, form), Q,
                         (lambda f=form, raw=raw: _pub_arg(f, raw=raw))))
    for kind, Q, pubf in keys:
        cache = {}
        D.nt.append(kind)
        kk = kind.split(':')[0] + ':' + kind.split(':')[1]
        _judge_ints(D, zb, Q, r, s, kk, pubf, cache, {'key': kind})
        _judge_bytes(D, zb, Q, _b32(r) + _b32(s), kk, pubf, cache, {'key': kind})
        _judge_bytes(D, zb, Q, secp.der_encode(r, s) + b'\x01', kk, pubf, cache, {'key': kind})
    # invalid-curve forgeries: for an off-curve "key" Q, digest 0 and (r, s) = (x(u*Q), r/u) satisfy the
    # verification equation formally (the addition formulas never use the curve constant b); textbook ECDSA
    # rejects them because Q is not a public key at all
    z0 = bytes(32)
    for name, raw in bad:
        if secp.decode_pub(raw) is not None:
            continue
        pts = []
        if len(raw) == 65 and raw[0] == 4:
            pts.append(('given', (int.from_bytes(raw[1:33], 'big'), int.from_bytes(raw[33:], 'big'))))
        elif len(raw) == 33:
            xq = int.from_bytes(raw[1:], 'big')
            # y as a square-root routine without a residue test would produce it
            yq = pow((pow(xq, 3, secp.P) + 7) % secp.P, (secp.P + 1) // 4, secp.P)
            for yy in (yq, secp.P - yq):
                if (yy & 1) == (raw[0] & 1):
                    pts.append(('sqrt_garbage', (xq, yy)))
        for tag, Qx in pts:
            if not (0 <= Qx[0] < secp.P and 0 <= Qx[1] < secp.P) or Qx[1] == 0:
                continue
            for u in (1, 2, 3):
                R = secp._to_affine(secp._jmul(u, Qx))
                if R is None or R[0] % N == 0:
                    continue
                fr = R[0] % N
                fs = fr * pow(u, -1, N) % N
                for form in ('raw_bytes', 'raw_key'):
                    cache = {}
                    kind = 'malformed_key:invalid_curve_forgery'
                    D.nt.append('forgery:%s:%s:%d:%s' % (name, tag, u, form))
                    pubf = (lambda f=form, raw=raw: _pub_arg(f, raw=raw))
                    _judge_ints(D, z0, None, fr, fs, kind, pubf, cache, {'key': name, 'u': u})
                    _judge_bytes(D, z0, None, _b32(fr) + _b32(fs), kind, pubf, cache, {'key': name, 'u': u})
                    _judge_bytes(D, z0, None, secp.der_encode(fr, fs) + b'\x01', kind, pubf, cache, {'key': name, 'u': u})
    r_ = D.result()
    r_['nt'] = ['%s|%s' % (_spec_key(case['base']), k) for k in D.nt]
    return r_


def sub_ver_dig(case):
    """case = {'base': spec, 'bits': [..]}: neighbouring digests (off by one, single-bit flips, z+-n twins)."""
    d, P, zb, r, s = _base(case['base'])
    zi = int.from_bytes(zb, 'big')
    D = _Devs()
    pubf = lambda: _pub_arg('key_c', P)
    cand = [('same', zi), ('z+1', zi + 1), ('z-1', zi - 1), ('z+n', zi + N), ('z-n', zi - N), ('z+2n', zi + 2 * N),
            ('zero', 0), ('ones', T256 - 1), ('reversed', int.from_bytes(zb[::-1], 'big')), ('n-z', (N - zi) % N)]
    cand += [('bit', zi ^ (1 << b)) for b in case['bits']]
    seen = set()
    for name, v in cand:
        if not 0 <= v < T256 or (name != 'same' and v in seen):
            continue
        seen.add(v)
        vb = _b32(v)
        # a z+-n twin is a different 32-byte digest that standard ECDSA accepts (arithmetic is mod n)
        kind = 'digest:' + name
        D.nt.append('%s:%x' % (name, v))
        cache = {}
        nb = 1 if name == 'bit' else 2
        for sv in ((s,) if name == 'bit' else (s, N - s)):
            _judge_ints(D, vb, P, r, sv, kind, pubf, cache, {}, _INT_ENTRIES[:1])
            _judge_bytes(D, vb, P, _b32(r) + _b32(sv), kind, pubf, cache, {}, _BYTE_ENTRIES[:nb])
            _judge_bytes(D, vb, P, secp.der_encode(r, sv) + b'\x01', kind, pubf, cache, {}, _BYTE_ENTRIES[:nb])
    r_ = D.result()
    r_['nt'] = ['%s|%s' % (_spec_key(case['base']), k) for k in D.nt]
    return r_


# ------------------------------------------------------------------------- verify-call histories (state reuse)
def sub_reuse(case):
    """Histories of verify calls on ONE Signature object. The verdict of every call must be the reference
    verdict for the digest and key given to THAT call: nothing remembered from an earlier call (or from
    signing) may leak into a later one.  case = {d, z, origin, hist: [[digest idx, key idx, call form], ...]}"""
    from bitcoinlib.keys import Signature, Key, sign, verify
    d = int(case['d'], 16)
    z0 = int(case['z'], 16)
    d2 = (d * 7 + 11) % (N - 1) + 1
    zs = [z0, z0 ^ 1, int.from_bytes(hashlib.sha256(b'reuse' + case['z'].encode()).digest(), 'big')]
    # key 2 is the NEGATED signer key: same x, the other y (its compressed form differs in the prefix byte only)
    P = [secp.pub(d), secp.pub(d2), secp.pub(N - d)]
    libP = [Key(secp.ser(P[0]).hex()), Key(secp.ser(P[1]).hex()), Key(secp.ser(P[2]).hex())]
    k = secp.rfc6979_k(d, _b32(z0))
    r, s_ = secp.ecdsa_sign_raw(d, z0, k)
    if s_ > N // 2:
        s_ = N - s_
    origin = case['origin']
    devs = []
    try:
        if origin == 'sign':
            sg = sign(_b32(z0), Key(_h(d)))
            r, s_ = sg.r, sg.s
        elif origin == 'parse_der':
            sg = Signature.parse_bytes(secp.der_encode(r, s_) + b'\x01')
        elif origin == 'parse_raw':
            sg = Signature.parse_bytes(_b32(r) + _b32(s_))
        else:
            sg = Signature(r, s_)
    except Exception as e:
        return {'devs': [{'sig': 'reuse|construction_raises|%s' % origin, 'detail': {'exc': repr(e)[:200]}}]}
    outs = {}
    for step, (zi, ki, form) in enumerate(case['hist']):
        exp = secp.ecdsa_verify(zs[zi], r, s_, P[ki])
        try:
            if form == 'method':
                got = bool(sg.verify(_b32(zs[zi]), libP[ki]))
            elif form == 'method_hex':
                got = bool(sg.verify(_h(zs[zi]), libP[ki]))
            else:
                got = bool(verify(_b32(zs[zi]), sg, libP[ki]))
        except Exception:
            got = False
        lab = '%s:%s' % ('valid' if exp else 'invalid', 'accepted' if got else 'rejected')
        outs[lab] = outs.get(lab, 0) + 1
        if got != exp:
            devs.append({'sig': 'reuse|%s|origin=%s|step=%s' % ('accepts_invalid' if got else 'rejects_valid', origin,
                                                                 'first' if step == 0 else 'later'),
                         'detail': {'d': case['d'], 'z': case['z'], 'hist': case['hist'], 'step': step,
                                    'digest_index': zi, 'key_index': ki, 'form': form}})
            break
    return {'devs': devs, 'n': len(case['hist']), 'out': outs}


SUBS = {'reuse': sub_reuse, 'sign_opts': sub_sign_opts, 'sign_hist': sub_sign_hist, 'sign': sub_sign, 'sign_ht': sub_sign_ht, 'sign_k': sub_sign_k, 'sign_rng': sub_sign_rng,
        'sign_starget': sub_sign_starget, 'nonce_pair': sub_nonce_pair, 'ver_rs': sub_ver_rs, 'ver_der': sub_ver_der,
        'ver_key': sub_ver_key, 'ver_dig': sub_ver_dig}


# ------------------------------------------------------------------------------------------------- run
def _h(v):
    return '%064x' % v


def _seedint(seed, tag, mod):
    return int.from_bytes(hashlib.sha256(('C13/%d/%s' % (seed, tag)).encode()).digest(), 'big') % mod


def _uniq(vals):
    out = []
    for v in vals:
        if v not in out:
            out.append(v)
    return out


def _chunks(lo, hi, step):
    return [[a, min(a + step, hi)] for a in range(lo, hi, step)]


def run(ctx):
    q = ctx.quick
    seed = ctx.seed
    only = getattr(ctx, 'only', None)

    def want(name):
        return not only or name in only

    kw = 8 if q else 64
    zw = 16 if q else 128
    kbase = 1 + _seedint(seed, 'key', N - 1 - kw)
    zbase = _seedint(seed, 'digest', T256 - zw)
    keys = _uniq([1, 2, 3, N - 1, N - 2, N - 3, T255, T255 - 1, 1 << 128, (1 << 64) + 1, (1 << 248) - 1, HALF, HALF + 1,
                  0xf8b8af8ce3c7cca5e300d33939540c10d45ce001b8f252bfbc57ba0342904181] +
                 list(range(kbase, kbase + kw)))
    digests = _uniq([0, 1, 2, T256 - 1, T256 - 2, N, N - 1, N + 1, N - 2, N + 2, T255, T255 - 1, T255 + 1, HALF, HALF + 1,
                     T256 - N, T256 - N - 1, (1 << 248) - 1, 1 << 128, 1 << 8,
                     int.from_bytes(hashlib.sha256(b'Satoshi Nakamoto').digest(), 'big')] +
                    # digests whose 32 BYTES read as text (hex digits in both cases, decimal digits, blanks, base58
                    # letters): a lenient conversion helper applied to the bytes form would reinterpret them
                    [int.from_bytes(t, 'big') for t in (b'0123456789abcdef0123456789abcdef', b'0123456789ABCDEF0123456789ABCDEF',
                                                        b'31415926535897932384626433832795', b' 0123456789abcdef0123456789abcd ',
                                                        b'5HueCGU8rMjxEXxiPuD5BDku4MkFqeZy')] +
                    list(range(zbase, zbase + zw)))
    if not q:
        keys += _uniq([(1 << i) for i in range(0, 256, 8)] + [(1 << i) - 1 for i in range(8, 257, 8) if (1 << i) - 1 < N])
        keys = _uniq(keys)
        digests = _uniq(digests + [(1 << i) for i in range(0, 256, 8)] + [T256 - (1 << i) for i in range(0, 256, 8)])

    # ---- signer: default mode, all (key, digest) pairs; then the nonce-sharing analysis over the whole product
    if want('sign'):
        zs = [_h(z) for z in digests]
        cases = [{'d': _h(d), 'zs': zs[i:i + 8]} for d in keys for i in range(0, len(zs), 8)]
        rets = ctx.pmap('sign', cases, chunk=1)
        seen = {}
        shared = []
        npairs = 0
        for ret in rets:
            for dh, zmod, rh, zh in ret or ():
                npairs += 1
                if rh in seen and seen[rh][:2] != (dh, zmod):
                    shared.append([[seen[rh][0], seen[rh][2]], [dh, zh]])
                seen.setdefault(rh, (dh, zmod, zh))
        ctx.note('nonce_sharing', {'pairs_compared': npairs, 'distinct_r': len(seen), 'shared': len(shared)})
        if shared:
            ctx.pmap('nonce_pair', shared[:50])
    # ---- hash-type byte
    if want('sign_ht'):
        pairs = [(1, 1), (N - 1, T256 - 1), (keys[-1], digests[-1]), (T255, N)] + ([] if q else [(3, 0), (HALF, HALF)])
        cases = [{'d': _h(d), 'z': _h(z), 'hts': list(range(a, a + 32))} for d, z in pairs for a in range(0, 256, 32)]
        ctx.pmap('sign_ht', cases, chunk=1)
    # ---- explicit nonces
    nw = 8 if q else 64
    nbase = 1 + _seedint(seed, 'nonce', N - 1 - nw)
    ks = _uniq([1, 2, 3, N - 1, N - 2, KHALF, HALF, T255, (1 << 128) + 1] + list(range(nbase, nbase + nw)))
    kkeys = _uniq([1, 2, N - 1, T255, (1 << 64) + 1, keys[-1]] + ([] if q else [N - 2, HALF, 3, keys[-2]]))
    kdig = [_h(z) for z in _uniq([0, 1, T256 - 1, N, N - 1, N + 1, T255, digests[-1]] +
                                 ([] if q else [2, HALF, T256 - N, digests[-2]]))]
    if want('sign_k'):
        ctx.pmap('sign_k', [{'d': _h(d), 'zs': kdig, 'k': _h(k)} for k in ks for d in kkeys], chunk=1)
    if want('sign_rng'):
        ctx.pmap('sign_rng', [{'d': _h(d), 'zs': kdig[:4], 'k': _h(k)} for k in ks for d in kkeys[:3]], chunk=1)
    # ---- the signer's options together: entry x use_rfc6979 x k x hash_type x spellings; then call histories
    okeys = _uniq([N - 1, keys[-1]] + ([] if q else [1, T255]))
    odig = [_h(z) for z in _uniq([0, digests[-1]] + ([] if q else [T256 - 1, N]))]
    oks = ['%x' % k for k in _uniq([1, KHALF, nbase] + ([] if q else [N - 1, T255, nbase + 1]))]
    okrs = ['%x' % k for k in (T255 + 1, nbase + nw + 5)]
    ohts = [0, 0x83] + ([] if q else [1, 2, 0xff])
    if want('sign_opts'):
        ctx.pmap('sign_opts', [{'d': _h(d), 'z': z, 'kform': kf, 'entries': [e], 'ks': oks, 'krs': okrs, 'hts': ohts}
                               for d in okeys for z in odig for kf in ('key', 'hdkey', 'hex') for e in _OPT_ENTRIES],
                 chunk=1)
    HL = 2 if q else 3
    hkeys = okeys[:2] if q else okeys[:4]
    hev = _hist_events(2, 2)
    if want('sign_hist'):
        ctx.pmap('sign_hist', [{'d': _h(d), 'zs': [odig[-1], odig[0]], 'ks': oks[1:3], 'kform': kf, 'first': e, 'L': HL,
                                'krs': ['%x' % (T255 + 1 + i) for i in range(HL)]}
                               for d in hkeys for kf in ('key', 'hdkey') for e in range(len(hev))], chunk=1)
    # ---- constructed s targets: windows around every boundary of the low-S rule
    W = 512 if q else 8192
    sw = _seedint(seed, 'swin', N - 2 * W)
    if want('sign_starget'):
        dk = [(0x1234567, KHALF), (1, 1), (N - 1, N - 1), (T255, 3), (keys[-1], nbase)]
        if not q:
            dk += [(2, N - 2), ((1 << 64) + 1, HALF), (HALF, T255)]
        wins = [(1, 1 + W), (HALF - W, HALF + W + 1), (T255 - W, T255 + W + 1), (N - W, N), (sw, sw + W)]
        cases = []
        for d, k in dk:
            for lo, hi in wins:
                for a, b in _chunks(lo, hi, 256):
                    cases.append({'d': _h(d), 'k': _h(k), 'lo': '%x' % a, 'hi': '%x' % b})
        ctx.pmap('sign_starget', cases, chunk=1)
    # ---- verifier: base triples from the reference signer
    fill_d = keys[-1]
    fill_z = _h(digests[-1])
    bases = [
        {'d': _h(1), 'z': _h(1), 'low': 1},
        {'d': _h(N - 1), 'z': _h(T256 - 1), 'low': 1},
        {'d': _h(T255), 'z': _h(N), 'high': 1},
        {'d': _h((1 << 128) + 5), 'z': _h(0), 'low': 1},
        {'d': _h(fill_d), 'z': fill_z, 'low': 1},
        {'d': _h(fill_d), 'z': fill_z, 'high': 1},
        {'d': _h(0x1234567), 'k': _h(KHALF), 's': _h(1)},                # DER||ht is 29 bytes
        {'d': _h(0x1234567), 'k': _h(KHALF), 's': _h(HALF)},             # 60 bytes
        {'d': _h(0x1234567), 'k': _h(KHALF), 's': _h(T255)},             # 61 bytes, high S
        {'d': _h(3), 'k': _h(3), 's': _h((1 << 190) + 12345)},           # around 64 bytes in total
        {'d': _h(3), 'k': _h(3), 's': _h((1 << 199) + 1)},
        {'d': _h(3), 'k': _h(3), 's': _h((1 << 183) + 1)},
        {'d': _h(5), 'k': _h(7), 's': _h(HALF + 1)},
        {'forge': ['7', '0', '5']},                                      # valid triple with digest 0
        {'forge': ['%x' % fill_d, '%x' % (nbase + 3), '%x' % (N - 2)]},
    ]
    if not q:
        bases += [{'d': _h(d), 'z': _h(z), 'low': 1} for d, z in ((2, N + 1), (N - 2, T255), (HALF, HALF), (3, T256 - N))]
        bases += [{'d': _h(9), 'k': _h(KHALF), 's': _h(1 << (8 * i))} for i in range(1, 31, 3)]
    if want('reuse'):
        import itertools
        evs = [[zi, ki, f] for zi in (0, 1, 2) for ki in (0, 1) for f in ('method', 'function')] + \
            [[0, 2, 'method'], [0, 2, 'function']]
        L = 2 if q else 3
        hists = [list(h) for l in range(1, L + 1) for h in itertools.product(evs, repeat=l)]
        rcases = []
        for origin in ('sign', 'parse_der', 'parse_raw', 'ints'):
            for d, z in ((keys[-1], digests[-1]), (1, 1)) + (() if q else ((N - 1, T256 - 1),)):
                for h in hists:
                    rcases.append({'d': _h(d), 'z': _h(z), 'origin': origin, 'hist': h})
        ctx.pmap('reuse', rcases)
    if want('ver_rs'):
        ctx.pmap('ver_rs', [{'base': b, 'wide': not q} for b in bases], chunk=1)
    if want('ver_der'):
        cases = [{'base': b} for b in bases]
        for b in bases[:2] + bases[6:7]:
            for a in range(0, 256, 64):
                cases.append({'base': b, 'hts': list(range(a, a + 64))})
        ctx.pmap('ver_der', cases, chunk=1)
    if want('ver_key'):
        ctx.pmap('ver_key', [{'base': b} for b in bases], chunk=1)
    if want('ver_dig'):
        cases = []
        edge_bits = [0, 1, 7, 8, 63, 64, 127, 128, 191, 192, 247, 248, 254, 255]
        for i, b in enumerate(bases):
            if not q or i in (0, 2, 6, 13):
                for a in range(0, 256, 32):
                    cases.append({'base': b, 'bits': list(range(a, a + 32))})
            else:
                cases.append({'base': b, 'bits': edge_bits})
        ctx.pmap('ver_dig', cases, chunk=1)
    ctx.note('bounds', {
        'keys': len(keys), 'digests': len(digests), 'key_window': [hex(kbase), kw], 'digest_window': [hex(zbase), zw],
        'explicit_nonces': len(ks), 's_target_window_halfwidth': W, 's_target_windows':
            '[1,1+W) [n//2-W,n//2+W] [2^255-W,2^255+W] [n-W,n) + one seed window, for %d (d,k) pairs' % (5 if q else 8),
        'signer_options': {'entries': list(_OPT_ENTRIES), 'use_rfc6979': list(_RFC_SPELLINGS), 'k': ['omitted', 'None'] + oks,
                           'hash_type': ['omitted'] + ohts, 'digest_forms': 2, 'key_forms': 3, 'keys': len(okeys),
                           'digests': len(odig), 'SystemRandom_answers': okrs},
        'signer_histories': {'events': len(hev), 'max_length': HL, 'keys': len(hkeys), 'key_forms': 2},
        'verifier_bases': len(bases), 'der_variants': len(_der_variants(N - 1, N - 1)), 'hash_types': 256})
