"""C09 Wallet keys follow BIP44/49/84/48 paths and restore deterministically.

E2: breadth-first search over key-issuing histories on real wallets created from a seed, a
mnemonic, an extended private key, or watch-only from the account public key, for several
networks and witness types. In every state every key row of the wallet is compared with the
reference BIP32 derivation for its (purpose, coin, account, change, index).
"""
import os
import shutil

from vf import env, wharness as wh
from vf.ref import bip32, bip39, nets, secp, codec

ID = 'C09'
LEVEL = 'model_checking'
RULE = ('BFS over histories of key-issuing events (new_key, new_key_change, get_key, get_key_change, get_keys(2), '
        'new_keys(3), explicit key_for_path with a gap, new_account, new_key of another witness type, mark-used, '
        'reopen) per configuration (origin: seed / mnemonic / xprv / watch-only account xpub; network; witness type; '
        'multisig); each history is replayed on a fresh copy of a template database; states are deduplicated on the set '
        'of (witness type, account, change, index, used) rows; invariants are evaluated on every key row of every state')
ASSUMPTIONS = ['reference BIP32/BIP39 and the golden network table decide paths, key material and addresses',
               'get_key() may return an existing unused key (documented); only newly created keys are required to '
               'take the next free index of their chain',
               'an explicit key_for_path([change, index]) may create a gap by request; afterwards issuing continues '
               'at max+1',
               'watch-only wallets name paths relative to the account key; they are compared by (change, index)']

H = bip32.HARD
PURPOSE = {'legacy': 44, 'p2sh-segwit': 49, 'segwit': 84}
_TPL = {}


def selftest():
    secp.selftest()
    bip32.selftest()
    bip39.selftest()
    nets.selftest()


# ------------------------------------------------------------------------- reference
def _entropy(seed):
    return wh.seed_bytes(seed)[:16]


def ref_master(cfg, cosigner=0):
    seed = cfg['seed']
    if cfg['origin'] == 'mnemonic' or cfg.get('multisig'):
        words = ' '.join(bip39.to_words(wh.seed_bytes(seed, cosigner)[:16]))
        return bip32.master(bip39.seed(words, ''))
    return bip32.master(wh.seed_bytes(seed))


def ref_path(cfg, wt, account, change, index, cosigner_id=0):
    coin = nets.NETS[cfg['network']]['bip44_cointype']
    if cfg.get('multisig'):
        if wt == 'legacy':
            return [45 + H, cosigner_id, change, index], "m/45'/%d/%d/%d" % (cosigner_id, change, index)
        st = 2 if wt == 'segwit' else 1
        return ([48 + H, coin + H, account + H, st + H, change, index],
                "m/48'/%d'/%d'/%d'/%d/%d" % (coin, account, st, change, index))
    if cfg.get('key_path') == 'core':
        # the bundled alternative key structure m/account'/change'/address_index' (every level hardened)
        return [account + H, change + H, index + H], "m/%d'/%d'/%d'" % (account, change, index)
    p = PURPOSE[wt]
    return [p + H, coin + H, account + H, change, index], "m/%d'/%d'/%d'/%d/%d" % (p, coin, account, change, index)


def ref_key_address(cfg, wt, account, change, index, cosigner_id=0):
    """(path string, [XKey per cosigner], address)"""
    net = cfg['network']
    path, pstr = ref_path(cfg, wt, account, change, index, cosigner_id)
    if cfg.get('multisig'):
        m, n = cfg['multisig']
        ks = [bip32.derive(ref_master(cfg, j), path) for j in range(n)]
        a, _, _ = wh.ref_address_multisig([k.pub for k in ks], m, wt, net)
        return pstr, ks, a
    k = bip32.derive(ref_master(cfg), path)
    a, _ = wh.ref_address_single(k.pub, wt, net)
    return pstr, [k], a


# ------------------------------------------------------------------------- wallet creation
def _create(cfg):
    from bitcoinlib.wallets import Wallet
    from bitcoinlib.keys import HDKey
    net, wt, seed = cfg['network'], cfg['wt'], cfg['seed']
    path = env.fresh_db_path('c09tpl')
    kw = dict(network=net, witness_type=wt, db_uri=path, db_cache_uri=wh.cache_db())
    if cfg.get('multisig'):
        m, n = cfg['multisig']
        words = [' '.join(bip39.to_words(wh.seed_bytes(seed, j)[:16])) for j in range(n)]
        ks = [HDKey.from_passphrase(ws, network=net) for ws in words]
        if cfg['origin'] == 'cosigner_pub':
            # this wallet holds cosigner 0 privately and the others as account-level public keys
            w0 = None
            pubs = []
            for j in range(1, n):
                p, _ = ref_path(cfg, wt, 0, 0, 0)
                acc_path = p[:-2] if wt != 'legacy' else p[:1]
                xk = bip32.derive(ref_master(cfg, j), acc_path)
                ver = nets.hd_prefix(net, False, wt, True)
                pubs.append(xk.ser(ver, False))
            w = Wallet.create('w', keys=[ks[0]] + pubs, sigs_required=m, **kw)
        else:
            w = Wallet.create('w', keys=ks, sigs_required=m, cosigner_id=0, **kw)
    elif cfg['origin'] == 'seed':
        if cfg.get('account'):
            kw['account_id'] = cfg['account']
        if cfg.get('key_path') == 'core':
            from bitcoinlib.config.config import KEY_PATH_BITCOINCORE
            kw['key_path'] = KEY_PATH_BITCOINCORE
        w = Wallet.create('w', keys=HDKey.from_seed(wh.seed_bytes(seed).hex(), network=net, witness_type=wt), **kw)
    elif cfg['origin'] == 'mnemonic':
        w = Wallet.create('w', keys=' '.join(bip39.to_words(_entropy(seed))), **kw)
    elif cfg['origin'] == 'xprv':
        m = ref_master(cfg)
        w = Wallet.create('w', keys=m.ser(nets.hd_prefix(net, True, wt, False), True), **kw)
    elif cfg['origin'] == 'watch':
        p, _ = ref_path(cfg, wt, 0, 0, 0)
        acc = bip32.derive(ref_master(cfg), p[:3])
        w = Wallet.create('w', keys=acc.ser(nets.hd_prefix(net, False, wt, False), False), **kw)
    elif cfg['origin'] == 'acc_xprv':
        # restored from the PRIVATE account key m/purpose'/coin'/0' (not the master): can sign, cannot leave the account
        p, _ = ref_path(cfg, wt, 0, 0, 0)
        acc = bip32.derive(ref_master(cfg), p[:3])
        w = Wallet.create('w', keys=acc.ser(nets.hd_prefix(net, True, wt, False), True), **kw)
    else:
        raise ValueError(cfg['origin'])
    wh.close(w, None, remove=False)
    return path


def _open(cfg):
    from bitcoinlib.wallets import Wallet
    key = (repr(sorted(cfg_items(cfg))), os.getpid())
    if key not in _TPL:
        _TPL[key] = _create(cfg)
    dst = env.fresh_db_path('c09case')
    shutil.copyfile(_TPL[key], dst)
    return Wallet('w', db_uri=dst, db_cache_uri=wh.cache_db()), dst


def cfg_items(cfg):
    return [(k, repr(v)) for k, v in cfg.items() if k != 'events']


# ------------------------------------------------------------------------- events
def _other_wt(wt):
    return {'segwit': 'legacy', 'legacy': 'segwit', 'p2sh-segwit': 'segwit'}[wt]


def _do(w, ev, cfg):
    """Execute one event. Returns (wallet, label, explicit) - explicit = set of (wt, acc, change, index) requested."""
    from bitcoinlib.wallets import WalletError
    kind = ev[0]
    explicit = set()
    try:
        if kind == 'new_key':
            w.new_key()
        elif kind == 'new_key_change':
            w.new_key_change()
        elif kind == 'get_key':
            w.get_key()
        elif kind == 'get_key_change':
            w.get_key_change()
        elif kind == 'get_keys2':
            w.get_keys(number_of_keys=2)
        elif kind == 'new_keys3':
            w.new_keys(number_of_keys=3)
        elif kind == 'path_gap':
            _, ch, idx = ev
            arg = [ch, idx]
            k1 = w.key_for_path(arg)
            if arg != [ch, idx]:
                raise _ArgMutated('key_for_path changed the path list it was given: %r -> %r' % ([ch, idx], arg))
            # the same request again (the same list object, as a caller keeping a table of paths would): same key
            k2 = w.key_for_path(arg)
            if k2.path != k1.path or k2.address != k1.address:
                raise _ArgMutated('the same path list gives %s then %s' % (k1.path, k2.path))
            explicit.add((w.witness_type, w.default_account_id, ch, idx))
        elif kind == 'path_bulk':
            # several keys from an explicit path in one call
            _, ch, idx, cnt = ev
            arg = [ch, idx]
            w.keys_for_path(arg, number_of_keys=cnt)
            if arg != [ch, idx]:
                raise _ArgMutated('keys_for_path changed the path list it was given: %r -> %r' % ([ch, idx], arg))
            for j in range(cnt):
                explicit.add((w.witness_type, w.default_account_id, ch, idx + j))
        elif kind == 'import_foreign':
            # a key that does not belong to the wallet's tree (a leaf of another seed, child number 7): it is kept
            # beside the tree and must not consume indices of the wallet's own chains
            from bitcoinlib.keys import HDKey
            other = bip32.derive(bip32.master(b'\x5a' * 32), [7])
            hk = HDKey(key=other.secret.to_bytes(32, 'big'), chain=other.chain, depth=1, child_index=7,
                       parent_fingerprint=other.parent_fp, network=cfg['network'], witness_type=cfg['wt'])
            w.import_key(hk)
        elif kind == 'new_account_otherwt':
            # an account of ANOTHER witness type: numbered within that type's own tree (m/44', m/49', m/84' ...)
            owt = _other_wt(cfg['wt'])
            purpose = PURPOSE[owt]
            have = sorted(int(k.path.split('/')[3].rstrip("'")) for k in w.keys(depth=3)
                          if k.path.split('/')[1] == "%d'" % purpose)
            acc = w.new_account(witness_type=owt)
            got = acc.path.split('/')
            want = (max(have) + 1) if have else 0
            if got[1] != "%d'" % purpose or int(got[3].rstrip("'")) != want:
                raise _WrongAccount('new_account(witness_type=%s) created %s, the next free account of that type is %d'
                                    % (owt, acc.path, want))
        elif kind == 'new_account':
            w.new_account()
        elif kind == 'new_key_acc1':
            w.new_key(account_id=1)
        elif kind in ('new_key_acc', 'new_key_change_acc', 'get_key_acc', 'get_keys_acc', 'path_acc'):
            a = ev[1]
            if kind == 'new_key_acc':
                ks = [w.new_key(account_id=a)]
            elif kind == 'new_key_change_acc':
                ks = [w.new_key_change(account_id=a)]
            elif kind == 'get_key_acc':
                ks = [w.get_key(account_id=a)]
            elif kind == 'get_keys_acc':
                ks = w.get_keys(account_id=a, number_of_keys=2)
            else:
                ks = [w.key_for_path([ev[2], ev[3]], account_id=a)]
                explicit.add((w.witness_type, a, ev[2], ev[3]))
            for k in ks:
                if k.account_id != a or (("/%d'/" % a) not in k.path and not (
                        cfg['origin'] in ('watch', 'acc_xprv') and a == 0)):
                    raise _WrongAccount('%s returned a key of account %s (path %s) for requested account %d' % (
                        kind, k.account_id, k.path, a))
        elif kind == 'path_full':
            # the complete path as text, naming an account (which need not be the default one, nor exist yet), and no
            # account_id argument: the key belongs to the account its path names
            _, a, ch, idx = ev
            _, pstr = ref_path(cfg, w.witness_type, a, ch, idx)
            k = w.key_for_path(pstr)
            explicit.add((w.witness_type, a, ch, idx))
            if k.account_id != a or k.path != pstr:
                raise _WrongAccount('key_for_path(%r) returned the key %s recorded under account %s' % (
                    pstr, k.path, k.account_id))
        elif kind == 'new_key_otherwt':
            w.new_key(witness_type=_other_wt(cfg['wt']))
        elif kind == 'get_keys_otherwt':
            w.get_keys(witness_type=_other_wt(cfg['wt']), number_of_keys=2)
        elif kind == 'public_master':
            # a query: exporting the account public key must leave the wallet's own (cached) keys as they were
            w.public_master()
        elif kind == 'mark_used':
            ks = w.keys(depth=w.key_depth, change=0, used=False)
            if ks:
                w.utxo_add(ks[0].address, 12345, codec.sha256(ks[0].address.encode()).hex(), 0)
        elif kind == 'reopen':
            p = w.db_uri
            wh.close(w, None, remove=False)
            w = wh.reopen(p)
        else:
            raise ValueError(kind)
    except WalletError:
        return w, 'refused', explicit
    except _WrongAccount as e:
        return w, 'wrong_account:' + str(e), explicit
    except _ArgMutated as e:
        return w, 'arg_mutated:' + str(e), explicit
    return w, 'ok', explicit


class _WrongAccount(Exception):
    pass


class _ArgMutated(Exception):
    pass


def _rows(w):
    """Key rows at address depth: dict (wt, account, change, index, cosigner) -> (id, path, address, used)."""
    out = {}
    dup = []
    for k in w.keys(depth=w.key_depth):
        if str(k.path).startswith('import_key'):
            continue        # imported foreign keys are not part of the derivation tree
        key = (k.witness_type, k.account_id, k.change, k.address_index, k.cosigner_id)
        if key in out:
            dup.append(key)
        out[key] = (k.id, k.path, k.address, bool(k.used))
    return out, dup


def sub_hist(case):
    cfg, hist = case['cfg'], case['hist']
    w, path = _open(cfg)
    devs = []
    net = cfg['network']
    tag = hist[-1][0] if hist else 'init'
    try:
        rows, dup = _rows(w)
        explicit_all = set()
        label = 'init'
        for ev in hist:
            before = set(rows)
            try:
                w, label, explicit = _do(w, ev, cfg)
            except Exception as e:
                # neither an answer nor a refusal (WalletError): the wallet breaks on this request
                devs.append({'sig': 'event_raises_unexpected_exception|%s|%s' % (ev[0], type(e).__name__),
                             'detail': {'exc': repr(e)[:300], 'hist': hist,
                                        'cfg': {k: v for k, v in cfg.items() if k != 'events'}}})
                return {'devs': devs, 'ret': {'state': ['broken', tag, len(hist)], 'enabled': []}, 'out': 'raises'}
            explicit_all |= explicit
            if label.startswith('arg_mutated:'):
                devs.append({'sig': 'argument_of_the_caller_changed_or_same_request_answered_differently|%s' % ev[0],
                             'detail': {'what': label[12:]}})
                label = 'ok'
            if label.startswith('wrong_account:'):
                devs.append({'sig': 'key_of_another_account_returned|%s' % ev[0], 'detail': {'what': label[14:]}})
                label = 'ok'
            rows, dup = _rows(w)
            new = set(rows) - before
            gone = before - set(rows)
            if gone:
                devs.append({'sig': 'keys_disappeared|after_%s' % ev[0], 'detail': {'gone': sorted(map(str, gone))}})
            # index bookkeeping: new keys of a chain take exactly the next free indices (explicit requests aside)
            chains = {}
            for r in new:
                chains.setdefault((r[0], r[1], r[2], r[4]), []).append(r[3])
            for ch, idxs in chains.items():
                wt_, acc, chg, cos = ch
                req = sorted(i for (a, b, c, i) in explicit if (a, b, c) == (wt_, acc, chg))
                idxs = sorted(i for i in idxs if i not in req)
                prev = [r[3] for r in before if (r[0], r[1], r[2], r[4]) == ch]
                start = max(prev) + 1 if prev else 0
                if idxs and idxs != list(range(start, start + len(idxs))):
                    devs.append({'sig': 'index_gap_or_repeat|%s' % ev[0],
                                 'detail': {'chain': str(ch), 'existing': sorted(prev), 'new': idxs}})
        if dup:
            devs.append({'sig': 'duplicate_index_rows|after_%s' % tag, 'detail': {'dup': sorted(map(str, dup))}})
        # ---- every key row against the reference
        addrs = {}
        n_checked = 0
        for key, (kid, kpath, kaddr, used) in sorted(rows.items(), key=lambda x: str(x)):
            wt_, acc, chg, idx, cos = key
            if cfg.get('multisig'):
                cos_id = cos if cos is not None else 0
            else:
                cos_id = 0
            if not (isinstance(idx, int) and 0 <= idx < H and isinstance(chg, int) and 0 <= chg < H and
                    isinstance(acc, int) and 0 <= acc < H):
                devs.append({'sig': 'row_index_fields_out_of_range|%s' % _cls(cfg, wt_),
                             'detail': {'row': str(key), 'path': kpath}})
                continue
            try:
                pstr, rks, raddr_ = ref_key_address(cfg, wt_, acc, chg, idx, cos_id)
            except KeyError:
                devs.append({'sig': 'unknown_witness_type_row', 'detail': {'row': str(key)}})
                continue
            n_checked += 1
            if cfg['origin'] in ('watch', 'acc_xprv'):
                exp_path = 'M/%d/%d' % (chg, idx)
            elif cfg['origin'] == 'cosigner_pub' or cfg.get('multisig'):
                exp_path = pstr
            else:
                exp_path = pstr
            if kpath != exp_path:
                devs.append({'sig': 'path_differs_from_template|%s|%s' % (cfg['origin'], _cls(cfg, wt_)),
                             'detail': {'row': str(key), 'path': kpath, 'expected': exp_path}})
            if kaddr != raddr_:
                devs.append({'sig': 'address_differs_from_reference|%s|%s' % (cfg['origin'], _cls(cfg, wt_)),
                             'detail': {'row': str(key), 'address': kaddr, 'expected': raddr_, 'path': kpath}})
            if kaddr in addrs:
                devs.append({'sig': 'two_keys_share_an_address', 'detail': {'rows': [str(key), str(addrs[kaddr])]}})
            addrs[kaddr] = key
            # key material
            try:
                wk = w.key(kid)
                if cfg.get('multisig'):
                    pass    # multisig rows hold a script; cosigner key material is compared through the address
                else:
                    hk = wk.key()
                    if hk.public_hex != rks[0].pub.hex():
                        devs.append({'sig': 'public_key_differs_from_reference|%s' % cfg['origin'],
                                     'detail': {'row': str(key), 'pub': hk.public_hex}})
                    if cfg['origin'] != 'watch':
                        if not hk.is_private or hk.private_hex != '%064x' % rks[0].secret:
                            devs.append({'sig': 'private_key_differs_from_reference|%s' % cfg['origin'],
                                         'detail': {'row': str(key)}})
                        if hk.chain.hex() != rks[0].chain.hex() or hk.depth != rks[0].depth or \
                                hk.child_index != rks[0].child:
                            devs.append({'sig': 'bip32_metadata_differs|%s' % cfg['origin'],
                                         'detail': {'row': str(key), 'depth': hk.depth, 'child': hk.child_index}})
                    elif hk.is_private:
                        devs.append({'sig': 'watch_only_wallet_has_private_key', 'detail': {'row': str(key)}})
            except Exception as e:
                devs.append({'sig': 'key_object_raises|%s' % type(e).__name__, 'detail': {'row': str(key), 'exc': repr(e)[:200]}})
        for d in devs:
            d['detail']['hist'] = hist
            d['detail']['cfg'] = {k: v for k, v in cfg.items() if k != 'events'}
        state = sorted((str(k), v[3]) for k, v in rows.items())
        # in-memory key objects the wallet derives further keys from: part of the state (a query that strips them
        # has different futures although the stored rows are the same)
        state.append(('cached_private', sorted((str(i), bool(getattr(ko, 'is_private', None)))
                                               for i, ko in getattr(w, '_key_objects', {}).items())))
        return {'devs': devs, 'ret': {'state': state, 'enabled': cfg['events']}, 'out': label, 'n': max(1, n_checked)}
    finally:
        wh.close(w, path)


def _cls(cfg, wt):
    return ('multisig_' if cfg.get('multisig') else '') + wt


SUBS = {'hist': sub_hist}

EV_FULL = [['new_key'], ['new_key_change'], ['get_key'], ['get_key_change'], ['get_keys2'], ['new_keys3'],
           ['path_gap', 0, 7], ['path_gap', 0, 3], ['path_gap', 1, 2], ['new_account'], ['new_key_acc1'], ['new_key_otherwt'],
           ['get_keys_otherwt'], ['path_bulk', 1, 0, 3], ['import_foreign'], ['new_account_otherwt'],
           ['mark_used'], ['public_master'], ['reopen']]
EV_SMALL = [['new_key'], ['new_key_change'], ['get_key'], ['get_keys2'], ['path_gap', 0, 5], ['path_gap', 0, 2],
            ['path_bulk', 1, 0, 3], ['import_foreign'],
            ['mark_used'], ['public_master'],
            ['new_account'], ['reopen']]
EV_WATCH = [['new_key'], ['new_key_change'], ['get_key'], ['get_keys2'], ['new_keys3'], ['path_gap', 0, 7],
            ['path_gap', 0, 4], ['new_key_acc', 1], ['new_key_otherwt'],
            ['mark_used'], ['reopen']]
EV_MS = [['new_key'], ['new_key_change'], ['get_key'], ['get_keys2'], ['mark_used'], ['reopen']]


def run(ctx):
    q = ctx.quick
    seed = ctx.seed % 1000
    cfgs = []

    def add(origin, network, wt, events, multisig=None, s=seed):
        c = {'origin': origin, 'network': network, 'wt': wt, 'seed': s, 'events': events}
        if multisig:
            c['multisig'] = multisig
        cfgs.append(c)
    add('seed', 'bitcoinlib_test', 'segwit', EV_FULL)
    ev_acc = [['new_key'], ['new_key_acc', 0], ['new_key_acc', 5], ['new_key_change_acc', 0], ['get_key_acc', 0],
              ['get_keys_acc', 0], ['path_acc', 0, 0, 4], ['path_full', 2, 0, 0], ['path_full', 0, 0, 2],
              ['new_key_acc', 2], ['get_key'], ['new_account'], ['mark_used'], ['reopen']]
    cfgs.append({'origin': 'seed', 'network': 'bitcoinlib_test', 'wt': 'segwit', 'seed': seed, 'events': ev_acc,
                 'account': 5})
    add('mnemonic', 'bitcoin', 'segwit', EV_SMALL)
    # a custom key structure whose address level is hardened (bundled KEY_PATH_BITCOINCORE)
    cfgs.append({'origin': 'seed', 'network': 'bitcoinlib_test', 'wt': 'segwit', 'seed': seed, 'key_path': 'core',
                 'events': [['new_key'], ['new_key_change'], ['get_key'], ['get_keys2'], ['new_keys3'], ['mark_used'], ['reopen'],
                            ['new_account']]})
    add('xprv', 'bitcoin', 'legacy', EV_SMALL)
    add('watch', 'bitcoin', 'segwit', EV_WATCH)
    # a private key below the master: requests that need the master (another witness type, another account) must
    # be refused, never answered with some other key
    add('acc_xprv', 'bitcoin', 'segwit', [['new_key'], ['new_key_change'], ['get_key'], ['get_keys2'], ['new_key_otherwt'],
                                          ['get_keys_otherwt'], ['new_key_acc', 1], ['get_key_acc', 0], ['new_account'],
                                          ['public_master'], ['mark_used'], ['reopen']])
    add('seed', 'litecoin', 'p2sh-segwit', EV_SMALL)
    # networks whose extended-key prefixes are shared by several witness types: bulk requests, reduced alphabet
    add('seed', 'litecoin', 'segwit', [['get_keys2'], ['new_keys3'], ['new_key_change'], ['get_key'], ['reopen']])
    add('seed', 'testnet', 'legacy', EV_SMALL)
    add('seed', 'dogecoin', 'legacy', EV_SMALL)
    add('cosigner_all', 'bitcoinlib_test', 'segwit', EV_MS, multisig=[2, 3])
    add('cosigner_all', 'bitcoin', 'legacy', EV_MS, multisig=[2, 2])
    if not q:
        add('seed', 'bitcoin', 'legacy', EV_FULL, s=seed + 1)
        add('xprv', 'testnet', 'segwit', EV_SMALL)
        add('xprv', 'litecoin', 'segwit', EV_SMALL)
        add('watch', 'testnet', 'p2sh-segwit', EV_WATCH)
        add('watch', 'litecoin', 'legacy', EV_WATCH)
        add('mnemonic', 'testnet4', 'p2sh-segwit', EV_SMALL)
        add('seed', 'signet', 'segwit', EV_SMALL)
        add('seed', 'regtest', 'segwit', EV_SMALL)
        add('seed', 'litecoin_testnet', 'segwit', EV_SMALL)
        add('seed', 'dogecoin_testnet', 'legacy', EV_SMALL)
        add('seed', 'litecoin_legacy', 'legacy', EV_SMALL)
        add('cosigner_all', 'bitcoin', 'p2sh-segwit', EV_MS, multisig=[2, 3])
        add('cosigner_all', 'litecoin', 'segwit', EV_MS, multisig=[2, 2])
    total = ctx.bfs_multi('hist', [(cfg, 3 if q else 4) for cfg in cfgs], max_states=5000 if q else 50000)
    ctx.note('bounds', {'configs': [[c['origin'], c['network'], c['wt'], c.get('multisig'), len(c['events'])]
                                    for c in cfgs], 'depth': 3 if q else 4, 'states': total})
