"""C08 Wallet ledger stays consistent over any history and survives reopening.

E2: breadth-first search over event histories on a real wallet (private copy of a template
database, network bitcoinlib_test). A boring reference ledger (dict outpoint -> value/spent) is
advanced in lock-step; invariants are evaluated in every reached state on the live object and on
a second Wallet object opened on the same database (differential oracle).
"""
import hashlib
import json

from vf import wharness as wh
from vf.ref import nets, secp, bip32

ID = 'C08'
LEVEL = 'model_checking'
RULE = ('BFS from the freshly created wallet; a state is reached by replaying its event history on a fresh copy of '
        'the template database; events: new_key, get_key, utxo_add (two value/key choices), utxos_update (bundled '
        'dummy provider), send to external / to own address with broadcast, send without broadcast, sweep with '
        'broadcast, import of a created-but-unsent transaction, delete of the last stored transaction, reopen; '
        'states are deduplicated on (reference ledger, stored transaction ids, number of keys, live balance caches); '
        'invariants are evaluated in every state on the live wallet and on a re-opened one')
ASSUMPTIONS = ['the provider is the bundled BitcoinLibTestClient (2 UTXOs of 1e8 per address); its answers are '
               'recorded at the seam and fed to the reference ledger',
               'utxos_update trusts the provider: outputs the provider does not report become spent (documented '
               'rescan behaviour), outputs it reports stay spent if a stored transaction consumes them',
               'transaction_delete documents that the wallet becomes incomplete: after deleting a sent '
               'transaction its inputs are modelled as unspent again and are exempt from the never-reselected rule',
               'an event the library refuses (WalletError/TransactionError) leaves the model unchanged']

EXT_AMOUNT = 3000


def selftest():
    secp.selftest()
    bip32.selftest()
    nets.selftest()


class Model:
    def __init__(self):
        self.out = {}            # (txid, n) -> dict(value, address, spent, conf)
        self.txs = []            # stored transactions: dict(txid, inputs[(txid,n)], outputs[(n, address, value)], raw, sent)
        self.sent_consumed = set()
        self.anomalies = []      # deviations seen while an event was applied (reported in the reached state)

    def unspent(self):
        return {k: v for k, v in self.out.items() if not v['spent']}

    def balance(self):
        return sum(v['value'] for v in self.unspent().values())

    def canon(self):
        return [sorted((k[0][:8], k[1], v['value'], v['spent'], v['conf']) for k, v in self.out.items()),
                sorted((t['txid'][:8], t['sent']) for t in self.txs)]


def _apply_tx(model, t, owned_addrs, sent):
    """Advance the ledger with a transaction the wallet stored (inputs consumed, own outputs created)."""
    ins = [(i.prev_txid.hex(), i.output_n_int) for i in t.inputs]
    if sent:
        un = model.unspent()
        bad = [op for op in ins if op not in un]
        if bad or len(set(ins)) != len(ins):
            model.anomalies.append({'sig': 'sent_transaction_spends_outpoint_that_is_not_an_unspent_output_of_the_wallet',
                                    'detail': {'inputs': ins, 'not_unspent': bad}})
    for op in ins:
        if op in model.out:
            model.out[op]['spent'] = True
        if sent:
            model.sent_consumed.add(op)
    outs = []
    for o in t.outputs:
        outs.append((o.output_n, o.address, int(o.value)))
        if o.address in owned_addrs:
            model.out[(t.txid, o.output_n)] = {'value': int(o.value), 'address': o.address, 'spent': False, 'conf': 0}
    model.txs.append({'txid': t.txid, 'inputs': ins, 'outputs': outs, 'raw': t.raw().hex(), 'sent': sent,
                      'in_values': [int(i.value) for i in t.inputs], 'in_detail': _in_detail(t)})


def _in_detail(t):
    """What an input of a transaction says beyond its outpoint and value: address, keys, redeem script, number of
    signatures - and whether the transaction verifies."""
    det = []
    for i in t.inputs:
        det.append({'address': i.address, 'keys': [k.public_hex for k in i.keys],
                    # (single-key inputs: the attribute holds the script code used while signing, it is not part of
                    # the input; for multisig inputs it is the redeem / witness script)
                    'redeemscript': bytes(i.redeemscript or b'').hex() if len(i.keys) > 1 else '',
                    # (a wallet holding more than m private keys signs with all of them, only m are serialized)
                    'signatures': min(len(i.signatures), i.sigs_required or 1)})
    try:
        ok = bool(t.verify())
    except Exception as e:
        ok = 'raise:' + type(e).__name__
    return {'inputs': det, 'verifies': ok}


def _addresses(w):
    return [k.address for k in w.keys(depth=w.key_depth)] if w.scheme != 'single' else [k.address for k in w.keys()]


def _do_event(w, ev, model, cfg, rec):
    """Execute one event on the live wallet and on the model. Returns (wallet, label)."""
    from bitcoinlib.wallets import WalletError
    from bitcoinlib.transactions import TransactionError
    kind = ev[0]
    seed = cfg['seed']
    try:
        if kind == 'new_key':
            w.new_key()
        elif kind == 'get_key':
            w.get_key()
        elif kind == 'utxo_add':
            _, which, value = ev
            keys = [k for k in w.keys(depth=w.key_depth, change=0)] if w.scheme != 'single' else w.keys()
            if not keys:
                keys = [w.get_key()]
            k = keys[0] if which == 'first' else keys[-1]
            model.n_added = getattr(model, 'n_added', 0) + 1
            txid = hashlib.sha256(b'c08|utxo|%d|%d' % (seed, model.n_added)).hexdigest()
            w.utxo_add(k.address, value, txid, 0, confirmations=5)
            model.out[(txid, 0)] = {'value': value, 'address': k.address, 'spent': False, 'conf': 5}
        elif kind == 'utxo_add_n':
            # ('utxo_add_n', which key, value, funding tx name, output index): several outputs of ONE funding tx
            _, which, value, name, n = ev
            keys = [k for k in w.keys(depth=w.key_depth, change=0)] if w.scheme != 'single' else w.keys()
            if not keys:
                keys = [w.get_key()]
            k = keys[0] if which == 'first' else keys[-1]
            txid = hashlib.sha256(b'c08|fund|%d|%s' % (seed, name.encode())).hexdigest()
            w.utxo_add(k.address, value, txid, n, confirmations=5)
            model.out[(txid, n)] = {'value': value, 'address': k.address, 'spent': False, 'conf': 5}
        elif kind == 'fund_account1':
            # a second account holding an output (its keys get ids between those of the first account's keys)
            if 1 not in w.accounts():
                w.new_account(account_id=1)
            k = w.get_key(account_id=1)
            model.n_added = getattr(model, 'n_added', 0) + 1
            txid = hashlib.sha256(b'c08|utxo|%d|%d' % (seed, model.n_added)).hexdigest()
            w.utxo_add(k.address, 20000, txid, 0, confirmations=5)
            model.out[(txid, 0)] = {'value': 20000, 'address': k.address, 'spent': False, 'conf': 5}
        elif kind == 'send_pick':
            # ('send_pick', [positions in the sorted list of unspent outpoints], 'tuple' | 'inputobj')
            _, idxs, form = ev
            un = sorted(model.unspent())
            if max(idxs) >= len(un):
                return w, 'noop'
            ops = [un[i] for i in idxs]
            total = sum(model.out[op]['value'] for op in ops)
            if form == 'tuple':
                arr = [(op[0], op[1]) for op in ops]
            else:
                objs = w.select_inputs(w.balance(), min_confirms=0)
                arr = [o for o in objs if (o.prev_txid.hex(), o.output_n_int) in ops]
                if len(arr) != len(ops):
                    return w, 'noop'
            owned = set(_addresses(w))
            t = w.send([(wh.external_address(8)[0], EXT_AMOUNT)], input_arr=arr, fee=1500, min_confirms=0, broadcast=True)
            owned |= set(_addresses(w))
            got = sorted((i.prev_txid.hex(), i.output_n_int) for i in t.inputs)
            if got != sorted(ops):
                model.anomalies.append({'sig': 'send_with_explicit_inputs_spends_other_outpoints|%s' % form,
                                        'detail': {'requested': sorted(ops), 'spent': got}})
            if t.pushed:
                _apply_tx(model, t, owned, sent=True)
            elif getattr(t, 'error', None):
                return w, 'not_pushed'
        elif kind in ('utxos_update', 'utxos_update_key'):
            rec.clear()
            if kind == 'utxos_update':
                w.utxos_update()
                # the rescan covers the default account: outputs of other accounts are not touched
                scanned = set(k.address for k in w.keys() if k.account_id == w.default_account_id or w.scheme == 'single')
            else:
                # the update of ONE key (documented: "key_id: Key ID to just update 1 key"): nothing else is touched
                keys = [k for k in w.keys(depth=w.key_depth, change=0)] if w.scheme != 'single' else w.keys()
                if not keys:
                    return w, 'noop'
                k = keys[0] if ev[1] == 'first' else keys[-1]
                w.utxos_update(key_id=k.id)
                scanned = set()       # a single-key update only adds what the provider reports (rescan_all is off for it)
            for v in model.out.values():
                if v['address'] in scanned:
                    v['spent'] = True
            consumed = set()
            for t in model.txs:
                consumed.update(t['inputs'])
            for u in rec:
                op = (u['txid'], u['output_n'])
                if op in model.out:
                    model.out[op]['spent'] = op in consumed
                    model.out[op]['conf'] = u['confirmations']
                else:
                    model.out[op] = {'value': u['value'], 'address': u['address'], 'spent': op in consumed,
                                     'conf': u['confirmations']}
        elif kind in ('send_ext', 'send_own', 'send_nobc', 'sweep', 'send_rbf'):
            owned = set(_addresses(w))
            if kind == 'send_ext':
                t = w.send_to(wh.external_address(3)[0], EXT_AMOUNT, fee=1500, min_confirms=0, broadcast=True)
            elif kind == 'send_own':
                t = w.send_to(w.get_key().address, 2 * EXT_AMOUNT, fee=1500, min_confirms=0, broadcast=True)
            elif kind == 'send_nobc':
                t = w.send_to(wh.external_address(4)[0], EXT_AMOUNT, fee=1500, min_confirms=0, broadcast=False)
            elif kind == 'send_rbf':
                t = w.send_to(wh.external_address(5)[0], EXT_AMOUNT, fee=1500, min_confirms=0, broadcast=True,
                              replace_by_fee=True)
            else:
                t = w.sweep(wh.external_address(6)[0], min_confirms=0, fee=2000, broadcast=True)
            owned |= set(_addresses(w))
            if t.pushed:
                _apply_tx(model, t, owned, sent=True)
                model.live = getattr(model, 'live', []) + [t]
            elif kind != 'send_nobc' and getattr(t, 'error', None):
                return w, 'not_pushed'
        elif kind == 'import_unsent':
            owned = set(_addresses(w))
            t = w.send_to(wh.external_address(7)[0], EXT_AMOUNT, fee=1500, min_confirms=0, broadcast=False)
            owned |= set(_addresses(w))
            t2 = w.transaction_import_raw(t.raw_hex())
            t2.store()
            # storing a transaction records it; it does not spend anything until it is sent
            model.txs = [x for x in model.txs if x['txid'] != t2.txid]     # same id: stored once
            model.txs.append({'txid': t2.txid, 'inputs': [(i.prev_txid.hex(), i.output_n_int) for i in t2.inputs],
                              'outputs': [(o.output_n, o.address, int(o.value)) for o in t2.outputs],
                              'raw': t2.raw().hex(), 'sent': False, 'in_values': [int(i.value) for i in t2.inputs],
                              'in_detail': _in_detail(t2)})
            for o in t2.outputs:
                if o.address in owned:
                    model.out[(t2.txid, o.output_n)] = {'value': int(o.value), 'address': o.address, 'spent': False,
                                                        'conf': 0}
        elif kind == 'store_again':
            # the oldest stored transaction is loaded and stored once more (a refresh): the ledger does not change
            live = [t for t in getattr(model, 'live', []) if any(x['txid'] == t.txid for x in model.txs)]
            if not live:
                return w, 'noop'
            # the transaction OBJECT the caller still holds from the send (its outputs say "unspent", as they were then)
            live[0].store()
            # storing writes the object's view of its own outputs: an output that a rescan had forgotten is learnt again
            # as unspent - unless a stored sent transaction of the wallet consumes it
            consumed = set()
            for x in model.txs:
                if x['sent']:
                    consumed.update(x['inputs'])
            for op, v in model.out.items():
                if op[0] == live[0].txid and op not in consumed:
                    v['spent'] = False
        elif kind == 'delete_last':
            if not model.txs:
                return w, 'noop'
            t = model.txs[-1]
            w.transaction_delete(t['txid'])
            model.txs.pop()
            for op in list(model.out):
                if op[0] == t['txid']:
                    del model.out[op]
            still = set()
            for o in model.txs:
                if o['sent']:       # a stored-but-unsent transaction does not consume anything
                    still.update(o['inputs'])
            for op in t['inputs']:
                if op in model.out and op not in still:
                    model.out[op]['spent'] = False
                model.sent_consumed.discard(op)
        elif kind == 'delete_funding':
            sent = [t for t in model.txs if t['sent']]
            if not sent:
                return w, 'noop'
            ftxid = sent[-1]['inputs'][0][0]
            if any(t['txid'] == ftxid for t in model.txs):
                return w, 'noop'      # funded by one of the wallet's own transactions: covered by delete_last
            w.transaction_delete(ftxid)
            for op in list(model.out):
                if op[0] == ftxid:
                    del model.out[op]
        elif kind == 'utxo_add_spent':
            # the provider (or the user) reports an outpoint again that a stored sent transaction already consumed
            sent = [t for t in model.txs if t['sent']]
            if not sent:
                return w, 'noop'
            op = sent[-1]['inputs'][0]
            val = sent[-1]['in_values'][0]
            addr = None
            for k in w.keys(depth=w.key_depth) if w.scheme != 'single' else w.keys():
                pass
            rows = [i for i in w.transaction(sent[-1]['txid']).inputs if (i.prev_txid.hex(), i.output_n_int) == op]
            addr = rows[0].address
            w.utxo_add(addr, val, op[0], op[1], confirmations=7)
            if op not in model.out:
                model.out[op] = {'value': val, 'address': addr, 'spent': True, 'conf': 7}
            else:
                model.out[op]['conf'] = 7
        elif kind == 'reopen':
            model.live = []          # objects of the closed wallet are gone with it
            path = w.db_uri
            wh.close(w, None, remove=False)
            w = wh.reopen(path)
        else:
            raise ValueError(kind)
    except (WalletError, TransactionError) as e:
        return w, 'refused'
    return w, 'ok'


def _observe(w):
    """What a Wallet object reports.  balance() and utxos() answer for one account (the default one when none is
    named) while keys() lists every account: everything is observed per account and for the default call."""
    try:
        accounts = sorted(w.accounts()) or [w.default_account_id]
    except Exception:
        accounts = [w.default_account_id]
    keys = w.keys()
    per = {}
    utx_all = []
    for a in accounts:
        multi = len(accounts) > 1
        bal = w.balance(account_id=a) if multi else w.balance()
        utx = w.utxos(account_id=a) if multi else w.utxos()
        utx_all += utx
        kb = {k.id: int(k.balance or 0) for k in keys if (k.account_id == a or not multi)}
        per[a] = {'balance': bal, 'sum_utxos': sum(u['value'] for u in utx), 'sum_key_balances': sum(kb.values())}
    kb = {}
    for k in keys:
        kb[k.id] = int(k.balance or 0)
    wk = {}
    for k in keys:
        try:
            wk[k.id] = int(w.key(k.id).balance())
        except Exception as e:
            wk[k.id] = 'raise:' + type(e).__name__
    txs = sorted(t.txid for t in w.transactions(include_new=True))
    dflt = w.balance()
    return {'balance': dflt, 'default_account_balance': per.get(w.default_account_id, {}).get('balance'),
            'per_account': per, 'n_accounts': len(accounts),
            'utxos': sorted((u['txid'], u['output_n'], u['value']) for u in utx_all),
            'key_balances': kb, 'walletkey_balances': wk, 'txids': txs}


def sub_hist(case):
    from bitcoinlib.services import bitcoinlibtest
    cfg, hist = case['cfg'], case['hist']
    w, path = wh.open_copy(cfg['kind'], cfg['wt'], cfg['seed'])
    model = Model()
    rec = []
    orig = bitcoinlibtest.BitcoinLibTestClient.getutxos

    def getutxos(self, address, *a, **k):
        r = orig(self, address, *a, **k)
        rec.extend(r)
        return r
    bitcoinlibtest.BitcoinLibTestClient.getutxos = getutxos
    devs = []
    labels = []
    try:
        with wh.ForcedRandom(None, 'uniform', 'identity'):
            for ev in cfg.get('prefix', []):
                w, _ = _do_event(w, ev, model, cfg, rec)
            for ev in hist:
                w, lab = _do_event(w, ev, model, cfg, rec)
                labels.append(lab)
            tag = hist[-1][0] if hist else 'init'
            for a in model.anomalies:
                devs.append({'sig': '%s|after_%s' % (a['sig'], tag), 'detail': dict(a['detail'])})
            try:
                live = _observe(w)
            except Exception as e:
                # the wallet can no longer report its balance / outputs / transactions after this history
                devs.append({'sig': 'wallet_cannot_be_observed|%s|after_%s' % (type(e).__name__, tag),
                             'detail': {'exc': repr(e)[:300], 'hist': hist, 'cfg': cfg}})
                return {'devs': devs, 'ret': {'state': ['broken', tag, len(hist)], 'enabled': []}, 'out': 'raises'}
            devs += _invariants('live', live, model, w, tag)
            w2 = wh.reopen(path)
            try:
                try:
                    re = _observe(w2)
                except Exception as e:
                    devs.append({'sig': 'reopened_wallet_cannot_be_observed|%s|after_%s' % (type(e).__name__, tag),
                                 'detail': {'exc': repr(e)[:300], 'hist': hist, 'cfg': cfg}})
                    return {'devs': devs, 'ret': {'state': ['broken', tag, len(hist)], 'enabled': []}, 'out': 'raises'}
                devs += _invariants('reopened', re, model, w2, tag)
                for f in ('balance', 'utxos', 'key_balances', 'walletkey_balances', 'txids'):
                    if live[f] != re[f]:
                        devs.append({'sig': 'live_vs_reopened|%s|after_%s' % (f, tag),
                                     'detail': {'hist': hist, 'live': _clip(live[f]), 'reopened': _clip(re[f])}})
                devs += _reload_txs(w2, model, tag)
            finally:
                wh.close(w2, None, remove=False)
        for d in devs:
            d['detail']['hist'] = hist
            d['detail']['cfg'] = cfg
        state = {'model': model.canon(), 'nkeys': len(live['key_balances']), 'caches': [live['balance']],
                 'held_objects': [t.txid[:8] for t in getattr(model, 'live', [])]}
        return {'devs': devs, 'ret': {'state': state, 'enabled': cfg['events']},
                'out': labels[-1] if labels else 'init'}
    finally:
        bitcoinlibtest.BitcoinLibTestClient.getutxos = orig
        wh.close(w, path)


def _clip(x):
    s = json.dumps(x, default=str)
    return x if len(s) < 500 else s[:500]


def _invariants(who, ob, model, w, tag):
    devs = []
    su = sum(u[2] for u in ob['utxos'])
    for a, pa in sorted(ob['per_account'].items()):
        if pa['balance'] != pa['sum_utxos']:
            devs.append({'sig': 'balance_ne_sum_utxos|%s|after_%s' % (who, tag),
                         'detail': {'account': a, 'balance': pa['balance'], 'sum_utxos': pa['sum_utxos']}})
        if pa['sum_key_balances'] != pa['sum_utxos']:
            devs.append({'sig': 'sum_key_balances_of_account_ne_sum_utxos|%s|after_%s' % (who, tag),
                         'detail': {'account': a, 'sum_key_balances': pa['sum_key_balances'], 'sum_utxos': pa['sum_utxos']}})
    if ob['balance'] != ob['default_account_balance']:
        devs.append({'sig': 'balance_without_account_ne_balance_of_default_account|%s|after_%s' % (who, tag),
                     'detail': {'balance()': ob['balance'], 'balance(default account)': ob['default_account_balance'],
                                'accounts': ob['n_accounts']}})
    skb = sum(ob['key_balances'].values())
    if skb != su:
        devs.append({'sig': 'sum_key_balances_ne_sum_utxos|%s|after_%s' % (who, tag),
                     'detail': {'sum_key_balances': skb, 'sum_utxos': su}})
    if any(isinstance(v, str) for v in ob['walletkey_balances'].values()):
        devs.append({'sig': 'walletkey_balance_raises|%s|after_%s' % (who, tag), 'detail': {}})
    else:
        swk = sum(ob['walletkey_balances'].values())
        if swk != su:
            devs.append({'sig': 'sum_walletkey_balances_ne_sum_utxos|%s|after_%s' % (who, tag),
                         'detail': {'sum_walletkey_balances': swk, 'sum_utxos': su}})
    mu = sorted((k[0], k[1], v['value']) for k, v in model.unspent().items())
    if mu != ob['utxos']:
        devs.append({'sig': 'utxos_ne_reference_ledger|%s|after_%s' % (who, tag),
                     'detail': {'utxos': _clip(ob['utxos']), 'ledger': _clip(mu)}})
    listed = set((u[0], u[1]) for u in ob['utxos'])
    bad = listed & model.sent_consumed
    if bad:
        devs.append({'sig': 'spent_output_listed_as_unspent|%s|after_%s' % (who, tag), 'detail': {'outpoints': sorted(bad)}})
    # selection never returns a consumed output
    for amount in (1000, max(1000, su // 2), su):
        try:
            sel = w.select_inputs(amount, min_confirms=0, return_input_obj=False)
        except Exception:
            sel = []
        for u in sel:
            op = (u.transaction.txid.hex(), u.output_n)
            if op in model.sent_consumed or op not in model.unspent():
                devs.append({'sig': 'select_inputs_returns_spent_or_unknown_output|%s|after_%s' % (who, tag),
                             'detail': {'outpoint': op, 'amount': amount}})
    mt = sorted(t['txid'] for t in model.txs)
    lt = [x for x in ob['txids'] if x in mt]
    if lt != mt:
        devs.append({'sig': 'stored_transaction_missing|%s|after_%s' % (who, tag), 'detail': {'expected': mt, 'got': ob['txids']}})
    return devs


def _reload_txs(w, model, tag):
    devs = []
    for t in model.txs:
        try:
            lt = w.transaction(t['txid'])
        except Exception as e:
            devs.append({'sig': 'transaction_reload_raises|after_%s' % tag, 'detail': {'txid': t['txid'], 'exc': repr(e)[:200]}})
            continue
        if lt is None:
            devs.append({'sig': 'transaction_reload_none|after_%s' % tag, 'detail': {'txid': t['txid']}})
            continue
        if lt.txid != t['txid']:
            devs.append({'sig': 'transaction_reload|txid|after_%s' % tag, 'detail': {'txid': t['txid'], 'got': lt.txid}})
        ins = [(i.prev_txid.hex(), i.output_n_int) for i in lt.inputs]
        if ins != t['inputs']:
            devs.append({'sig': 'transaction_reload|inputs|after_%s' % tag, 'detail': {'txid': t['txid'], 'got': ins, 'expected': t['inputs']}})
        if [int(i.value) for i in lt.inputs] != t['in_values']:
            devs.append({'sig': 'transaction_reload|input_values|after_%s' % tag,
                         'detail': {'txid': t['txid'], 'got': [int(i.value) for i in lt.inputs], 'expected': t['in_values']}})
        outs = [(o.output_n, o.address, int(o.value)) for o in lt.outputs]
        if outs != t['outputs']:
            devs.append({'sig': 'transaction_reload|outputs|after_%s' % tag, 'detail': {'txid': t['txid'], 'got': outs, 'expected': t['outputs']}})
        try:
            raw = lt.raw().hex()
        except Exception as e:
            raw = 'raise:' + repr(e)[:100]
        if raw != t['raw']:
            devs.append({'sig': 'transaction_reload|raw|after_%s' % tag,
                         'detail': {'txid': t['txid'], 'got': raw[:300], 'expected': t['raw'][:300]}})
        elif t.get('in_detail'):
            got = _in_detail(lt)
            exp = t['in_detail']
            for n, (a, b) in enumerate(zip(exp['inputs'], got['inputs'])):
                for f in ('address', 'keys', 'redeemscript', 'signatures'):
                    if a[f] != b[f]:
                        devs.append({'sig': 'transaction_reload|input_%s|after_%s' % (f, tag),
                                     'detail': {'txid': t['txid'], 'input': n, 'stored': a[f], 'reloaded': b[f]}})
            if exp['verifies'] != got['verifies']:
                devs.append({'sig': 'transaction_reload|verifies|after_%s' % tag,
                             'detail': {'txid': t['txid'], 'stored': exp['verifies'], 'reloaded': got['verifies']}})
    return devs


SUBS = {'hist': sub_hist}


def run(ctx):
    q = ctx.quick
    seed = ctx.seed % 1000
    ev_base = [['utxo_add', 'first', 5000], ['utxo_add', 'last', 100000], ['new_key'], ['send_ext'], ['send_own'],
               ['sweep'], ['delete_last'], ['reopen'], ['utxos_update'], ['import_unsent'], ['send_nobc'], ['get_key'],
               ['store_again']]
    cfgs = [{'kind': 'hd', 'wt': 'segwit', 'seed': seed, 'events': ev_base}]
    # start from non-initial states too: a wallet already funded through the provider / by hand
    ev_funded = [['send_ext'], ['send_own'], ['sweep'], ['delete_last'], ['delete_funding'], ['utxo_add_spent'],
                 ['utxos_update'], ['utxos_update_key', 'first'], ['reopen'], ['import_unsent'], ['utxo_add', 'first', 5000],
                 ['store_again']]
    cfgs.append({'kind': 'hd', 'wt': 'segwit', 'seed': seed, 'events': ev_funded, 'prefix': [['utxos_update']]})
    cfgs.append({'kind': 'hd', 'wt': 'legacy', 'seed': seed, 'events': ev_funded,
                 'prefix': [['utxo_add', 'first', 100000], ['utxo_add', 'last', 70000]]})
    small = [['utxo_add', 'first', 100000], ['send_ext'], ['send_own'], ['sweep'], ['delete_last'], ['utxos_update'],
             ['import_unsent']]
    others = [('hd', 'legacy'), ('single', 'segwit'), ('ms22', 'segwit')] + \
        ([] if q else [('hd', 'p2sh-segwit'), ('single', 'legacy'), ('ms22', 'legacy'), ('ms23', 'p2sh-segwit')])
    for kind, wt in others:
        evs = [e for e in small if not (kind == 'single' and e[0] in ('new_key',))]
        cfgs.append({'kind': kind, 'wt': wt, 'seed': seed, 'events': evs})
    # several outputs of one funding transaction and explicit input choice: outpoints that share a txid or an index
    ev_pick = [['send_pick', [0], 'tuple'], ['send_pick', [0, 1], 'tuple'], ['send_pick', [1], 'inputobj'],
               ['send_pick', [0, 1], 'inputobj'], ['delete_last'], ['sweep'], ['reopen']]
    fund3 = [['utxo_add_n', 'first', 100000, 'P', 0], ['utxo_add_n', 'last', 70000, 'P', 1],
             ['utxo_add_n', 'first', 50000, 'Q', 0]]
    cfgs.append({'kind': 'hd', 'wt': 'segwit', 'seed': seed, 'events': ev_pick, 'prefix': fund3})
    if not q:
        cfgs.append({'kind': 'hd', 'wt': 'legacy', 'seed': seed, 'events': ev_pick + [['send_ext'], ['utxos_update']],
                     'prefix': fund3 + [['utxo_add_n', 'last', 30000, 'Q', 2]]})
        cfgs.append({'kind': 'ms22', 'wt': 'segwit', 'seed': seed, 'events': ev_pick, 'prefix': fund3})
    # multisig wallets whose transactions spend outputs of two different keys (stored with the scripts of both)
    for kind, wt in ([('ms22', 'legacy')] if q else [('ms22', 'legacy'), ('ms23', 'p2sh-segwit'), ('ms22', 'segwit')]):
        cfgs.append({'kind': kind, 'wt': wt, 'seed': seed,
                     'prefix': [['utxo_add', 'first', 100000], ['new_key'], ['utxo_add', 'last', 70000]],
                     'events': [['sweep'], ['send_ext'], ['reopen']] + ([] if q else [['delete_last'], ['send_own']])})
    # two accounts whose funded keys interleave in creation order
    cfgs.append({'kind': 'hd', 'wt': 'segwit', 'seed': seed, 'prefix': [['utxo_add', 'first', 5000]],
                 'events': [['fund_account1'], ['new_key'], ['utxo_add', 'last', 70000], ['send_ext'], ['reopen']] +
                 ([] if q else [['sweep'], ['delete_last'], ['utxos_update']])})
    if q:
        # the nested multisig form (scripts stored with the transaction do not carry the threshold) with a reduced
        # alphabet; the thorough tier has it with the full one
        cfgs.append({'kind': 'ms23', 'wt': 'p2sh-segwit', 'seed': seed,
                     'events': [['utxo_add', 'first', 100000], ['send_ext'], ['sweep'], ['delete_last']]})
    total = ctx.bfs_multi('hist', [(cfg, 3 if q else 4) for cfg in cfgs], max_states=6000 if q else 60000)
    ctx.note('bounds', {'configs': [(c['kind'], c['wt'], len(c['events'])) for c in cfgs], 'depth_quick': 3,
                        'depth_thorough': 4, 'states': total})
