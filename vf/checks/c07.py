"""C07 Wallet-created transactions conserve value and pay exactly what was requested.

E2/E3: for every (wallet configuration, UTXO multiset, request) in a deviation-bounded product the
request is executed on a real wallet (private copy of a template database on network
bitcoinlib_test, whose provider answers locally); RNG answers that influence the result
(random.randint for the number of change outputs, the dirichlet split, output shuffling) are forced
to every value of a menu. Every returned transaction is judged against a reference ledger.
"""
import itertools

from vf import wharness as wh
from vf.ref import tx as rtx, interp, codec, nets, secp, bip32, addr as raddr

ID = 'C07'
LEVEL = 'model_checking'
RULE = ('cases = wallet configurations x UTXO multisets (values over a dust/equal/large alphabet, confirmation '
        'patterns) x requests; requests deviate from a default send in at most d dimensions (amount, fee, number of '
        'change outputs incl. every forced RNG answer, recipients, min_confirms, max_utxos, method: send / '
        'transaction_create / sweep / sweep-with-list / explicit inputs / replace-by-fee + bumpfee); d=1 complete, d=2 '
        'complete on the thorough tier; each case is executed on the real wallet; states = distinct (config, utxo set, '
        'request) triples that returned a transaction or a refusal; the oracle checks conservation, recipients, '
        'change ownership, input provenance, fee limits and the reference parse/verification of raw()')
ASSUMPTIONS = ['network bitcoinlib_test: fee estimate and broadcast are answered by the bundled dummy provider',
               'a refusal (exception) is always acceptable: the property only demands that a transaction, if '
               'produced, is correct, and that insufficient funds never produce one',
               'fee-rate limits are checked on the real virtual size with a tolerance: 0.85*fee_min <= rate and '
               'rate <= 1.15*fee_max + (dust_amount + 5% of fee_max)*1000/vsize, because the library documents '
               'that change below the dust / fee-per-output threshold is added to the fee and sizes are estimated',
               'explicitly requested fees (integer fee argument) are the caller\'s choice: only fee >= 0 and the '
               'exact equality fee == requested (+ absorbed dust) are demanded',
               'change ownership is decided by reference BIP32 derivation of the wallet\'s change chain (indices 0..39)']

DUST = 1000
UTXO_VALUES = [999, 1000, 1001, 8000, 100000, 100000000]


def selftest():
    secp.selftest()
    bip32.selftest()
    rtx.selftest()
    interp.selftest()
    nets.selftest()


def _owned_map(kind, wt, seed):
    """address -> (change flag, spk) for the addresses the reference says the wallet owns."""
    m = {}
    rng = 1 if kind == 'single' else 40
    for ch in (0, 1):
        for i in range(rng):
            a, spk = wh.ref_owned(kind, wt, seed, ch, i)
            m[a] = (ch if kind != 'single' else 1, spk)
    return m


_OWN = {}


def owned(kind, wt, seed):
    k = (kind, wt, seed)
    if k not in _OWN:
        _OWN[k] = _owned_map(kind, wt, seed)
    return _OWN[k]


def _recipients(req, own_addr, seed):
    e1 = wh.external_address(1 + seed % 50)[0]
    e2 = wh.external_address(2 + seed % 50, 'legacy')[0]
    r = req['recips']
    if r == 'ext':
        return [e1]
    if r == 'own':
        return [own_addr]
    if r == 'ext+ext2':
        return [e1, e2]
    if r == 'ext+own':
        return [e1, own_addr]
    if r == 'ext+ext':
        return [e1, e1]
    raise ValueError(r)


def _amount(a, funds):
    if a == 'allbutfee':
        return max(funds - 3000, 1)
    if a == 'toomuch':
        return funds + 1
    if a == 'exact':
        return funds
    if isinstance(a, (tuple, list)):
        return a[1]            # (form, smallest units): the amount is handed over as text or as a Value object
    return a


def _amount_arg(a, amt):
    """The object handed to the library for the first recipient's amount.  Text is written here from the integer with
    exact decimal arithmetic ('0.29000000 TST'), never by the library."""
    if not isinstance(a, (tuple, list)):
        return amt
    from decimal import Decimal
    text = '%s TST' % (Decimal(amt) / Decimal(10 ** 8)).quantize(Decimal('0.00000001'))
    if a[0] == 'str':
        return text
    if a[0] == 'str_short':
        return '%s TST' % (Decimal(amt) / Decimal(10 ** 8)).normalize().to_eng_string() if amt % 10 ** 8 else text
    from bitcoinlib.values import Value
    return Value(text, network=wh.NET)


def sub_req(case):
    from bitcoinlib.wallets import WalletError
    from bitcoinlib.transactions import TransactionError
    kind, wt, seed = case['kind'], case['wt'], case.get('seed', 0)
    utxos, req = case['utxos'], case['req']
    w, path = wh.open_copy(kind, wt, seed)
    devs = []
    try:
        own = owned(kind, wt, seed)
        net = nets.NETS[wh.NET]
        # --- fund: utxo i goes to payment key i % 3 (so keys are shared by some utxos)
        ledger = {}
        keys = []
        nkeys = 1 if kind == 'single' else 3
        for j in range(nkeys):
            k = w.get_key() if j == 0 else w.new_key()
            keys.append(k)
        for i, (val, conf) in enumerate(utxos):
            k = keys[i % nkeys]
            # outputs 2j and 2j+1 belong to ONE funding transaction when they have the same number of confirmations
            # (confirmations are a property of the transaction)
            pair = i - 1 if i % 2 else i + 1
            shared = 0 <= pair < len(utxos) and utxos[pair][1] == conf
            txid = wh.utxo_txid(seed, i // 2 if shared else 50 + i)
            w.utxo_add(k.address, val, txid, i % 2, confirmations=conf)
            if k.address not in own:
                devs.append({'sig': 'setup|payment_key_not_owned_by_reference', 'detail': {'addr': k.address, 'path': k.path}})
                return {'devs': devs}
            ledger[(txid, i % 2)] = {'value': val, 'conf': conf, 'spk': own[k.address][1], 'address': k.address}
        funds = sum(v for v, _ in utxos)
        own_addr = keys[-1].address
        recips = _recipients(req, own_addr, seed)
        amt = _amount(req['amount'], funds)
        outputs = []
        for n, a in enumerate(recips):
            outputs.append((a, amt if n == 0 else max(DUST, min(5000, amt // 2 or DUST))))
        fee = req['fee']
        if fee == 'gtfunds':
            fee = funds + 1
        kw = dict(fee=fee, min_confirms=req['min_confirms'], max_utxos=req['max_utxos'],
                  number_of_change_outputs=req['nchange'])
        method = req['method']
        rnd = req.get('rnd') or {}
        t = None
        err = None
        requested = list(outputs)          # integer amounts: what must be paid
        if outputs and isinstance(req['amount'], (tuple, list)):
            outputs[0] = (outputs[0][0], _amount_arg(req['amount'], amt))
        outputs_before = list(outputs)
        explicit_fee = isinstance(fee, int)
        with wh.ForcedRandom(rnd.get('randint'), rnd.get('dirichlet'), rnd.get('shuffle', 'identity')):
            try:
                if method == 'send':
                    t = w.send(outputs, broadcast=False, **kw)
                elif method in ('send_broadcast', 'send_twice'):
                    t = w.send(outputs, broadcast=True, **kw)
                elif method == 'create':
                    t = w.transaction_create(outputs, **kw)
                elif method == 'sweep':
                    t = w.sweep(recips[0], min_confirms=req['min_confirms'], fee=fee if fee not in (None,) else None,
                                max_utxos=req['max_utxos'] or 999)
                    requested = None
                    case = dict(case, _sweep_target=recips[0])
                elif method == 'sweep_list':
                    tl = [(recips[0], min(amt, 2000))] + [(own_addr if len(recips) < 2 else recips[1], 0)]
                    t = w.sweep(tl, min_confirms=req['min_confirms'], fee=fee)
                    requested = [tl[0]]
                    case = dict(case, _remainder_to=tl[1][0])      # the (address, 0) entry receives what is left
                elif method in EXPLICIT:
                    sel = sorted(ledger.items())
                    if method.startswith('inputs_first'):
                        sel = sel[:1]
                    elif method.startswith('inputs_second'):
                        sel = sel[1:2]       # funded at output index 1
                    if method.endswith('_obj'):
                        # Input objects, as select_inputs() hands them out, instead of (txid, n) tuples
                        objs = w.select_inputs(funds, min_confirms=0)
                        want = [op for op, _ in sel]
                        ia = [o for o in objs if (o.prev_txid.hex(), o.output_n_int) in want]
                        if len(ia) != len(want):
                            raise WalletError('select_inputs did not return the funded outputs')
                    elif method in LONG:
                        # the long tuple form (txid, output_n, key_id, value): the wallet's own record of an outpoint
                        # decides, whatever the caller claims; an outpoint the wallet does not hold is refused
                        ia = []
                        for pos, ((txid, n), u) in enumerate(sel):
                            kid = w.key(u['address']).key_id
                            val = u['value']
                            if method == 'inputs_all_stale':
                                val = max(1, (u['value'] * 3) // 5) if pos % 2 else u['value'] + 1234
                            ia.append((txid, n, kid, val))
                        if method == 'inputs_all_unknown' and ia:
                            ia.append(('aa' * 32, 0, ia[-1][2], ia[-1][3]))
                            sel = sel + [(('aa' * 32, 0), None)]
                    else:
                        ia = [(txid, n) for (txid, n), _ in sel]
                    ia_before = list(ia)
                    t = w.send(outputs, input_arr=ia, broadcast=False, **kw)
                    if len(ia) != len(ia_before) or any(a is not b for a, b in zip(ia, ia_before)):
                        devs.append({'sig': 'argument|input_list_of_the_caller_changed|%s' % method,
                                     'detail': {'before': len(ia_before), 'after': len(ia)}})
                    got = sorted((i.prev_txid.hex(), i.output_n_int) for i in t.inputs)
                    if got != sorted(op for op, _ in sel):
                        devs.append({'sig': 'inputs|explicit_input_list_not_spent_as_given|%s' % (
                            'objects' if method.endswith('_obj') else 'tuples'),
                            'detail': {'requested': sorted(op for op, _ in sel), 'spent': got}})
                elif method == 'rbf_bump':
                    t = w.send(outputs, broadcast=False, replace_by_fee=True, **kw)
                    bump = req.get('bump', 'default')
                    if bump == 'default':
                        t.bumpfee()
                    elif bump == 'extra':
                        t.bumpfee(extra_fee=t.vsize + 500)
                    else:
                        t.bumpfee(fee=t.fee + t.vsize + 777)
                    explicit_fee = False
                else:
                    raise ValueError(method)
            except (WalletError, TransactionError, ValueError, OverflowError, KeyError, IndexError, TypeError,
                    AttributeError, ZeroDivisionError) as e:
                err = e
        if outputs != outputs_before:
            # the list of (address, amount) pairs belongs to the caller
            devs.append({'sig': 'argument|output_list_of_the_caller_changed|%s' % method,
                         'detail': {'before': [list(x) for x in outputs_before], 'after': [list(x) for x in outputs][:6]}})
        if t is None:
            return {'devs': devs, 'out': 'refused:' + type(err).__name__, 'states': [_skey(case)], 'trans': 1,
                    'traces': 1, 'nt': []}
        devs += _judge(t, case, ledger, requested, own, net, explicit_fee, fee, method)
        if method == 'send_twice' and getattr(t, 'pushed', False):
            # the same request once more after the first transaction was sent: the ledger has lost the outputs the first
            # one consumed and gained its change outputs (unconfirmed)
            led2 = {op: u for op, u in ledger.items()
                    if op not in [(i.prev_txid.hex(), i.output_n_int) for i in t.inputs]}
            for o in t.outputs:
                if o.address in own:
                    led2[(t.txid, o.output_n)] = {'value': int(o.value), 'conf': 0, 'spk': own[o.address][1], 'address': o.address}
            t2 = None
            with wh.ForcedRandom(rnd.get('randint'), rnd.get('dirichlet'), rnd.get('shuffle', 'identity')):
                try:
                    t2 = w.send(outputs, broadcast=False, **dict(kw, min_confirms=0))
                except (WalletError, TransactionError, ValueError, OverflowError, KeyError, IndexError, TypeError,
                        AttributeError, ZeroDivisionError):
                    t2 = None
            if t2 is not None:
                case2 = dict(case, req=dict(case['req'], min_confirms=0))
                for d in _judge(t2, case2, led2, requested, own, net, explicit_fee, fee, 'send_twice'):
                    d['sig'] = 'second|' + d['sig']
                    devs.append(d)
            elif req['nchange'] == 1 and sum(u['value'] for u in led2.values()) > 2 * sum(v for _, v in outputs) + 200000:
                devs.append({'sig': 'second|refused_although_funds_are_ample', 'detail': {'case': case}})
        return {'devs': devs, 'out': 'tx:%din:%dout' % (len(t.inputs), len(t.outputs)), 'states': [_skey(case)],
                'trans': 1, 'traces': 1, 'nt': [_skey(case)]}
    finally:
        wh.close(w, path)


def _skey(case):
    import json
    import hashlib
    return hashlib.sha256(json.dumps(case, sort_keys=True).encode()).hexdigest()[:16]


def _judge(t, case, ledger, requested, own, net, explicit_fee, fee_req, method):
    devs = []
    kind = case['kind']
    tagm = method

    def dev(sig, **detail):
        detail['case'] = {k: case[k] for k in ('kind', 'wt', 'utxos', 'req')}
        devs.append({'sig': sig, 'detail': detail})
    # ---- inputs: distinct, unspent outputs of this wallet, confirmed as required
    seen = set()
    in_sum = 0
    for i in t.inputs:
        op = (i.prev_txid.hex(), i.output_n_int)
        if op in seen:
            dev('inputs|duplicate_outpoint|%s' % tagm, outpoint=op)
        seen.add(op)
        if op not in ledger:
            dev('inputs|not_an_unspent_output_of_wallet|%s' % tagm, outpoint=op)
            continue
        u = ledger[op]
        in_sum += u['value']
        if int(i.value) != u['value']:
            dev('inputs|value_differs_from_ledger|%s' % tagm, outpoint=op, lib=i.value, ledger=u['value'])
        need = case['req']['min_confirms']
        if method == 'rbf_bump':
            # an input that bumpfee() adds is chosen with that method's own documented default (min_confirms=1)
            need = min(need, 1)
        if method not in EXPLICIT and u['conf'] < need:
            dev('inputs|below_min_confirms|%s' % tagm, outpoint=op, conf=u['conf'])
    # ---- outputs: integers >= 0
    out_sum = 0
    for o in t.outputs:
        if not isinstance(o.value, int) or isinstance(o.value, bool) or o.value < 0:
            dev('outputs|not_a_non_negative_integer|%s' % tagm, value=repr(o.value))
        out_sum += int(o.value)
    fee = t.fee
    if fee is None or fee < 0 or int(fee) != fee:
        dev('fee|negative_or_non_integer|%s' % tagm, fee=repr(fee))
        fee = 0
    if in_sum != out_sum + fee:
        dev('conservation|inputs_ne_outputs_plus_fee|%s' % tagm, inputs=in_sum, outputs=out_sum, fee=fee)
    # ---- recipients exactly once with exact amount and script; everything else is change of this wallet
    outs = [(o.address, int(o.value), bytes(o.lock_script)) for o in t.outputs]
    rest = list(outs)
    if requested is not None:
        for a, v in requested:
            hit = [x for x in rest if x[0] == a and x[1] == v]
            if not hit:
                dev('recipient|missing_or_wrong_amount|%s' % tagm, address=a, amount=v,
                    outputs=[(x[0], x[1]) for x in outs])
                continue
            rest.remove(hit[0])
            spk = _spk_of(a)
            if spk is not None and hit[0][2] != spk:
                dev('recipient|script_differs_from_address|%s' % tagm, address=a, script=hit[0][2].hex())
    else:
        # plain sweep: exactly one output to the target holding everything but the fee
        tgt = [x for x in rest if x[0] == case.get('_sweep_target')] if case.get('_sweep_target') else \
            [x for x in rest if x[0] not in own]
        if len(tgt) != 1:
            dev('sweep|not_exactly_one_target_output', outputs=[(x[0], x[1]) for x in outs])
        for x in tgt:
            rest.remove(x)
            spk = _spk_of(x[0])
            if spk is not None and x[2] != spk:
                dev('recipient|script_differs_from_address|%s' % tagm, address=x[0], script=x[2].hex())
    for a, v, s in rest:
        if a == case.get('_remainder_to'):
            continue            # sweep with a list: the entry with amount 0 is the requested receiver of the remainder
        if a not in own:
            dev('change|pays_address_not_owned_by_wallet|%s' % tagm, address=a, value=v)
        else:
            ch, spk = own[a]
            if s != spk:
                dev('change|script_differs_from_address|%s' % tagm, address=a, script=s.hex())
            if ch != 1 and method != 'sweep_list':
                dev('change|pays_receiving_chain_key|%s' % tagm, address=a, value=v)
    # ---- fee limits
    try:
        raw = t.raw()
        r = rtx.parse(raw)
    except Exception as e:
        dev('raw|unparseable|%s' % tagm, exc=repr(e)[:200])
        return devs
    stripped = len(rtx.serialize(r, witness=False))
    total = len(raw)
    vsize = (3 * stripped + total + 3) // 4
    signed = all(i.signatures for i in t.inputs)
    if explicit_fee:
        if not (fee_req <= fee <= fee_req + max(DUST, int(0.06 * net['fee_max']))):
            dev('fee|differs_from_requested|%s' % tagm, requested=fee_req, fee=fee)
    elif signed and method != 'rbf_bump':
        rate = fee * 1000.0 / vsize
        lo = 0.85 * net['fee_min']
        hi = 1.15 * net['fee_max'] + (net['dust_amount'] + 0.05 * net['fee_max']) * 1000.0 / vsize
        surplus_is_fee = (method in EXPLICIT and case['req']['fee'] is None and not rest and
                          requested is not None and fee == in_sum - sum(v for _, v in requested))
        if rate < lo or rate > hi:
            if surplus_is_fee:
                # explicit input list + no fee argument: no change output is made, fee := inputs - outputs, and the
                # network fee limits are applied to the estimate instead of to this real fee
                dev('fee|explicit_inputs_without_fee_argument_fee_is_inputs_minus_outputs_unlimited', rate=rate,
                    fee=fee, vsize=vsize)
            elif rate < lo:
                dev('fee|rate_below_network_minimum|%s' % tagm, rate=rate, fee=fee, vsize=vsize)
            else:
                dev('fee|rate_above_network_maximum|%s' % tagm, rate=rate, fee=fee, vsize=vsize)
    # ---- the bytes say the same thing
    r_in = [(i['txid'][::-1].hex(), i['vout']) for i in r.vin]
    if sorted(r_in) != sorted(seen):
        dev('raw|inputs_differ_from_object|%s' % tagm, raw=r_in)
    if sorted((o['value'], o['script']) for o in r.vout) != sorted((x[1], x[2]) for x in outs):
        dev('raw|outputs_differ_from_object|%s' % tagm)
    if sum(ledger[op]['value'] for op in r_in if op in ledger) != sum(o['value'] for o in r.vout) + fee:
        dev('raw|conservation|%s' % tagm)
    if signed and method != 'rbf_bump':
        for idx, op in enumerate(r_in):
            if op not in ledger:
                continue
            u = ledger[op]
            wit = r.wit[idx] if r.wit else []
            try:
                ok = interp.verify_script(r.vin[idx]['script'], u['spk'], wit, interp.TxChecker(r, idx, u['value']))
            except NotImplementedError:
                ok = True
            if not ok:
                dev('raw|signed_input_fails_reference_interpreter|%s' % tagm, input=idx, spk=u['spk'].hex())
    return devs


def _spk_of(address):
    d = raddr.decode_address(address)
    d = [x for x in d if x[0] == wh.NET]
    if not d:
        return None
    _, kind, payload, ver = d[0]
    if kind == 'p2pkh':
        return raddr.spk_p2pkh(payload)
    if kind == 'p2sh':
        return raddr.spk_p2sh(payload)
    return raddr.spk_witness(ver, payload)


SUBS = {'req': sub_req}

LONG = ('inputs_all_long', 'inputs_all_stale', 'inputs_all_unknown')
EXPLICIT = ('inputs_first', 'inputs_all', 'inputs_second', 'inputs_first_obj', 'inputs_second_obj', 'inputs_all_obj') + LONG
DEFAULT = {'method': 'send', 'amount': 2000, 'fee': None, 'nchange': 1, 'recips': 'ext', 'min_confirms': 1,
           'max_utxos': None}
DIMS = {
    'amount': [999, 1000, 1001, 5000, 99000, 'allbutfee', 'exact', 'toomuch', 10 ** 8 - 20000,
               # amounts given as text / Value objects, incl. decimals whose binary float quotient lies just below the integer
               ('str', 2000), ('str', 3), ('str', 29000000), ('str_short', 57000000), ('value', 57000000), ('value', 29000000),
               ('value', 5000), ('str', 99999999 - 30000)],
    'fee': ['low', 'high', 0, 500, 3000, 100000, 10 ** 6, 'gtfunds'],
    'nchange': [2, 3, 5, 0],
    'recips': ['own', 'ext+ext2', 'ext+own', 'ext+ext'],
    'min_confirms': [0, 2],
    'max_utxos': [1, 2],
    'method': ['create', 'send_broadcast', 'send_twice', 'sweep', 'sweep_list', 'inputs_first', 'inputs_all', 'inputs_second',
               'inputs_first_obj', 'inputs_second_obj', 'inputs_all_obj', 'inputs_all_long', 'inputs_all_stale',
               'inputs_all_unknown', 'rbf_bump'],
}
RND_MENU = [{'randint': v, 'dirichlet': d, 'shuffle': s}
            for v in (1, 2, 3, 4, 5) for d in ('uniform', 'first', 'last', 'near') for s in ('identity',)] + \
           [{'randint': 2, 'dirichlet': 'uniform', 'shuffle': 'reverse'}]


def _requests(depth):
    reqs = [dict(DEFAULT)]
    names = list(DIMS)
    for d in range(1, depth + 1):
        for dims in itertools.combinations(names, d):
            for vals in itertools.product(*[DIMS[x] for x in dims]):
                r = dict(DEFAULT)
                r.update(dict(zip(dims, vals)))
                reqs.append(r)
    out = []
    for r in reqs:
        if r['nchange'] == 0:
            for m in RND_MENU:
                out.append(dict(r, rnd=m))
        elif r['nchange'] > 1:
            for dch in ('uniform', 'first', 'near'):
                out.append(dict(r, rnd={'dirichlet': dch, 'shuffle': 'identity'}))
            out.append(dict(r, rnd={'dirichlet': 'last', 'shuffle': 'reverse'}))
        elif r['method'] == 'rbf_bump':
            for b in ('default', 'extra', 'fee'):
                out.append(dict(r, bump=b))
        else:
            out.append(r)
    return out


def _utxo_sets(maxn, confs_patterns):
    sets = []
    for n in range(0, maxn + 1):
        for vals in itertools.combinations_with_replacement(UTXO_VALUES, n):
            for cp in confs_patterns:
                confs = [cp[i % len(cp)] for i in range(n)]
                s = [[v, c] for v, c in zip(vals, confs)]
                if s not in sets:
                    sets.append(s)
    return sets


def run(ctx):
    q = ctx.quick
    seed = ctx.seed % 1000
    configs = [('hd', 'segwit'), ('hd', 'legacy'), ('hd', 'p2sh-segwit'), ('single', 'segwit'), ('ms22', 'segwit')]
    if not q:
        configs += [('single', 'legacy'), ('ms23', 'p2sh-segwit'), ('ms22', 'legacy'), ('ms23', 'segwit')]
    cases = []
    # (a) primary configuration: all UTXO sets up to size 2 (quick) / 3 (thorough) x all 1-deviation requests
    req1 = _requests(1)
    req2 = _requests(2) if not q else None
    sets_small = _utxo_sets(2 if q else 3, [[10], [0, 10], [1, 0]])
    # funded sets used with the larger request menus
    rich = [[[100000, 10], [100000, 10], [8000, 10]], [[100000000, 10]], [[100000000, 10], [1000, 0], [999, 10]],
            [[8000, 10], [8000, 1], [8000, 0]]]
    if not q:
        rich += [[[100000000, 10], [100000000, 10], [100000, 3], [1001, 10]], [[100000, 10]] * 5]
    for us in sets_small:
        for r in (req1 if q else req1):
            if q and len(us) >= 1 and r is not req1[0] and (hash_small(us) + hash_small(r)) % (2 if len(us) == 1 else 5):
                continue
            cases.append({'kind': 'hd', 'wt': 'segwit', 'seed': seed, 'utxos': us, 'req': r})
    for us in rich:
        for r in (req2 if req2 is not None else req1):
            cases.append({'kind': 'hd', 'wt': 'segwit', 'seed': seed, 'utxos': us, 'req': r})
    if q:
        # the pairs (fee argument class x way of naming the inputs) of the 2-deviation menu that the quick tier keeps:
        # a fee priority word or an explicit fee together with explicit inputs
        for us in rich[:3]:
            for fee in ('low', 'high', 3000):
                for m in EXPLICIT:
                    cases.append({'kind': 'hd', 'wt': 'segwit', 'seed': seed, 'utxos': us,
                                  'req': dict(DEFAULT, fee=fee, method=m)})
    # (b) every other configuration: rich sets x 1-deviation requests
    for kind, wt in configs[1:]:
        for us in rich[:3] if q else rich:
            for r in req1:
                if q and r is not req1[0] and (hash_small(us) + hash_small(r) + len(kind)) % 3:
                    continue
                cases.append({'kind': kind, 'wt': wt, 'seed': seed, 'utxos': us, 'req': r})
    # two requests in a row where the first one must spend several outputs of ONE funding transaction
    for kind, wt in configs:
        for us in ([[60000, 10], [60000, 10]], [[60000, 10], [60000, 10], [70000, 10]],
                   [[60000, 10], [60000, 10], [50000, 10], [50000, 10]]):
            for amt in (100000, 'allbutfee') + (() if q else (65000, 115000)):
                for mc in (1,) if q else (0, 1):
                    cases.append({'kind': kind, 'wt': wt, 'seed': seed, 'utxos': us,
                                  'req': dict(DEFAULT, method='send_twice', amount=amt, fee=2000, min_confirms=mc)})
    ctx.pmap('req', cases, chunk=4)
    ctx.note('bounds', {'configs': configs, 'utxo_sets_small': len(sets_small), 'rich_sets': len(rich),
                        'requests_1dev': len(req1), 'requests_2dev': len(req2) if req2 else 0,
                        'rng_menu': len(RND_MENU), 'cases': len(cases)})


def hash_small(x):
    import json
    import zlib
    return zlib.crc32(json.dumps(x, sort_keys=True).encode())
