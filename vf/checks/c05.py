"""C05 Address <-> locking script mapping is standard and mutually inverse; foreign networks refused.

E1 input-space enumeration on Output(...) / Transaction.add_output(...) / Address / deserialize_address against
the reference templates and encoders (vf/ref/addr.py, codec.py) and the golden network table (vf/ref/nets.py).
"""
import hashlib
from io import BytesIO

from vf.ref import addr as RA
from vf.ref import codec, nets, secp

ID = 'C05'
LEVEL = 'exploration'
RULE = ('full product of {payload alphabet per length 2/20/32/40} x {P2PKH, P2SH, witness version 0..16} x '
        '{11 networks of the golden table} x {every way of building an output: address string, Address.parse, '
        'Address(hashed_data), public hash + script type (bytes and hex), raw locking script (bytes, hex, '
        'Output.parse), via Output() and via Transaction.add_output()}; public keys / HD keys x witness type x '
        'network; every ordered pair (address network, transaction network) x destination kind; near-miss '
        'scripts of every template; call histories of length <= 2 (thorough 3) over 38 queries / state changes on ONE '
        'HDKey or Key object (address() with every encoding x script type, foreign prefixes, (un)compressed, '
        'address_obj, hash160, wif, public, as_dict, network_change, earlier outputs) followed by every way of '
        'using that object, its address_obj or its address() string as destination; the address STRING space around '
        'the canonical strings: {known HRPs, HRPs of unknown chains, HRPs one character away from a known one} x '
        '{lower, UPPER, three mixed-case spellings} x witness kind x payload, all 256 Base58Check version bytes, and '
        'the invalid neighbours of valid strings (checksum character, Bech32/Bech32m variant swapped, HRP re-labelled, '
        'witness version 17, program length, padding, Base58 payload length), each on every transaction network '
        'through Output(address=str[,encoding]), add_output, Address.parse(str, network) -> Output / add_output and '
        'deserialize_address(str, network), judged by the strict reference decoders (string is / is not an address of '
        'that network).  The reference computes address and script from (network, kind, version, '
        'payload); a case is non-trivial when the library returned an output that was compared (distinct by '
        'network, kind, version, payload)')
ASSUMPTIONS = [
    'reference Base58Check / Bech32(m) / script templates in vf/ref are validated against published vectors in '
    'their self-test; the network prefix table is the pinned golden copy (vf/ref/networks_golden.json)',
    'the five standard destinations (P2PKH, P2SH, P2WPKH, P2WSH, P2TR) must be accepted and mapped exactly; for any '
    'other valid witness program (BIP350 address with version 1..16) a refusal is accepted, but when an output '
    'is built its script must be OP_n <program> of the address',
    'when no script type is given (public key or 20-byte hash only) any standard single-key script over that '
    'payload is accepted (P2PKH or P2WPKH) as long as script, address and type agree with each other',
    'for non-standard scripts no particular address/type is demanded; only: a script that is not a standard '
    'template must not be reported with a standard type together with a valid address of another script',
    'key histories: queries do not change the destination a key stands for (its own compressed public key and '
    'witness type on its current network; network_change moves the expectation to the new network); for an Address '
    'object handed out by the key only identity and the inverse law are demanded, and an object the caller '
    'requested with a script type / prefix that contradicts its encoding is classed apart',
    'address strings: whether a string is an address of a network is decided by the strict reference decoders '
    '(BIP173/BIP350 incl. the all-upper-case spelling, Base58Check with a 20-byte payload) and the golden prefix table; '
    'a string that is not must be refused by Output / add_output, also when it went through Address.parse(str, '
    'network=<that network>), whatever network (a name, a list, none) the library decoder reports for it.  Accepting '
    'the upper case spelling of an address of the network itself is NOT demanded (the library refuses it; refusal '
    'is safe); when it is accepted, script and type must be exact and the reported address must be the string given '
    'or its lower case form.  deserialize_address(str, network) may refuse or name other networks, it must only not '
    'present a non-address of the network as one',
    'an address string is foreign when no row of the golden table for the transaction network decodes it '
    '(testnet/testnet4/signet and bitcoin/regtest base58 share encodings and are accepted); for Address/HDKey '
    'objects refusal is demanded only in Transaction.add_output (Output() alone has no transaction; its '
    'network argument has a default)',
]

FIVE = ('p2pkh', 'p2sh', 'p2wpkh', 'p2wsh', 'p2tr')
VAL = 1000


def selftest():
    codec.selftest()
    nets.selftest()
    secp.selftest()
    RA.selftest()
    # BIP350 vectors: address -> scriptPubKey
    vec = [('BC1QW508D6QEJXTDG4Y5R3ZARVARY0C5XW7KV8F3T4', '0014751e76e8199196d454941c45d1b3a323f1433bd6'),
           ('bc1pw508d6qejxtdg4y5r3zarvary0c5xw7kw508d6qejxtdg4y5r3zarvary0c5xw7kt5nd6y',
            '5128751e76e8199196d454941c45d1b3a323f1433bd6751e76e8199196d454941c45d1b3a323f1433bd6'),
           ('BC1SW50QGDZ25J', '6002751e'),
           ('bc1zw508d6qejxtdg4y5r3zarvaryvaxxpcs', '5210751e76e8199196d454941c45d1b3a323'),
           ('tb1pqqqqp399et2xygdj5xreqhjjvcmzhxw4aywxecjdzew6hylgvsesf3hn0c',
            '5120000000c4a5cad46221b2a187905e5266362b99d5e91c6ce24d165dab93e86433')]
    for a, spk in vec:
        hrp, ver, prog = codec.segwit_decode(a)
        assert RA.spk_witness(ver, prog).hex() == spk, a
        assert RA.addr_witness('bitcoin' if hrp == 'bc' else 'testnet', ver, prog) == a.lower()
    assert RA.spk_p2pkh(bytes(20)).hex() == '76a914' + '00' * 20 + '88ac'
    assert RA.spk_p2sh(bytes(20)).hex() == 'a914' + '00' * 20 + '87'
    assert RA.addr_p2pkh('bitcoin', bytes(20)) == '1111111111111111111114oLvT2'
    assert RA.addr_p2sh('bitcoin', bytes.fromhex('b472a266d0bd89c13706a4132ccfb16f7c3b9fcb')) == \
        '3J98t1WpEZ73CNmQviecrnyiWrnqRhWNLy'


# ------------------------------------------------------------------------------- reference side
def _wkind(ver, ln):
    return {(0, 20): 'p2wpkh', (0, 32): 'p2wsh', (1, 32): 'p2tr'}.get((ver, ln))


def _dest(net, kind, ver, payload):
    """(address, script, standard kind or None)"""
    if kind == 'p2pkh':
        return RA.addr_p2pkh(net, payload), RA.spk_p2pkh(payload), 'p2pkh'
    if kind == 'p2sh':
        return RA.addr_p2sh(net, payload), RA.spk_p2sh(payload), 'p2sh'
    return RA.addr_witness(net, ver, payload), RA.spk_witness(ver, payload), _wkind(ver, len(payload))


def _is_hexlike(b):
    try:
        bytes.fromhex(b.decode())
        return True
    except (ValueError, UnicodeDecodeError):
        return False


def _template(kind, ver, data):
    if kind == 'p2pkh':
        return b'\x76\xa9' + codec.push(data) + b'\x88\xac'
    if kind == 'p2sh':
        return b'\xa9' + codec.push(data) + b'\x87'
    return bytes([0x50 + ver if ver else 0]) + codec.push(data)


# --------------------------------------------------------------------------------- observation
def _observe(f):
    """Run f() -> Output; return dict(script, address, type, net) or {'exc': name}."""
    try:
        o = f()
    except Exception as e:
        return {'exc': type(e).__name__, 'msg': str(e)[:120]}
    r = {'script': bytes(o.lock_script), 'type': o.script_type}
    try:
        r['address'] = o.address
    except Exception as e:
        r['address'] = None
        r['address_exc'] = type(e).__name__
    try:
        r['net'] = o.network.name
    except Exception:
        r['net'] = None
    return r


def _tx_out(net, **kw):
    from bitcoinlib.transactions import Transaction
    t = Transaction(network=net)
    t.add_output(VAL, **kw)
    return t.outputs[-1]


def _script_class(kind, ver, payload, exp, got):
    """Name the exact wrong script, or 'script_unexplained'."""
    if kind == 'wit':
        if ver >= 1 and len(payload) == 20 and got == RA.spk_witness(0, payload):
            return 'script_v1plus_20byte_program_built_as_v0_p2wpkh'
        if ver >= 2 and got == RA.spk_witness(1, payload):
            return 'script_witness_version_replaced_by_1'
    if _is_hexlike(payload):
        short = bytes.fromhex(payload.decode())
        if got == _template(kind, ver, short):
            return 'script_over_unhexlified_payload'
        if kind == 'wit' and ver >= 2 and got == _template(kind, 1, short):
            return 'script_over_unhexlified_payload'
    return 'script_unexplained'


def _addr_class(net, kind, ver, payload, got, exc):
    if got is None:
        return 'address_raises_%s' % exc
    if got == '':
        return 'address_empty'
    if kind == 'wit':
        if ver >= 1 and got == RA.addr_witness(net, 0, payload):
            return 'address_reencoded_with_witness_version_0'
        if ver >= 2 and got == RA.addr_witness(net, 1, payload):
            return 'address_reencoded_with_witness_version_1'
    if _is_hexlike(payload):
        short = bytes.fromhex(payload.decode())
        for v in sorted({ver, 0, 1}):
            try:
                if got == _dest(net, kind, v, short)[0]:
                    return 'address_over_unhexlified_payload'
            except Exception:
                pass
    return 'address_unexplained'


_LABELS = FIVE + ('p2pk', 'multisig', 'nulldata', 'unknown', 'p2sh_p2wpkh', 'p2sh_p2wsh')


def _lab(t):
    return t if t in _LABELS else ('none' if t is None else 'other')


class _Acc:
    def __init__(self):
        self.devs = []
        self.seen = set()
        self.n = 0
        self.compared = 0
        self.out = {}

    def dev(self, sig, detail):
        self.out['dev'] = self.out.get('dev', 0) + 1
        if sig not in self.seen:
            self.seen.add(sig)
            self.devs.append({'sig': sig, 'detail': detail})

    def label(self, lab):
        self.out[lab] = self.out.get(lab, 0) + 1


HEXSIG = 'to_bytes|binary_payload_of_ascii_hex_digits_unhexlified'


def _valid_somewhere(a):
    return bool(a) and isinstance(a, str) and bool(RA.decode_address(a))


def _judge(acc, way, net, kind, ver, payload, obs, exp_addr, exp_spk, std):
    """Compare one observation of a destination with the reference (forward and reverse ways alike)."""
    acc.n += 1
    det = {'way': way, 'net': net, 'kind': kind, 'ver': ver, 'payload': payload.hex(), 'address': exp_addr,
           'expected_script': exp_spk.hex()}
    hexlike = _is_hexlike(payload)
    if 'exc' in obs:
        if std and hexlike and obs['exc'] in ('EncodingError', 'BKeyError', 'ScriptError', 'TransactionError'):
            acc.dev(HEXSIG, dict(det, msg=obs['msg']))
        elif std:
            acc.dev('%s|standard_destination_refused_%s' % (way, obs['exc']), dict(det, msg=obs['msg']))
        else:
            acc.label('nonstandard_refused')
        return
    acc.compared += 1
    det.update(got_script=obs['script'].hex(), got_address=obs['address'], got_type=obs['type'])
    classes = []
    if obs['script'] != exp_spk:
        classes.append(_script_class(kind, ver, payload, exp_spk, obs['script']))
    if obs['address'] != exp_addr:
        # a non-standard witness program need not be given an address; only a valid address of something else is wrong
        if std or _valid_somewhere(obs['address']):
            classes.append(_addr_class(net, kind, ver, payload, obs['address'], obs.get('address_exc')))
    if std and obs['type'] != std:
        classes.append('type_%s_reported_as_%s' % (std, _lab(obs['type'])))
    if not classes:
        acc.label('ok_' + (std or 'witness_other'))
        return
    if hexlike:
        hexc = [c for c in classes if c.endswith('over_unhexlified_payload')]
        if hexc or _unhex_trace(kind, ver, payload, obs):
            # address encoders reject the shortened payload: that refusal belongs to the same explanation
            hexc += [c for c in classes if c == 'address_raises_EncodingError']
        if hexc:
            acc.dev(HEXSIG, det)
            classes = [c for c in classes if c not in hexc]
    for c in classes:
        acc.dev('%s|%s' % (way, c), det)


def _unhex_trace(kind, ver, payload, obs):
    """'…over_unhexlified_payload' when the script was built over the shortened payload (address then fails)."""
    if _is_hexlike(payload) and obs.get('script') is not None:
        short = bytes.fromhex(payload.decode())
        if obs['script'] in (_template(kind, ver, short), _template(kind, 1 if kind == 'wit' else ver, short)):
            return 'script_over_unhexlified_payload'
        if obs.get('address') is None and obs.get('address_exc') == 'EncodingError':
            # script correct, address encoder received the shortened payload and rejected its length
            return 'address_over_unhexlified_payload'
    return ''


# ------------------------------------------------------------------------------------ sub: dest
def sub_dest(case):
    """case = [net, kind ('p2pkh'|'p2sh'|'wit'), witness version, payload hex]: every way of building the output."""
    from bitcoinlib.transactions import Output
    from bitcoinlib.keys import Address, deserialize_address
    net, kind, ver, ph = case
    payload = bytes.fromhex(ph)
    a, spk, std = _dest(net, kind, ver, payload)
    acc = _Acc()
    enc = 'base58' if kind != 'wit' else 'bech32'

    fwd_ok = []      # forward ways (from the address) that produced exactly the reference script
    rev_lost = []    # reverse ways (from the script) that did not report the address back

    def J(way, f):
        obs = _observe(f)
        _judge(acc, way, net, kind, ver, payload, obs, a, spk, std)
        if 'exc' not in obs:
            if 'lock_script' in way or way == 'Output.parse':
                if obs.get('address') != a:
                    rev_lost.append((way, obs.get('address'), obs.get('type')))
            elif 'address=' in way and obs.get('script') == spk:
                fwd_ok.append(way)

    # --- 1. address string
    J('Output(address=str)', lambda: Output(VAL, address=a, network=net))
    J('add_output(address=str)', lambda: _tx_out(net, address=a))
    # deserialize_address itself: payload, encoding, network list
    acc.n += 1
    try:
        d = deserialize_address(a, network=net)
    except Exception as e:
        d = None
        if std:
            acc.dev('deserialize_address|standard_address_refused_%s' % type(e).__name__,
                    {'address': a, 'net': net, 'msg': str(e)[:100]})
    if d is not None:
        acc.compared += 1
        if d['public_key_hash_bytes'] != payload or d['encoding'] != enc or net not in d['networks']:
            acc.dev('deserialize_address|payload_encoding_or_network_differs',
                    {'address': a, 'net': net, 'got': [d['public_key_hash_bytes'].hex(), d['encoding'], d['networks']]})
        if kind == 'wit' and d['witver'] != ver:
            acc.dev('deserialize_address|witver_differs', {'address': a, 'got': d['witver']})
        if std and d['script_type'] != std:
            acc.dev('deserialize_address|type_%s_reported_as_%s' % (std, _lab(d['script_type'])),
                    {'address': a, 'net': net})
    # --- 2. Address objects
    for how in ('Address.parse', 'Address(hashed_data)'):
        acc.n += 1
        try:
            if how == 'Address.parse':
                ao = Address.parse(a, network=net)
            elif kind == 'wit':
                if std in ('p2wpkh', 'p2wsh'):
                    ao = Address(hashed_data=payload, script_type=std, network=net)
                else:
                    ao = Address(hashed_data=payload, script_type='p2tr', witver=ver, encoding='bech32', network=net)
            else:
                ao = Address(hashed_data=payload, script_type=kind, network=net)
        except Exception as e:
            if std and _is_hexlike(payload) and type(e).__name__ in ('EncodingError', 'BKeyError'):
                acc.dev(HEXSIG, {'way': how, 'address': a, 'net': net, 'payload': ph, 'msg': str(e)[:100]})
            elif std:
                acc.dev('%s|standard_destination_refused_%s' % (how, type(e).__name__),
                        {'address': a, 'net': net, 'payload': ph, 'msg': str(e)[:100]})
            else:
                acc.label('nonstandard_refused')
            continue
        acc.compared += 1
        if ao.address != a and (std or _valid_somewhere(ao.address)):
            c = _addr_class(net, kind, ver, payload, ao.address, None)
            acc.dev(HEXSIG if c == 'address_over_unhexlified_payload' else '%s|%s' % (how, c),
                    {'way': how, 'address': a, 'net': net, 'payload': ph, 'ver': ver, 'got': ao.address})
        # an output built from the object: the script must commit to the payload of the *original* address
        J('Output(address=%s)' % how, lambda: Output(VAL, address=ao, network=net))
        J('add_output(address=%s)' % how, lambda: _tx_out(net, address=ao))
    # --- 3. public hash + script type
    if std or kind == 'wit':
        st = std or 'p2tr'
        kw = {} if std in ('p2pkh', 'p2sh', 'p2wpkh', 'p2wsh') else {'witver': ver}
        J('Output(public_hash,script_type)', lambda: Output(VAL, public_hash=payload, script_type=st, network=net, **kw))
        J('Output(public_hash=hexstr,script_type)',
          lambda: Output(VAL, public_hash=ph, script_type=st, network=net, **kw))
    # --- 4. raw locking script (reverse direction)
    J('Output(lock_script)', lambda: Output(VAL, lock_script=spk, network=net))
    J('Output(lock_script=hexstr)', lambda: Output(VAL, lock_script=spk.hex(), network=net))
    J('add_output(lock_script)', lambda: _tx_out(net, lock_script=spk))
    stream = VAL.to_bytes(8, 'little') + codec.cs_encode(len(spk)) + spk
    J('Output.parse', lambda: Output.parse(BytesIO(stream + b'\xff\xff'), network=net))
    # --- inverse law for every destination the library itself accepts: address -> script -> address
    if fwd_ok and rev_lost and not std:
        # (standard destinations are already required to report address and type above)
        hexlike = _is_hexlike(payload)
        for way, got_addr, got_type in rev_lost:
            rcls = 'reported_unknown' if got_type == 'unknown' else ('no_address' if not got_addr else 'other_address')
            acc.dev(HEXSIG if hexlike else
                    'reverse(lock_script)|inverse_law_broken_address_accepted_but_its_script_not_mapped_back|'
                    'program_len=%d|%s' % (len(payload), rcls),
                    {'way': way, 'net': net, 'ver': ver, 'payload': ph, 'address': a, 'script': spk.hex(),
                     'forward_ok': fwd_ok[:2], 'reverse_address': got_addr, 'reverse_type': got_type})
    # --- 5. default type for a bare 20-byte hash: any standard single-key form, self-consistent
    if kind == 'p2pkh':
        for way, f in (('Output(public_hash)', lambda: Output(VAL, public_hash=payload, network=net)),
                       ('add_output(public_hash)', lambda: _tx_out(net, public_hash=payload)),
                       ('add_output(public_hash,encoding=base58)',
                        lambda: _tx_out(net, public_hash=payload, encoding='base58')),
                       ('add_output(public_hash,encoding=bech32)',
                        lambda: _tx_out(net, public_hash=payload, encoding='bech32'))):
            _judge_any(acc, way, net, payload, _observe(f))
    return {'devs': acc.devs, 'n': acc.n, 'nt': True if acc.compared else [], 'out': acc.out}


def _judge_any(acc, way, net, h, obs, allowed=('p2pkh', 'p2wpkh')):
    """No type was requested: accept any of the allowed standard forms over h, but self-consistent."""
    acc.n += 1
    det = {'way': way, 'net': net, 'hash': h.hex()}
    if 'exc' in obs:
        acc.dev('%s|refused_%s' % (way, obs['exc']), dict(det, msg=obs['msg']))
        return
    acc.compared += 1
    det.update(got_script=obs['script'].hex(), got_address=obs['address'], got_type=obs['type'])
    for k in allowed:
        a, spk, std = _dest(net, 'wit' if k == 'p2wpkh' else k, 0, h)
        if obs['script'] == spk:
            if obs['address'] != a:
                c = _addr_class(net, 'wit' if k == 'p2wpkh' else k, 0, h, obs['address'], obs.get('address_exc'))
                if _is_hexlike(h) and (c == 'address_over_unhexlified_payload' or c == 'address_raises_EncodingError'):
                    acc.dev(HEXSIG, det)
                else:
                    acc.dev('%s|%s' % (way, c), det)
            elif obs['type'] != k:
                acc.dev('%s|type_%s_reported_as_%s' % (way, k, _lab(obs['type'])), det)
            else:
                acc.label('ok_default_' + k)
            return
    if _is_hexlike(h):
        short = bytes.fromhex(h.decode())
        if any(obs['script'] == _template(k if k != 'p2wpkh' else 'wit', 0, short) for k in allowed):
            acc.dev(HEXSIG, det)
            return
    acc.dev('%s|script_unexplained' % way, det)


# ------------------------------------------------------------------------------------ sub: keys
def sub_keys(case):
    """case = [net, secret scalar, compressed]: outputs from public keys and HD keys."""
    from bitcoinlib.transactions import Output
    from bitcoinlib.keys import HDKey
    net, d, compressed = case
    pub = secp.ser(secp.pub(d), compressed)
    h = codec.hash160(pub)
    acc = _Acc()
    for way, f in (('Output(public_key)', lambda: Output(VAL, public_key=pub, network=net)),
                   ('Output(public_key=hexstr)', lambda: Output(VAL, public_key=pub.hex(), network=net)),
                   ('add_output(public_key)', lambda: _tx_out(net, public_key=pub)),
                   ('add_output(public_key,encoding=base58)', lambda: _tx_out(net, public_key=pub, encoding='base58'))):
        _judge_any(acc, way, net, h, _observe(f))
    for st in ('p2pkh', 'p2wpkh'):
        kind = 'wit' if st == 'p2wpkh' else st
        a, spk, std = _dest(net, kind, 0, h)
        _judge(acc, 'Output(public_key,script_type)', net, kind, 0, h,
               _observe(lambda: Output(VAL, public_key=pub, script_type=st, network=net)), a, spk, std)
    if compressed:
        exp = RA.key_addresses(net, pub)
        redeem = b'\x00\x14' + h
        table = {'legacy': ('p2pkh', 0, h, 'p2pkh'), 'segwit': ('wit', 0, h, 'p2wpkh'),
                 'p2sh-segwit': ('p2sh', 0, codec.hash160(redeem), 'p2sh')}
        for wt, (kind, ver, payload, std) in table.items():
            a, spk, std = _dest(net, kind, ver, payload)
            assert a == exp[{'legacy': 'p2pkh', 'segwit': 'p2wpkh', 'p2sh-segwit': 'p2sh_p2wpkh'}[wt]]
            for priv in (True, False):
                try:
                    if priv:
                        k = HDKey(key=d.to_bytes(32, 'big'), chain=b'\x07' * 32, network=net, witness_type=wt)
                    else:
                        k = HDKey(key=pub, chain=b'\x07' * 32, network=net, witness_type=wt, is_private=False)
                except Exception as e:
                    acc.n += 1
                    acc.dev('HDKey()|refused_%s' % type(e).__name__, {'net': net, 'd': d, 'wt': wt, 'msg': str(e)[:100]})
                    continue
                _judge(acc, 'Output(address=HDKey)', net, kind, ver, payload,
                       _observe(lambda: Output(VAL, address=k, network=net)), a, spk, std)
                _judge(acc, 'add_output(address=HDKey)', net, kind, ver, payload,
                       _observe(lambda: _tx_out(net, address=k)), a, spk, std)
    return {'devs': acc.devs, 'n': acc.n, 'nt': True if acc.compared else [], 'out': acc.out}


# ----------------------------------------------------------------------------------- sub: cross
def _accepting(netA, netB, kind, ver, payload):
    """Interpretation of A's address under B's prefix table: (script, std) or None when foreign."""
    a = _dest(netA, kind, ver, payload)[0]
    for n, k, p, v in RA.decode_address(a):
        if n == netB:
            if k in ('p2pkh', 'p2sh'):
                return _dest(netB, k, 0, p)[1], k
            return RA.spk_witness(v, p), _wkind(v, len(p))
    return None


def sub_cross(case):
    """case = [address network A, transaction network B, kind, ver, payload hex]."""
    from bitcoinlib.transactions import Output
    from bitcoinlib.keys import Address
    netA, netB, kind, ver, ph = case
    payload = bytes.fromhex(ph)
    a, spkA, stdA = _dest(netA, kind, ver, payload)
    acc_exp = _accepting(netA, netB, kind, ver, payload)
    acc = _Acc()
    foreign = acc_exp is None
    for way, f in (('Output(address=str)', lambda: Output(VAL, address=a, network=netB)),
                   ('add_output(address=str)', lambda: _tx_out(netB, address=a))):
        obs = _observe(f)
        acc.n += 1
        det = {'way': way, 'address': a, 'address_net': netA, 'tx_net': netB}
        if foreign:
            if 'exc' in obs:
                acc.label('foreign_refused')
            else:
                acc.compared += 1
                acc.dev('%s|foreign_network_address_accepted' % way,
                        dict(det, got_script=obs['script'].hex(), got_address=obs['address']))
        else:
            spk, std = acc_exp
            if 'exc' in obs:
                if std:
                    acc.dev('%s|address_valid_for_network_refused_%s' % (way, obs['exc']), dict(det, msg=obs['msg']))
                else:
                    acc.label('nonstandard_refused')
                continue
            acc.compared += 1
            if obs['script'] != spk:
                acc.dev('%s|%s' % (way, _script_class(kind, ver, payload, spk, obs['script'])),
                        dict(det, got_script=obs['script'].hex(), expected_script=spk.hex()))
            elif obs['address'] != a:
                acc.dev('%s|%s' % (way, _addr_class(netB, kind, ver, payload, obs['address'],
                                                                   obs.get('address_exc'))),
                        dict(det, got_address=obs['address']))
            else:
                acc.label('shared_encoding_accepted')
    # Address object of network A handed to a transaction of network B
    if stdA:
        try:
            if kind == 'wit':
                ao = Address(hashed_data=payload, script_type=stdA, network=netA)
            else:
                ao = Address(hashed_data=payload, script_type=kind, network=netA)
        except Exception:
            ao = None
        if ao is not None and ao.address == a:
            obs = _observe(lambda: _tx_out(netB, address=ao))
            acc.n += 1
            det = {'address': a, 'address_net': netA, 'tx_net': netB}
            if 'exc' in obs:
                if foreign:
                    acc.label('foreign_object_refused')
                elif netA == netB:
                    acc.dev('add_output(address=Address)|own_network_object_refused_%s' % obs['exc'], det)
                else:
                    acc.label('alias_object_refused')
            else:
                acc.compared += 1
                if obs['script'] != spkA:
                    acc.dev('add_output(address=Address)|script_unexplained', dict(det, got=obs['script'].hex()))
                elif foreign:
                    if obs['net'] == netA and obs['address'] == a:
                        acc.dev('add_output(address=Address)|foreign_network_object_accepted_output_keeps_its_network',
                                dict(det, output_network=obs['net']))
                    else:
                        acc.dev('add_output(address=Address)|foreign_network_object_accepted_unexplained',
                                dict(det, output_network=obs['net'], got_address=obs['address']))
                else:
                    acc.label('object_accepted')
    return {'devs': acc.devs, 'n': acc.n, 'nt': True, 'out': acc.out}


def sub_cross_hd(case):
    """case = [key network A, transaction network B, witness type, secret]."""
    from bitcoinlib.keys import HDKey
    netA, netB, wt, d = case
    pub = secp.ser(secp.pub(d))
    h = codec.hash160(pub)
    kind, ver, payload = {'legacy': ('p2pkh', 0, h), 'segwit': ('wit', 0, h),
                          'p2sh-segwit': ('p2sh', 0, codec.hash160(b'\x00\x14' + h))}[wt]
    a, spkA, stdA = _dest(netA, kind, ver, payload)
    foreign = _accepting(netA, netB, kind, ver, payload) is None
    acc = _Acc()
    k = HDKey(key=d.to_bytes(32, 'big'), chain=b'\x07' * 32, network=netA, witness_type=wt)
    obs = _observe(lambda: _tx_out(netB, address=k))
    acc.n += 1
    det = {'address': a, 'key_net': netA, 'tx_net': netB, 'witness_type': wt}
    if 'exc' in obs:
        if foreign:
            acc.label('foreign_key_refused')
        elif netA == netB:
            acc.dev('add_output(address=HDKey)|own_network_key_refused_%s' % obs['exc'], det)
        else:
            acc.label('alias_key_refused')
    else:
        acc.compared += 1
        if obs['script'] != spkA:
            acc.dev('add_output(address=HDKey)|script_unexplained', dict(det, got=obs['script'].hex()))
        elif foreign:
            if obs['net'] == netA and obs['address'] == a:
                acc.dev('add_output(address=HDKey)|foreign_network_key_accepted_output_keeps_its_network',
                        dict(det, output_network=obs['net']))
            else:
                acc.dev('add_output(address=HDKey)|foreign_network_key_accepted_unexplained',
                        dict(det, output_network=obs['net'], got_address=obs['address']))
        else:
            acc.label('key_accepted')
    return {'devs': acc.devs, 'n': acc.n, 'nt': True, 'out': acc.out}


# ------------------------------------------------------------------------------------ sub: near
def _items(script):
    return [op if (d is None or op == 0) else d for op, d in codec.script_tokens(script)]


def _near_scripts(h20, h32):
    """(class, name, script): scripts one edit away from a standard template; none is a standard template."""
    S = []
    for ln in (19, 21, 32):
        d = (h32 + h32)[:ln]
        S.append(('hashlen', 'p2pkh_len%d' % ln, b'\x76\xa9' + codec.push(d) + b'\x88\xac'))
        S.append(('hashlen', 'p2sh_len%d' % ln, b'\xa9' + codec.push(d) + b'\x87'))
    for ln in (19, 21, 31, 33):
        d = (h32 + h32)[:ln]
        S.append(('hashlen', 'v0_len%d' % ln, b'\x00' + codec.push(d)))
    S.append(('opcode', 'p2pkh_equal', b'\x76\xa9\x14' + h20 + b'\x87\xac'))
    S.append(('opcode', 'p2pkh_nodup', b'\xa9\x14' + h20 + b'\x88\xac'))
    S.append(('opcode', 'p2pkh_hash256', b'\x76\xaa\x14' + h20 + b'\x88\xac'))
    S.append(('opcode', 'p2sh_equalverify', b'\xa9\x14' + h20 + b'\x88'))
    S.append(('opcode', 'p2sh_hash256', b'\xaa\x14' + h20 + b'\x87'))
    S.append(('opcode', '1negate_32', b'\x4f\x20' + h32))
    S.append(('opcode', 'reserved_32', b'\x50\x20' + h32))
    S.append(('opcode', 'push1_01_32', b'\x01\x01\x20' + h32))
    S.append(('trailing', 'p2pkh_trailing', RA.spk_p2pkh(h20) + b'\x61'))
    S.append(('trailing', 'p2sh_trailing', RA.spk_p2sh(h20) + b'\x61'))
    S.append(('trailing', 'v0_32_trailing', RA.spk_witness(0, h32) + b'\x61'))
    S.append(('trailing', 'v1_32_trailing', RA.spk_witness(1, h32) + b'\x61'))
    # same items, but the hash is pushed with OP_PUSHDATA1: consensus does not treat these as P2SH / witness
    # programs and no wallet recognises them as P2PKH
    S.append(('pushdata1', 'p2pkh_pushdata1', b'\x76\xa9\x4c\x14' + h20 + b'\x88\xac'))
    S.append(('pushdata1', 'p2sh_pushdata1', b'\xa9\x4c\x14' + h20 + b'\x87'))
    S.append(('pushdata1', 'v0_20_pushdata1', b'\x00\x4c\x14' + h20))
    S.append(('pushdata1', 'v0_32_pushdata1', b'\x00\x4c\x20' + h32))
    S.append(('pushdata1', 'v1_32_pushdata1', b'\x51\x4c\x20' + h32))
    return S


def sub_near(case):
    """case = [net, class, name, script hex]: a non-standard script must not be shown as a standard destination
    of another script (the two directions would not be inverse)."""
    from bitcoinlib.transactions import Output
    net, cls, name, sh = case
    s = bytes.fromhex(sh)
    acc = _Acc()
    for way, f in (('Output(lock_script)', lambda: Output(VAL, lock_script=s, network=net)),
                   ('add_output(lock_script)', lambda: _tx_out(net, lock_script=s))):
        obs = _observe(f)
        acc.n += 1
        if 'exc' in obs:
            acc.label('refused')
            continue
        acc.compared += 1
        if obs['script'] != s:
            acc.dev('%s|nonstandard_script_bytes_changed' % way, {'net': net, 'script': sh, 'got': obs['script'].hex()})
            continue
        ad = obs['address']
        if obs['type'] in FIVE and ad:
            hit = [x for x in RA.decode_address(ad) if x[0] == net]
            if hit:
                n, k, p, v = hit[0]
                ref = _dest(net, k if k in ('p2pkh', 'p2sh') else 'wit', v or 0, p)[1]
                if ref != s:
                    same_items = cls == 'pushdata1' and _items(ref) == _items(s)
                    acc.dev('%s|%s' % (way, 'pushdata1_form_of_template_reported_as_the_standard_destination'
                                       if same_items else 'nonstandard_%s_variant_reported_with_address_of_other_script'
                                       % cls),
                            {'net': net, 'name': name, 'script': sh, 'address': ad, 'reported_type': obs['type'],
                             'script_of_address': ref.hex()})
                    continue
                acc.label('witness_other_consistent')
                continue
        acc.label('not_shown_as_standard' if obs['type'] not in FIVE else 'standard_label_without_valid_address')
    return {'devs': acc.devs, 'n': acc.n, 'nt': True if acc.compared else [], 'out': acc.out}


# ---------------------------------------------------------------------------------- sub: keyhist
# Histories on ONE key object that is then used as a destination.  Every event is a query (or a documented
# state change) of the key; none of them changes which destination the key stands for, except network_change
# (then the expectation follows the new network) - see RULE.
_ENCS = (None, 'base58', 'bech32')
_STYPES = (None, 'p2pkh', 'p2sh', 'p2wpkh', 'p2wsh', 'p2sh_p2wpkh', 'p2tr')
KEY_EVENTS = ['address(%s,%s)' % (e, t) for e in _ENCS for t in _STYPES] + [
    'address(prefix=other_p2pkh)', 'address(prefix=other_p2sh,p2sh)', 'address(prefix=other_hrp,bech32)',
    'address(compressed=False)', 'address(compressed=True)', 'address_uncompressed()', 'address_obj', 'hash160',
    'public_byte', 'wif()', 'wif_public()', 'public()', 'as_dict()', 'network_change(other)', 'network_change(own)',
    'Output(address=k)', 'add_output(address=k)']


def _other_net(net):
    return 'testnet' if nets.p2pkh_ver(net) != nets.p2pkh_ver('testnet') else 'bitcoin'


def _key_event(k, ev, st):
    """Apply one event to key k; st = {'net': current network, 'own': ..., 'returned': [address strings]}"""
    from bitcoinlib.transactions import Output
    other = _other_net(st['own'])
    r = None
    if ev.startswith('address(') and '=' not in ev:
        e, t = ev[8:-1].split(',')
        kw = {}
        if e != 'None':
            kw['encoding'] = e
        if t != 'None':
            kw['script_type'] = t
        r = k.address(**kw)
    elif ev == 'address(prefix=other_p2pkh)':
        r = k.address(prefix=nets.p2pkh_ver(other))
    elif ev == 'address(prefix=other_p2sh,p2sh)':
        r = k.address(prefix=nets.p2sh_ver(other), script_type='p2sh')
    elif ev == 'address(prefix=other_hrp,bech32)':
        r = k.address(prefix=nets.hrp(other), encoding='bech32')
    elif ev == 'address(compressed=False)':
        r = k.address(compressed=False)
    elif ev == 'address(compressed=True)':
        r = k.address(compressed=True)
    elif ev == 'address_uncompressed()':
        r = k.address_uncompressed()
    elif ev == 'address_obj':
        r = k.address_obj.address
    elif ev == 'hash160':
        k.hash160
    elif ev == 'public_byte':
        k.public_byte
    elif ev == 'wif()':
        k.wif()
    elif ev == 'wif_public()':
        k.wif_public() if hasattr(k, 'wif_public') else k.wif()
    elif ev == 'public()':
        k.public()
    elif ev == 'as_dict()':
        k.as_dict()
    elif ev == 'network_change(other)':
        k.network_change(other)
        st['net'] = other
    elif ev == 'network_change(own)':
        k.network_change(st['own'])
        st['net'] = st['own']
    elif ev == 'Output(address=k)':
        Output(VAL, address=k, network=st['net'])
    elif ev == 'add_output(address=k)':
        _tx_out(st['net'], address=k)
    else:
        raise ValueError(ev)
    if isinstance(r, str):
        st['returned'].append(r)


def _ref_script_of_address(a):
    """reference script of an address string under any network of the golden table, or None"""
    hit = RA.decode_address(a) if isinstance(a, str) and a else []
    if not hit:
        return None
    n, kd, pl, v = hit[0]
    return _dest(n, kd if kd in ('p2pkh', 'p2sh') else 'wit', v or 0, pl)[1]


def sub_keyhist(case):
    """case = [net, witness_type, form ('hd_priv'|'hd_pub'|'key'), secret, [events]]"""
    from bitcoinlib.transactions import Output
    from bitcoinlib.keys import HDKey, Key
    net, wt, form, d, hist = case
    pub = secp.ser(secp.pub(d))
    pubu = secp.ser(secp.pub(d), False)
    h = codec.hash160(pub)
    acc = _Acc()
    if form == 'hd_priv':
        k = HDKey(key=d.to_bytes(32, 'big'), chain=b'\x07' * 32, network=net, witness_type=wt)
    elif form == 'hd_pub':
        k = HDKey(key=pub, chain=b'\x07' * 32, network=net, witness_type=wt, is_private=False)
    else:
        k = Key(d.to_bytes(32, 'big'), network=net)
    st = {'net': net, 'own': net, 'returned': []}
    refused = 0
    for ev in hist:
        try:
            _key_event(k, ev, st)
        except Exception:
            refused += 1          # a refused query (e.g. bech32 address of an uncompressed key) is no event
    cur = st['net']
    det0 = {'net': net, 'witness_type': wt, 'form': form, 'secret': d, 'history': hist, 'network_now': cur}
    hl = 'after_%d_calls' % len(hist)

    def classify(way, obs, a, spk, std):
        """deviation classes of an output that should be the key's own destination (a, spk, std)"""
        acc.n += 1
        if 'exc' in obs:
            asked_unc = any(e in ('address(compressed=False)', 'address_uncompressed()') for e in hist)
            if asked_unc and obs['exc'] == 'BKeyError' and 'Uncompressed keys' in obs['msg']:
                acc.dev('%s|key_history|key_refused_as_uncompressed_after_an_uncompressed_address_query' % way,
                        dict(det0, msg=obs['msg']))
            else:
                acc.dev('%s|key_history|refused_%s' % (way, obs['exc']), dict(det0, msg=obs['msg']))
            return
        acc.compared += 1
        C = []
        hu = codec.hash160(pubu)
        unc = {'legacy': _dest(cur, 'p2pkh', 0, hu), 'segwit': _dest(cur, 'wit', 0, hu),
               'p2sh-segwit': _dest(cur, 'p2sh', 0, codec.hash160(b'\x00\x14' + hu))}[wt]
        if obs['script'] != spk:
            if obs['script'] == unc[1]:
                C.append('script_pays_the_uncompressed_key_after_an_uncompressed_address_query')
            elif obs['script'] == _ref_script_of_address(obs['address']) and obs['address'] in st['returned']:
                C.append('script_follows_an_earlier_address_query')
            else:
                C.append('script_unexplained')
        if obs['address'] != a:
            if obs['address'] == unc[0]:
                C.append('address_of_the_uncompressed_key_after_an_uncompressed_address_query')
            elif obs['address'] in st['returned']:
                C.append('reported_address_is_the_result_of_an_earlier_address_query')
            elif obs['address'] is None:
                C.append('address_raises_%s' % obs.get('address_exc'))
            else:
                C.append('address_unexplained')
        if obs['type'] != std:
            C.append('type_%s_reported_as_%s' % (std, _lab(obs['type'])))
        # inverse law, independent of what the expectation is
        back = _ref_script_of_address(obs['address'])
        if obs['address'] and back is not None and back != obs['script']:
            C.append('reported_address_and_script_are_not_inverse')
        if obs['net'] != cur:
            C.append('output_network_differs_from_key_network')
        for c in C:
            acc.dev('%s|key_history|%s' % (way, c), dict(det0, got_script=obs['script'].hex(), got_address=obs['address'],
                                                         got_type=obs['type'], expected_address=a,
                                                         expected_script=spk.hex()))
        if not C:
            acc.label('ok_%s_%s' % (form, hl))

    def consistent(way, obs, want_addr=None, obj=None):
        """an output built from a re-used Address object / returned string: the inverse law and identity"""
        acc.n += 1
        contradictory = obj is not None and (
            (obj.encoding == 'base58' and obj.script_type in ('p2wpkh', 'p2wsh', 'p2tr')) or
            (obj.encoding == 'bech32' and obj.script_type in ('p2pkh', 'p2sh', 'p2sh_p2wpkh', 'p2sh_p2wsh')))
        if obj is not None and not contradictory:
            # an explicitly requested prefix that is not the one of the object's own script type and network
            n = obj.network.name
            own = nets.hrp(n) if obj.encoding == 'bech32' else \
                (nets.p2pkh_ver(n) if obj.script_type in ('p2pkh', 'p2pk') else nets.p2sh_ver(n))
            contradictory = obj.prefix != own
        if 'exc' in obs:
            acc.label('reused_object_refused')
            return
        acc.compared += 1
        C = []
        if want_addr is not None and obs['address'] != want_addr:
            C.append('output_address_differs_from_the_object_address')
        back = _ref_script_of_address(obs['address'])
        if back is not None and back != obs['script']:
            # (an Address object the caller asked for with a script type that contradicts its encoding, e.g.
            #  key.address(script_type='p2wpkh') in base58, is named apart from objects the library made itself)
            p2shseg = obj is not None and obj.script_type in ('p2sh_p2wpkh', 'p2sh_p2wsh') and \
                obs['script'] == RA.spk_witness(0, bytes(obj.hash_bytes))
            C.append('address_object_with_contradictory_script_type_encoding_or_prefix_gives_script_of_the_type_not_of_the_address'
                     if contradictory else 'p2sh_segwit_address_object_gives_witness_v0_script_over_the_script_hash'
                     if p2shseg else 'reported_address_and_script_are_not_inverse')
        if back is None and obs['type'] in FIVE and obs['address']:
            C.append('standard_type_with_invalid_address')
        for c in C:
            acc.dev('%s|key_history|%s' % (way, c), dict(
                det0, got_script=obs['script'].hex(), got_address=obs['address'], object_address=want_addr,
                object_type=[getattr(obj, 'script_type', None), getattr(obj, 'encoding', None)]))
        if not C:
            acc.label('ok_reused_%s' % hl)

    if form != 'key':
        kind, ver, payload = {'legacy': ('p2pkh', 0, h), 'segwit': ('wit', 0, h),
                              'p2sh-segwit': ('p2sh', 0, codec.hash160(b'\x00\x14' + h))}[wt]
        a, spk, std = _dest(cur, kind, ver, payload)
        classify('Output(address=HDKey)', _observe(lambda: Output(VAL, address=k, network=cur)), a, spk, std)
        classify('add_output(address=HDKey)', _observe(lambda: _tx_out(cur, address=k)), a, spk, std)
        first = _observe(lambda: Output(VAL, address=k, network=cur))
        again = _observe(lambda: Output(VAL, address=k, network=cur))
        if again != first:      # building an output must not change what the next one looks like
            classify('Output(address=HDKey) second time', again, a, spk, std)
    # the Address object the key hands out (whatever it is now) and the string of a default query
    try:
        ao = k.address_obj
        ao_addr = ao.address
    except Exception:
        ao = None
    if ao is not None:
        consistent('Output(address=key.address_obj)', _observe(lambda: Output(VAL, address=ao, network=cur)), ao_addr,
                   ao)
        consistent('add_output(address=key.address_obj)', _observe(lambda: _tx_out(ao.network.name, address=ao)),
                   ao_addr, ao)
    try:
        s_now = k.address()
    except Exception:
        s_now = None
    if s_now and RA.decode_address(s_now) and any(x[0] == cur for x in RA.decode_address(s_now)):
        consistent('Output(address=key.address())', _observe(lambda: Output(VAL, address=s_now, network=cur)), s_now)
    _judge_any(acc, 'Output(public_key=key.public_byte)|key_history', cur, codec.hash160(bytes(k.public_byte)),
               _observe(lambda: Output(VAL, public_key=k.public_byte, network=cur)))
    return {'devs': acc.devs, 'n': acc.n, 'nt': True if acc.compared else [],
            'out': dict(acc.out, **({'history_calls_refused': refused} if refused else {}))}


# ---------------------------------------------------------------------------------- sub: addrstr
# The address STRING space beyond the canonical strings the reference encoders produce for the networks of the
# golden table: every spelling of a segwit address (lower, UPPER - both valid per BIP173 - and mixed case), every
# human-readable part around the known ones (unknown chains, one character less / more), all 256 Base58Check version
# bytes, and the invalid neighbours of valid strings (checksum, checksum variant, re-labelled HRP, program length /
# version / padding, payload length).  Oracle: the strict reference decoders (BIP173/BIP350, Base58Check) and the
# golden prefix table decide for every (string, transaction network) whether the string IS an address of that network
# and which script it stands for; everything else must be refused, whatever the library's decoder reports as the
# string's network (a list, one name, [] or '').
_KNOWN_HRPS = sorted({nets.hrp(n) for n in nets.NAMES})
_KNOWN_VERS = sorted({nets.p2pkh_ver(n) for n in nets.NAMES} | {nets.p2sh_ver(n) for n in nets.NAMES})
_FOREIGN_HRPS = ['grs', 'vtc', 'ex', 'tex']           # chains the library does not know
_QUICK_NEAR = ['bc', 'tb', 'ltc']                     # quick tier: neighbours of these HRPs only
_SPELLINGS = ('lower', 'upper', 'hrp_upper', 'data_upper', 'one_char_upper')
_SEGWIT_INVALID = ('checksum_char_changed', 'checksum_of_other_bech32_variant', 'hrp_relabelled',
                   'witness_version_17', 'v0_program_length_not_20_or_32', 'program_too_short', 'program_too_long',
                   'padding_invalid')
_BASE58_INVALID = ('checksum_char_changed', 'payload_19_bytes', 'payload_21_bytes', 'payload_32_bytes')


def _near_hrps(known):
    """HRPs one edit away from a known one (not themselves known); '1' inside an HRP is legal (last '1' separates)"""
    out = []
    for h in known:
        for c in (h[:-1], h[1:], h + 'x', 'x' + h, h + '1', h + h):
            if c and c not in _KNOWN_HRPS and c not in out:
                out.append(c)
    return out


def _spell(a, how):
    pos = a.rfind('1')
    if how == 'lower':
        return a
    if how == 'upper':
        return a.upper()
    if how == 'hrp_upper':
        return a[:pos].upper() + a[pos:]
    if how == 'data_upper':
        return a[:pos] + a[pos:].upper()
    # one letter of the data part in upper case
    for i in range(pos + 1, len(a)):
        if a[i].isalpha():
            return a[:i] + a[i].upper() + a[i + 1:]
    raise AssertionError(a)


def _segwit_invalid(hrp, ver, prog, how, other_hrp):
    """a string one step away from the valid address (hrp, ver, prog) that is NOT a valid segwit address"""
    const = codec.BECH32_CONST if ver == 0 else codec.BECH32M_CONST
    data = [ver] + codec.convertbits(prog, 8, 5)
    if how == 'checksum_char_changed':
        a = codec.bech32_encode(hrp, data, const)
        return a[:-1] + codec.CHARSET[(codec.CHARSET.index(a[-1]) + 1) % 32]
    if how == 'checksum_of_other_bech32_variant':
        return codec.bech32_encode(hrp, data, codec.BECH32M_CONST if ver == 0 else codec.BECH32_CONST)
    if how == 'hrp_relabelled':     # data part and checksum of the address of one network behind the HRP of another
        a = codec.bech32_encode(other_hrp, data, const)
        return hrp + a[a.rfind('1'):]
    if how == 'witness_version_17':
        return codec.bech32_encode(hrp, [17] + data[1:], codec.BECH32M_CONST)
    if how == 'v0_program_length_not_20_or_32':
        return codec.bech32_encode(hrp, [0] + codec.convertbits((prog * 21)[:21], 8, 5), codec.BECH32_CONST)
    if how == 'program_too_short':
        return codec.bech32_encode(hrp, [ver or 1] + codec.convertbits(prog[:1], 8, 5), codec.BECH32M_CONST)
    if how == 'program_too_long':
        return codec.bech32_encode(hrp, [ver or 1] + codec.convertbits((prog * 41)[:41], 8, 5), codec.BECH32M_CONST)
    if how == 'padding_invalid':
        d = list(data)
        if len(prog) * 8 % 5 == 0:
            d.append(0)             # a whole group of padding
        else:
            d[-1] |= 1              # non-zero padding bit
        return codec.bech32_encode(hrp, d, const)
    raise ValueError(how)


def _base58_invalid(ver, payload, how):
    if how == 'checksum_char_changed':
        a = codec.b58check_encode(ver + payload)
        return a[:-1] + codec.B58[(codec.B58.index(a[-1]) + 1) % 58]
    ln = {'payload_19_bytes': 19, 'payload_21_bytes': 21, 'payload_32_bytes': 32}[how]
    return codec.b58check_encode(ver + (payload + payload)[:ln])


def _readings(s, net):
    """strict reference readings of s as an address of network net: [(script, standard kind or None, kind, ver,
    payload)]"""
    out = []
    for n, k, p, v in RA.decode_address(s):
        if n == net:
            if k in ('p2pkh', 'p2sh'):
                out.append((_dest(net, k, 0, p)[1], k, k, 0, p))
            else:
                out.append((RA.spk_witness(v, p), _wkind(v, len(p)), 'wit', v, p))
    return out


def _string_class(s, fam):
    """What a string that is no address of the transaction network is - by the reference decoders alone."""
    d = codec.segwit_decode(s)
    if d is not None:
        if d[0] in _KNOWN_HRPS:
            return 'foreign_network_address_in_upper_case' if s != s.lower() else 'foreign_network_address'
        return 'address_with_hrp_of_no_known_network'
    p = codec.b58check_decode(s)
    if p is not None and len(p) == 21:
        return 'foreign_network_address' if p[:1] in _KNOWN_VERS else 'base58_address_with_version_byte_of_no_network'
    return 'invalid_address_string(%s)' % fam


def _addr_strings(seed, quick):
    """[(family, encoding, string)] - the same list for every transaction network; canonical order"""
    pl = {k: [bytes(range(1, k + 1)), _fill(seed, 's', k)] for k in (2, 20, 32, 40)}
    if not quick:
        for k in pl:
            pl[k] += [b'\x00' * k, b'\xff' * k]
    kinds = [(0, 20), (0, 32), (1, 32)] if quick else [(0, 20), (0, 32), (1, 32), (1, 20), (2, 32), (16, 2), (16, 40)]
    hrps = _KNOWN_HRPS + _FOREIGN_HRPS + _near_hrps(_QUICK_NEAR if quick else _KNOWN_HRPS)
    S = []
    for hrp in hrps:
        for ver, ln in kinds:
            for p in pl[ln]:
                a = codec.segwit_encode(hrp, ver, p)
                for sp in _SPELLINGS:
                    s = _spell(a, sp)
                    valid = sp in ('lower', 'upper')
                    assert (codec.segwit_decode(s) == (hrp, ver, p)) if valid else codec.segwit_decode(s) is None
                    S.append(('segwit_' + ('spelling_' + sp if valid else 'mixed_case'), 'bech32', s))
    for i, hrp in enumerate(_KNOWN_HRPS):
        other = _KNOWN_HRPS[(i + 1) % len(_KNOWN_HRPS)]
        for ver, ln in kinds:
            for p in pl[ln][:1 if quick else 2]:
                for how in _SEGWIT_INVALID:
                    s = _segwit_invalid(hrp, ver, p, how, other)
                    for sp in ('lower', 'upper'):
                        s2 = _spell(s, sp)
                        assert codec.segwit_decode(s2) is None and codec.b58check_decode(s2) is None, s2
                        S.append(('segwit_' + how, 'bech32', s2))
    for v in range(256):
        for p in pl[20][:1 if quick else 4]:
            s = codec.b58check_encode(bytes([v]) + p)
            assert codec.b58check_decode(s) == bytes([v]) + p
            S.append(('base58check_version_byte', 'base58', s))
    for v in _KNOWN_VERS:
        for p in pl[20]:
            for how in _BASE58_INVALID:
                s = _base58_invalid(v, p, how)
                d = codec.b58check_decode(s)
                assert (d is None or len(d) != 21) and codec.segwit_decode(s) is None, s
                S.append(('base58_' + ('payload_length_not_20' if how.startswith('payload') else how), 'base58', s))
    return S


def sub_addrstr(case):
    """case = [transaction network B, [[family, encoding, string], ...]]"""
    from bitcoinlib.transactions import Output
    from bitcoinlib.keys import Address, deserialize_address
    net, items = case
    acc = _Acc()
    keys = set()
    for fam, enc, s in items:
        rd = _readings(s, net)
        cls = None if rd else _string_class(s, fam)
        canonical = s == s.lower() if enc == 'bech32' else True
        det0 = {'string': s, 'family': fam, 'tx_net': net, 'string_is': cls or 'address_of_the_network'}
        try:
            ao = Address.parse(s, network=net)
            ao_exc = None
        except Exception as e:
            ao, ao_exc = None, e

        def raise_(e):
            raise e
        ways = [('Output(address=str)', lambda: Output(VAL, address=s, network=net)),
                ('add_output(address=str)', lambda: _tx_out(net, address=s)),
                ('Output(address=str,encoding)', lambda: Output(VAL, address=s, encoding=enc, network=net)),
                ('Output(address=Address.parse(str,network))',
                 lambda: Output(VAL, address=ao, network=net) if ao is not None else raise_(ao_exc)),
                ('add_output(address=Address.parse(str,network))',
                 lambda: _tx_out(net, address=ao) if ao is not None else raise_(ao_exc))]
        if not rd:
            # the string handed over TOGETHER with a locking script / a hash and type (as providers and caches do):
            # redundant attributes must not switch the validation of the string off
            fixed = bytes.fromhex('0014' + '5a' * 20)
            ways += [('Output(address=str,lock_script)', lambda: Output(VAL, address=s, lock_script=fixed, network=net)),
                     ('add_output(address=str,lock_script)', lambda: _tx_out(net, address=s, lock_script=fixed)),
                     ('Output(address=str,public_hash,script_type)',
                      lambda: Output(VAL, address=s, public_hash=b'\x5a' * 20, script_type='p2wpkh', network=net))]
        for way, f in ways:
            obs = _observe(f)
            acc.n += 1
            det = dict(det0, way=way)
            if not rd:
                if 'exc' in obs:
                    acc.label('refused_' + cls.split('(')[0])
                else:
                    acc.compared += 1
                    keys.add('%s|%s' % (net, cls))
                    acc.dev('%s|%s_accepted' % (way, cls),
                            dict(det, got_script=obs['script'].hex(), got_address=obs['address'],
                                 output_network=obs['net']))
                continue
            stds = [r[1] for r in rd]
            if 'exc' in obs:
                if canonical and all(stds):
                    acc.dev('%s|address_valid_for_network_refused_%s' % (way, obs['exc']), dict(det, msg=obs['msg']))
                elif all(stds):
                    acc.label('upper_case_spelling_of_own_address_refused')      # (not demanded, see ASSUMPTIONS)
                else:
                    acc.label('nonstandard_refused')
                continue
            acc.compared += 1
            keys.add('%s|own|%s' % (net, fam))
            hit = [r for r in rd if r[0] == obs['script']]
            C = []
            if not hit:
                C.append(_script_class(rd[0][2], rd[0][3], rd[0][4], rd[0][0], obs['script']))
            spk, std, kind, ver, payload = hit[0] if hit else rd[0]
            ga = obs['address']
            if not (ga == s or (enc == 'bech32' and ga == s.lower())):
                hrp_as_written = s[:s.rfind('1')]
                if enc == 'bech32' and ga == codec.segwit_encode(hrp_as_written, ver, payload) and ga != ga.lower():
                    C.append('address_reencoded_over_the_upper_case_hrp_is_a_mixed_case_string')
                elif std or _valid_somewhere(ga):
                    C.append(_addr_class(net, kind, ver, payload, ga, obs.get('address_exc')))
            if std and obs['type'] != std:
                C.append('type_%s_reported_as_%s' % (std, _lab(obs['type'])))
            if obs['net'] != net:
                C.append('output_network_differs_from_transaction_network')
            for c in C:
                acc.dev('%s|%s' % (way, c), dict(det, got_script=obs['script'].hex(), got_address=ga,
                                                 got_type=obs['type'], expected_script=spk.hex()))
            if not C:
                acc.label('ok_' + ('canonical' if canonical else 'upper_case') + '_own_address')
        # the decoder itself, told the network: it may refuse or name other networks, but must not present a
        # string that is no address of the network as one, nor another payload
        acc.n += 1
        try:
            d = deserialize_address(s, network=net)
        except Exception:
            d = None
            acc.label('decoder_refused')
        if d is not None:
            acc.compared += 1
            claims = d.get('network') == net or net in (d.get('networks') or [])
            if not rd:
                if claims:
                    acc.dev('deserialize_address(str,network)|%s_reported_as_address_of_the_network' % cls,
                            dict(det0, got_network=d.get('network'), got_networks=d.get('networks')))
                else:
                    acc.label('decoder_names_other_or_no_network')
            elif d['public_key_hash_bytes'] not in [r[4] for r in rd]:
                acc.dev('deserialize_address(str,network)|payload_differs',
                        dict(det0, got=d['public_key_hash_bytes'].hex()))
            else:
                acc.label('decoder_ok' if claims else 'decoder_does_not_recognise_upper_case_own_address')
    return {'devs': acc.devs, 'n': acc.n, 'nt': sorted(keys), 'out': acc.out}


SUBS = {'dest': sub_dest, 'keys': sub_keys, 'cross': sub_cross, 'cross_hd': sub_cross_hd, 'near': sub_near,
        'keyhist': sub_keyhist, 'addrstr': sub_addrstr}


# ------------------------------------------------------------------------------- enumeration
def _fill(seed, tag, k):
    out = b''
    c = 0
    while len(out) < k:
        out += hashlib.sha256(('C05|%d|%s|%d' % (seed, tag, c)).encode()).digest()
        c += 1
    return out[:k]


def _payloads(k, seed, quick):
    P = [b'\x00' * k, b'\xff' * k, bytes(range(k)), b'\x00' * (k - 1) + b'\x01', b'\x01' + b'\x00' * (k - 1),
         b'\x61' * k,                                  # ASCII 'a...': looks like a hex string
         b'0123456789abcdefABCDEF0123456789abcdefABCDEF'[:k],    # ASCII hex digits
         _fill(seed, 'p', k)]
    # payloads that look like the start of something a decoder might strip: witness version opcode + push length of
    # the rest (any length the payload could be taken for), a complete P2PKH/P2SH/witness script head, a length
    # prefix, a Base58 version byte
    if k > 4:
        ops = [0x00, 0x51, 0x60] if quick else [0x00] + list(range(0x51, 0x61))
        for op in ops:
            for ln in (k - 2, k - 1, k):
                P.append(bytes([op, ln]) + _fill(seed, 'h', k - 2))
        for head in (b'\x00\x14', b'\x00\x20', b'\x51\x20', b'\x76\xa9\x14', b'\xa9\x14', bytes([k]), bytes([k - 1]),
                     b'\x05', b'\x6f', b'\xc4', b'\x30'):
            P.append(head + _fill(seed, 'h', k - len(head)))
    if not quick:
        P += [_fill(seed, 'q%d' % i, k) for i in range(24)]
        for i in range(k):      # walking high bit / low bit
            P.append(b'\x00' * i + b'\x80' + b'\x00' * (k - 1 - i))
            P.append(b'\xff' * i + b'\xfe' + b'\xff' * (k - 1 - i))
    seen = []
    for p in P:
        if p not in seen:
            seen.append(p)
    return seen


def _dests(seed, quick):
    D = []
    for kind in ('p2pkh', 'p2sh'):
        for p in _payloads(20, seed, quick):
            D.append([kind, 0, p.hex()])
    for ver in range(17):
        for ln in ((20, 32) if ver == 0 else (2, 20, 32, 40)):
            for p in _payloads(ln, seed, quick):
                D.append(['wit', ver, p.hex()])
    return D


def run(ctx):
    q = ctx.quick
    seed = ctx.seed
    only = getattr(ctx, 'only', None)

    def want(name):
        return not only or name in only
    D = _dests(seed, q)
    if want('dest'):
        # simplest first: standard destinations on bitcoin, then the rest
        cases = [[net] + d for net in nets.NAMES for d in D]
        cases.sort(key=lambda c: (0 if (c[1] != 'wit' or _wkind(c[2], len(c[3]) // 2)) else 1))
        ctx.pmap('dest', cases)
    secrets = [1, 2, 3, secp.N - 1, int.from_bytes(_fill(seed, 'k', 32), 'big') % (secp.N - 1) + 1]
    if not q:
        secrets += [int.from_bytes(_fill(seed, 'k%d' % i, 32), 'big') % (secp.N - 1) + 1 for i in range(11)]
    if want('keys'):
        ctx.pmap('keys', [[net, d, c] for net in nets.NAMES for d in secrets for c in (True, False)])
    h20 = _fill(seed, 'x', 20)
    h32 = _fill(seed, 'x', 32)
    if want('cross'):
        kinds = [['p2pkh', 0, 20], ['p2sh', 0, 20], ['wit', 0, 20], ['wit', 0, 32], ['wit', 1, 32], ['wit', 2, 32],
                 ['wit', 16, 2]]
        pls = {20: [bytes(range(20)), h20], 32: [bytes(range(32)), h32], 2: [b'\x00\x01', h20[:2]]}
        if not q:
            for k in pls:
                pls[k] += [b'\x00' * k, b'\xff' * k]
        cases = [[a, b, k, v, p.hex()] for a in nets.NAMES for b in nets.NAMES for k, v, ln in kinds for p in pls[ln]]
        ctx.pmap('cross', cases)
    if want('cross_hd'):
        ctx.pmap('cross_hd', [[a, b, wt, d] for a in nets.NAMES for b in nets.NAMES
                              for wt in ('legacy', 'segwit', 'p2sh-segwit') for d in secrets[:2 if q else 5]])
    if want('near'):
        cases = []
        for hh20, hh32 in ((bytes(range(1, 21)), bytes(range(1, 33))), (h20, h32)):
            for cls, name, s in _near_scripts(hh20, hh32):
                for net in nets.NAMES:
                    cases.append([net, cls, name, s.hex()])
        ctx.pmap('near', cases)
    if want('keyhist'):
        import itertools
        depth = 2 if q else 3
        hnets = ['bitcoin', 'litecoin'] if q else ['bitcoin', 'litecoin', 'testnet', 'dogecoin']
        cases = []
        for L in range(0, depth + 1):
            for hist in itertools.product(KEY_EVENTS, repeat=L):
                if L == 3 and not any(e.startswith('address') or e.startswith('network') for e in hist[:2]):
                    continue    # (depth 3 only behind a state-changing prefix; pure getters are covered at depth 2)
                for net in (hnets if L <= 2 else hnets[:1]):
                    for wt in ('legacy', 'segwit', 'p2sh-segwit'):
                        for form in (('hd_priv', 'hd_pub') if L <= 1 else ('hd_priv',)):
                            cases.append([net, wt, form, secrets[L % 3], list(hist)])
                    if L <= 2:
                        cases.append([net, 'legacy', 'key', secrets[L % 3], list(hist)])
        ctx.pmap('keyhist', cases)
        ctx.note('key_histories', {'events': KEY_EVENTS, 'max_length': depth, 'networks': hnets, 'cases': len(cases)})
    if want('addrstr'):
        S = _addr_strings(seed, q)
        fams = {}
        for fam, enc, s in S:
            fams[fam] = fams.get(fam, 0) + 1
        B = 48
        cases = [[net, [list(x) for x in S[i:i + B]]] for i in range(0, len(S), B) for net in nets.NAMES]
        ctx.pmap('addrstr', cases)
        ctx.note('address_strings', {
            'strings': len(S), 'per_family': fams, 'transaction_networks': len(nets.NAMES),
            'known_hrps': _KNOWN_HRPS, 'other_hrps': _FOREIGN_HRPS + _near_hrps(_QUICK_NEAR if q else _KNOWN_HRPS),
            'spellings': list(_SPELLINGS), 'base58check_version_bytes': '0..255',
            'ways_per_string_and_network': 6, 'cases': len(cases)})
    ctx.note('bounds', {
        'networks': nets.NAMES, 'witness_versions': '0..16', 'program_lengths': [2, 20, 32, 40],
        'payloads_per_length': len(_payloads(20, seed, q)), 'destinations_per_network': len(D),
        'secrets': len(secrets), 'network_pairs': len(nets.NAMES) ** 2})
