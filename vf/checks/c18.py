"""C18 Wire primitives (CompactSize, script numbers, pushes) are canonical and round-trip.

E1 input-space enumeration on the real functions against the reference codecs (vf/ref/codec.py).
"""
import io
import itertools
from io import BytesIO

from vf.ref import codec

ID = 'C18'
LEVEL = 'exploration'
RULE = ('exhaustive enumeration of stated integer ranges / length sets / opcode-and-push sequences; each '
        'value is encoded and decoded by the library and compared with the reference codec '
        '(Bitcoin Core WriteCompactSize, CScriptNum::serialize, minimal push opcodes); a case is '
        'non-trivial when the library returned a value that was compared (distinct by input value)')
ASSUMPTIONS = ['reference codecs in vf/ref/codec.py are validated against the published boundary tables '
               'in their self-test', 'non-minimal CompactSize on the decode side is read as written '
               '(rejection is not demanded)']


def selftest():
    codec.selftest()


def _size_class(n):
    return '1' if n < 0xfd else '3' if n <= 0xffff else '5' if n <= 0xffffffff else '9'


def sub_cs(case):
    """case = [lo, hi): every integer in the range."""
    from bitcoinlib.encoding import int_to_varbyteint, varbyteint_to_int, read_varbyteint, \
        read_varbyteint_return
    lo, hi = case
    devs = []
    nt = 0
    seen = set()

    def dev(sig, detail):
        if sig not in seen:
            seen.add(sig)
            devs.append({'sig': sig, 'detail': detail})
    for n in range(lo, hi):
        exp = codec.cs_encode(n)
        try:
            got = int_to_varbyteint(n)
        except Exception as e:
            dev('int_to_varbyteint|raises|class=%s' % _size_class(n), {'n': n, 'exc': repr(e)})
            got = None
        if got is not None:
            nt += 1
            if got != exp:
                dev('int_to_varbyteint|class=%s|got_len=%d' % (_size_class(n), len(got)),
                    {'n': n, 'expected': exp.hex(), 'got': bytes(got).hex()})
        # decode the canonical form, also with trailing garbage
        for trail in (b'', b'\xff\x01\x02\x03\x04\x05\x06\x07\x08'):
            try:
                v, sz = varbyteint_to_int(exp + trail)
            except Exception as e:
                dev('varbyteint_to_int|raises|class=%s' % _size_class(n), {'n': n, 'exc': repr(e)})
                continue
            if (v, sz) != (n, len(exp)):
                dev('varbyteint_to_int|class=%s|trail=%d' % (_size_class(n), len(trail)),
                    {'n': n, 'got': [v, sz]})
            s = BytesIO(b'\xaa' + exp + trail)
            s.read(1)
            try:
                v = read_varbyteint(s)
                pos = s.tell()
            except Exception as e:
                dev('read_varbyteint|raises|class=%s' % _size_class(n), {'n': n, 'exc': repr(e)})
                continue
            if v != n or pos != 1 + len(exp):
                dev('read_varbyteint|class=%s|trail=%d' % (_size_class(n), len(trail)),
                    {'n': n, 'got': v, 'pos': pos})
            s = BytesIO(b'\xaa' + exp + trail)
            s.read(1)
            try:
                v, raw = read_varbyteint_return(s)
                pos = s.tell()
            except Exception as e:
                dev('read_varbyteint_return|raises|class=%s' % _size_class(n), {'n': n, 'exc': repr(e)})
                continue
            if v != n or raw != exp or pos != 1 + len(exp):
                dev('read_varbyteint_return|class=%s|trail=%d' % (_size_class(n), len(trail)),
                    {'n': n, 'got': v, 'raw': raw.hex(), 'pos': pos})
    return {'devs': devs, 'n': hi - lo, 'nt': ['%d-%d' % (lo, hi)] if nt else [],
            'out': {'ok' if not devs else 'dev': 1}, 'ret': nt}


def sub_cs_nonminimal(case):
    """Decode side: every size form for a value (non-minimal forms are read as written)."""
    from bitcoinlib.encoding import varbyteint_to_int, read_varbyteint
    n = case
    devs = []
    forms = []
    if n <= 0xffff:
        forms.append(b'\xfd' + n.to_bytes(2, 'little'))
    if n <= 0xffffffff:
        forms.append(b'\xfe' + n.to_bytes(4, 'little'))
    forms.append(b'\xff' + n.to_bytes(8, 'little'))
    for f in forms:
        try:
            v, sz = varbyteint_to_int(f + b'\x07')
            v2 = read_varbyteint(BytesIO(f + b'\x07'))
        except Exception as e:   # refusing a non-canonical form is what Core does; accepted
            continue
        if (v, sz) != (n, len(f)) or v2 != n:
            devs.append({'sig': 'varbyteint_to_int|form=%d' % len(f), 'detail': {'n': n, 'form': f.hex(),
                                                                                 'got': [v, sz, v2]}})
    return {'devs': devs, 'n': len(forms)}


def sub_varstr(case):
    from bitcoinlib.encoding import varstr
    ln, fill = case
    data = bytes([fill]) * ln
    exp = codec.cs_encode(ln) + data
    devs = []
    try:
        got = bytes(varstr(data))
    except Exception as e:
        return {'devs': [{'sig': 'varstr|raises|len=%d' % ln, 'detail': repr(e)}]}
    if got != exp:
        if ln == 1:
            sig = 'varstr|len=1|byte=%02x|got=%s' % (fill, got.hex())
        else:
            sig = 'varstr|len=%d' % ln
        devs.append({'sig': sig, 'detail': {'len': ln, 'fill': fill, 'expected': exp[:12].hex(),
                                            'got': got[:12].hex()}})
    return {'devs': devs}


STR_ALPHABET = ['a', '0', ' ', '\xe9', '\xff', '\u0100', '\u20ac', '\u044f', '\u4e2d', '\U0001f600']


def sub_varstr_text(case):
    """case = list of indices into STR_ALPHABET: varstr() of a text (str is a documented input type).  Whatever bytes
    the text is turned into, the result must be a well-framed string: CompactSize prefix == number of bytes that
    follow, shortest prefix, and the bytes are the text in ISO-8859-1 or UTF-8; the same text given as those bytes
    must give the same result."""
    from bitcoinlib.encoding import varstr
    text = ''.join(STR_ALPHABET[i] for i in case)
    devs = []
    cls = 'ascii' if all(ord(ch) < 128 for ch in text) else 'latin1' if all(ord(ch) < 256 for ch in text) else 'beyond_latin1'
    try:
        got = bytes(varstr(text))
    except Exception as e:
        return {'devs': [], 'out': 'text_refused_%s' % cls}
    try:
        n, used = codec.cs_decode(got)
    except Exception:
        n, used = None, 0
    rest = got[used:]
    if n is None or n != len(rest):
        devs.append({'sig': 'varstr(str)|length_prefix_differs_from_number_of_bytes_that_follow|%s' % cls,
                     'detail': {'text': text, 'got': got.hex()[:80], 'prefix': n, 'following': len(rest)}})
    elif got[:used] != codec.cs_encode(n):
        devs.append({'sig': 'varstr(str)|prefix_not_shortest|%s' % cls, 'detail': {'text': text, 'got': got.hex()[:80]}})
    else:
        cands = [text.encode('utf-8')]
        if cls != 'beyond_latin1':
            cands.append(text.encode('latin-1'))
        if rest not in cands:
            devs.append({'sig': 'varstr(str)|payload_is_not_the_text|%s' % cls, 'detail': {'text': text, 'got': got.hex()[:80]}})
        elif bytes(varstr(rest)) != got:
            devs.append({'sig': 'varstr(str)|differs_from_varstr_of_the_same_bytes|%s' % cls, 'detail': {'text': text}})
    return {'devs': devs, 'out': 'text_%s' % cls}


def sub_num(case):
    from bitcoinlib.scripts import encode_num, decode_num
    lo, hi = case
    devs = []
    seen = set()
    for n in range(lo, hi):
        exp = codec.num_encode(n)
        try:
            got = encode_num(n)
        except Exception as e:
            got = None
            sig = 'encode_num|raises|len=%d|neg=%d' % (len(exp), n < 0)
            if sig not in seen:
                seen.add(sig)
                devs.append({'sig': sig, 'detail': {'n': n, 'exc': repr(e)}})
        if got is not None and got != exp:
            sig = 'encode_num|len=%d|neg=%d' % (len(exp), n < 0)
            if sig not in seen:
                seen.add(sig)
                devs.append({'sig': sig, 'detail': {'n': n, 'expected': exp.hex(), 'got': got.hex()}})
        try:
            back = decode_num(exp)
        except Exception as e:
            back = repr(e)
        if back != n:
            sig = 'decode_num|len=%d|neg=%d' % (len(exp), n < 0)
            if sig not in seen:
                seen.add(sig)
                devs.append({'sig': sig, 'detail': {'n': n, 'enc': exp.hex(), 'got': back}})
    return {'devs': devs, 'n': hi - lo, 'nt': ['%d:%d' % (lo, hi)]}


def sub_numdec(case):
    """decode of arbitrary byte strings (sign-bit edges, negative zero, non-minimal)."""
    from bitcoinlib.scripts import decode_num
    b = bytes.fromhex(case)
    exp = codec.num_decode(b)
    try:
        got = decode_num(b)
    except Exception as e:
        got = repr(e)
    devs = []
    if got != exp:
        devs.append({'sig': 'decode_num|bytes_len=%d|top=%02x' % (len(b), b[-1] if b else 0),
                     'detail': {'bytes': case, 'expected': exp, 'got': got}})
    return {'devs': devs}


def sub_pack(case):
    from bitcoinlib.scripts import data_pack
    ln = case
    data = bytes([0x51]) * ln
    exp = codec.push(data)
    try:
        got = data_pack(data)
    except Exception as e:
        if ln > 0xffff:
            return {'out': 'refused'}   # beyond PUSHDATA2 (and the 520-byte element limit): a refusal is fine
        return {'devs': [{'sig': 'data_pack|raises|len_class=%s' % _push_class(ln), 'detail': {'len': ln, 'exc': repr(e)}}]}
    if got != exp:
        return {'devs': [{'sig': 'data_pack|len_class=%s' % _push_class(ln),
                          'detail': {'len': ln, 'expected': exp[:6].hex(), 'got': got[:6].hex()}}]}
    return {}


def _push_class(ln):
    return 'direct' if ln < 0x4c else 'pd1' if ln <= 0xff else 'pd2' if ln <= 0xffff else 'pd4'


# alphabet of script items: (name, opcode-int or data bytes)
def _alphabet():
    A = [
        ('OP_0', 0), ('OP_1', 0x51), ('OP_16', 0x60), ('OP_1NEGATE', 0x4f), ('OP_DUP', 0x76), ('OP_IF', 0x63),
        ('OP_ENDIF', 0x68), ('OP_RETURN', 0x6a), ('OP_CHECKSIG', 0xac),
        ('p0', b''), ('p1_00', b'\x00'), ('p1_51', b'\x51'), ('p5', b'\x01\x02\x03\x04\x05'), ('p20', bytes(range(1, 21))),
        ('p33_02', b'\x02' + bytes(range(32))),
        ('p64', bytes(range(64))), ('p75', b'\x07' * 75), ('p76', b'\x08' * 76), ('p255', b'\x09' * 255),
        ('p256', b'\x0a' * 256),
    ]
    return A


def _ref_items(seq):
    A = dict(_alphabet())
    raw = b''
    items = []
    for name in seq:
        it = A[name]
        if isinstance(it, int):
            raw += bytes([it])
            items.append(it)
        else:
            raw += codec.push(it)
            items.append(it)
    return raw, items


def _heuristic_class(raw):
    """Which whole-script length heuristic of Script.parse_bytesio applies to this script, if any."""
    n = len(raw)
    f = raw[0] if raw else None
    if f == 0x30 and 69 <= n <= 74:
        return 'whole_script_taken_as_signature'
    if (f in (2, 3) and n == 33) or (f == 4 and n == 65):
        return 'whole_script_taken_as_key'
    if n == 64:
        return 'whole_script_len64_taken_as_data'
    return None


def _sub_tokens(data):
    try:
        return [op if d is None else d for op, d in codec.script_tokens(data)]
    except ValueError:
        return None


def _explain(raw, items, cmds):
    """Name the known mis-parse that explains cmds exactly, or None."""
    h = _heuristic_class(raw)
    if h and len(cmds) == 1 and isinstance(cmds[0], (bytes, bytearray)) and bytes(cmds[0]) == raw:
        return h
    # a data item replaced by the list of its own tokens ("sub-script" parsing of arbitrary data)
    if len(cmds) == len(items):
        hit = False
        for c, i in zip(cmds, items):
            if isinstance(i, int):
                if not (isinstance(c, int) and c == i):
                    return None
            elif isinstance(c, list):
                t = _sub_tokens(i)
                if t is None or not _same_items(c, t):
                    return None
                hit = True
            elif not (isinstance(c, (bytes, bytearray)) and bytes(c) == i):
                return None
        if hit:
            return 'data_parsed_as_subscript'
    if len(items) == 1 and not isinstance(items[0], int):
        # a script consisting of one push whose data parses as a script is flattened into that script
        t = _sub_tokens(items[0])
        if t is not None and _same_items(cmds, t):
            return 'data_parsed_as_subscript'
    return None


def sub_script(case):
    """case = list of alphabet names (or {'raw': hex} for a raw script given by its bytes)."""
    from bitcoinlib.scripts import Script, ScriptError
    if isinstance(case, dict):
        raw = bytes.fromhex(case['raw'])
        items = [op if d is None else d for op, d in codec.script_tokens(raw)]
    else:
        raw, items = _ref_items(case)
    devs = []
    outs = []
    for entry in ('parse_bytes', 'parse', 'parse_hex', 'parse_stream', 'parse_hexstr'):
        try:
            if entry == 'parse_bytes':
                s = Script.parse_bytes(raw)
            elif entry == 'parse':
                s = Script.parse(raw)
            elif entry == 'parse_stream':
                s = Script.parse(io.BytesIO(raw))
            elif entry == 'parse_hexstr':
                s = Script.parse(raw.hex())         # the generic entry point given the hexadecimal text
            else:
                s = Script.parse_hex(raw.hex())
            cmds = list(s.commands)
        except Exception as e:
            h = _heuristic_class(raw)
            if isinstance(e, ScriptError) and h == 'whole_script_taken_as_signature':
                cls = h
            else:
                cls = 'raises_%s' % type(e).__name__
            devs.append({'sig': 'Script.%s|%s' % (entry, cls),
                         'detail': {'script': raw.hex()[:200], 'exc': repr(e)[:200]}})
            outs.append('raise')
            continue
        if _same_items(cmds, items):
            try:
                ser = s.serialize()
            except Exception as e:
                ser = repr(e)
            if ser != raw:
                devs.append({'sig': 'Script.%s|items_ok_serialize_differs' % entry,
                             'detail': {'script': raw.hex()[:200], 'got': ser.hex()[:200] if isinstance(ser, bytes) else ser}})
                outs.append('dev')
            else:
                outs.append('ok')
            continue
        cls = _explain(raw, items, cmds) or ('unexplained|' + _first_item_class(cmds, items))
        devs.append({'sig': 'Script.%s|%s' % (entry, cls),
                     'detail': {'script': raw.hex()[:200], 'commands': _show(cmds), 'expected': _show(items)}})
        outs.append('dev')
    return {'devs': devs, 'n': 5, 'out': outs}


def _show(items):
    out = []
    for c in items[:8]:
        out.append(c if isinstance(c, int) else (c.hex()[:24] if isinstance(c, (bytes, bytearray)) else repr(c)[:40]))
    return out


def _same_items(cmds, items):
    if len(cmds) != len(items):
        return False
    for c, i in zip(cmds, items):
        if isinstance(i, int):
            if not (isinstance(c, int) and c == i):
                return False
        elif i == b'':
            # the empty item and OP_0 are the same byte on the wire
            if not (c == 0 and isinstance(c, int)) and not (isinstance(c, (bytes, bytearray)) and bytes(c) == b''):
                return False
        else:
            if not (isinstance(c, (bytes, bytearray)) and bytes(c) == i):
                return False
    return True


def _first_item_class(cmds, items):
    for k, i in enumerate(items):
        if k >= len(cmds):
            return 'missing_item'
        c = cmds[k]
        if isinstance(i, int):
            if c != i or not isinstance(c, int):
                return 'opcode_%02x_as_%s' % (i, type(c).__name__)
        else:
            if isinstance(c, list):
                return 'data_as_list'
            if not isinstance(c, (bytes, bytearray)) or bytes(c) != i:
                return 'data_len%d_differs' % len(i)
    return 'extra_items'


def _mk(names, mode):
    """A Script object for the item sequence: built from the command list, or parsed from the reference bytes."""
    from bitcoinlib.scripts import Script
    raw, items = _ref_items(names)
    if mode == 'built':
        return Script(commands=list(items)), raw, items
    if mode == 'built_serialized':
        s = Script(commands=list(items))
        s.serialize()
        return s, raw, items
    return Script.parse_bytes(raw), raw, items


def sub_build(case):
    """Script objects built from a command list (not parsed): serialization = concatenation of the opcodes and the
    minimal pushes of the data items, by every accessor and on repeated calls; parsing it gives the items back."""
    from bitcoinlib.scripts import Script
    raw, items = _ref_items(case)
    devs, outs = [], []
    try:
        s = Script(commands=list(items))
        obs = [('serialize', s.serialize()), ('as_bytes', s.as_bytes()), ('as_hex', bytes.fromhex(s.as_hex())),
               ('serialize_again', s.serialize())]
        s2 = Script(commands=list(items))
        obs.append(('as_bytes_first', s2.as_bytes()))
        s3 = Script(commands=list(items))
        obs.append(('as_hex_first', bytes.fromhex(s3.as_hex())))
    except Exception as e:
        return {'devs': [{'sig': 'Script(commands)|raises_%s' % type(e).__name__,
                          'detail': {'items': _show(items), 'exc': repr(e)[:200]}}], 'out': 'raise'}
    for name, got in obs:
        if got != raw:
            has_empty = any(i == b'' for i in items)
            devs.append({'sig': 'Script(commands).%s|differs_from_opcodes_and_minimal_pushes%s' % (
                name, '|empty_item' if has_empty else ''),
                'detail': {'items': _show(items), 'got': got.hex()[:200], 'expected': raw.hex()[:200]}})
            outs.append('dev')
        else:
            outs.append('ok')
    if [c for c in s.commands] != items and not _same_items(list(s.commands), items):
        devs.append({'sig': 'Script(commands).commands|changed_by_serialization', 'detail': {'items': _show(items)}})
    return {'devs': devs, 'n': len(obs), 'out': outs}


def sub_concat(case):
    """a + b for two Script objects in every combination of origin (built / built and serialized / parsed): the
    sum serializes to bytes(a) + bytes(b) by every accessor and holds the items of both."""
    devs, outs = [], []
    for order in ('as_bytes_first', 'serialize_first'):
        try:
            a, ra, ia = _mk(case['a'], case['ma'])
            b, rb, ib = _mk(case['b'], case['mb'])
            if _explain(ra, ia, list(a.commands)) or _explain(rb, ib, list(b.commands)) or \
                    _heuristic_class(ra) or _heuristic_class(rb):
                outs.append('skipped_known_misparse')
                continue
            c = a + b
            if order == 'as_bytes_first':
                obs = [('as_bytes', c.as_bytes()), ('serialize', c.serialize())]
            else:
                obs = [('serialize', c.serialize()), ('as_bytes', c.as_bytes())]
            cmds = list(c.commands)
        except Exception as e:
            devs.append({'sig': 'Script.__add__|raises_%s' % type(e).__name__,
                         'detail': {'case': case, 'exc': repr(e)[:200]}})
            outs.append('raise')
            continue
        for name, got in obs:
            if got != ra + rb:
                devs.append({'sig': 'Script.__add__|%s_of_sum_is_not_the_concatenation|left_%s|right_%s|%s' % (
                    name, case['ma'], case['mb'], order),
                    'detail': {'case': case, 'got': got.hex()[:200], 'expected': (ra + rb).hex()[:200]}})
                outs.append('dev')
            else:
                outs.append('ok')
        if not _same_items(cmds, ia + ib):
            devs.append({'sig': 'Script.__add__|items_of_sum_differ', 'detail': {'case': case, 'commands': _show(cmds)}})
    return {'devs': devs, 'n': 5, 'out': outs}


SUBS = {'varstr_text': sub_varstr_text, 'build': sub_build, 'concat': sub_concat, 'cs': sub_cs, 'cs_nonminimal': sub_cs_nonminimal, 'varstr': sub_varstr, 'num': sub_num,
        'numdec': sub_numdec, 'pack': sub_pack, 'script': sub_script}

# ---- a failed call must not change what later calls answer
AF_CALLS = ['serialize', 'as_bytes', 'as_hex', 'raw', 'hash', 'add_right']


def _af_items(shape):
    big = b'\x0b' * 70000            # cannot be pushed by the library (refused)
    small = b'\x0c' * 520
    return {'big_last': [0x51, big], 'big_first': [big, 0x51], 'big_middle': [0x51, big, 0x52], 'data_then_big': [b'\x01\x02', big],
            'list_item': [0x00, b'\x05' * 71, [0x51, b'\x02' * 33, 0x51, 0xae]], 'two_big': [0x6a, big, big]}[shape], small


def _af_call(s, name):
    from bitcoinlib.scripts import Script
    try:
        if name == 'serialize':
            return ('ok', s.serialize().hex())
        if name == 'as_bytes':
            return ('ok', s.as_bytes().hex())
        if name == 'as_hex':
            return ('ok', s.as_hex())
        if name == 'raw':
            return ('ok', bytes(s.raw).hex())
        if name == 'hash':
            hash(s)
            return ('ok', 'hashed')
        if name == 'add_right':
            return ('ok', (s + Script([0x75])).as_bytes().hex())
    except Exception as e:
        return ('raise', type(e).__name__)
    raise ValueError(name)


def sub_afterfail(case):
    """case = {'shape': name}: a Script whose serialization is refused (an item that cannot be pushed).  For every
    ordered pair of calls (c1, c2): c2 after c1 on one object must answer exactly what c2 answers on a fresh object
    (differential oracle: a failed call leaves nothing behind); after the offending item is replaced, every accessor
    of the object that failed before must give the reference bytes of the repaired command list."""
    from bitcoinlib.scripts import Script
    devs, outs = [], []
    items, small = _af_items(case['shape'])
    n = 0
    for c1 in AF_CALLS:
        for c2 in AF_CALLS:
            a = Script(commands=list(items))
            r1 = _af_call(a, c1)
            r2 = _af_call(a, c2)
            b = Script(commands=list(items))
            f2 = _af_call(b, c2)
            n += 1
            outs.append('%s_then_%s' % (r1[0], r2[0]))
            if r2 != f2:
                devs.append({'sig': 'afterfail|%s_after_%s_%s_differs_from_fresh_object' % (
                    c2, 'failed' if r1[0] == 'raise' else 'successful', c1),
                    'detail': {'shape': case['shape'], 'after': str(r2)[:120], 'fresh': str(f2)[:120], 'first': str(r1)[:60]}})
        # repair: the offending items are replaced in the command list of the object that failed
        a = Script(commands=list(items))
        r1 = _af_call(a, c1)
        if r1[0] == 'raise':
            rep = [small if (isinstance(x, (bytes, list)) and (isinstance(x, list) or len(x) > 65535)) else x for x in items]
            a.commands[:] = rep
            want = b''.join(bytes([x]) if isinstance(x, int) else codec.push(x) for x in rep).hex()
            for c2 in ('serialize', 'as_bytes', 'as_hex'):
                n += 1
                got = _af_call(Script(commands=list(rep)) if False else a, c2)
                if got != ('ok', want):
                    devs.append({'sig': 'afterfail|%s_after_failed_%s_and_repair_is_not_the_script' % (c2, c1),
                                 'detail': {'shape': case['shape'], 'got': str(got)[:120], 'expected_len': len(want) // 2}})
                a = Script(commands=list(items))
                _af_call(a, c1)
                a.commands[:] = rep
    return {'devs': devs, 'n': n, 'out': outs}


SUBS['afterfail'] = sub_afterfail


def _ranges(lo, hi, step=4096):
    return [[a, min(a + step, hi)] for a in range(lo, hi, step)]


def run(ctx):
    q = ctx.quick
    seed = ctx.seed
    # ---- CompactSize
    cs = _ranges(0, (1 << 17) + 1)
    for c in (1 << 32, (1 << 64) - 1):
        w = 1 << (10 if q else 12)
        cs += _ranges(max(0, c - w), min(c + w, (1 << 64) - 1) + 1)
    # seed-positioned extra windows (never replace the boundary alphabets)
    for k, bits in enumerate((24, 31, 40, 56, 63)):
        base = (1 << bits) + (seed * 7919 + k * 104729) % (1 << (bits - 1))
        cs += _ranges(base, base + (256 if q else 4096))
    if not q:
        cs += _ranges((1 << 17) + 1, (1 << 20) + 1)
    ctx.pmap('cs', cs, chunk=1)
    vals = sorted(set([0, 1, 0xfc, 0xfd, 0xfe, 0xff, 0x100, 0xfffe, 0xffff, 0x10000, 0x10001, 0xfffffffe,
                       0xffffffff, 0x100000000, (1 << 63), (1 << 64) - 1] + list(range(0, 0x200))))
    ctx.pmap('cs_nonminimal', vals)
    # ---- varstr
    vs = [[0, 0]] + [[1, b] for b in range(256)] + [[2, 0], [2, 0xff]]
    for ln in (0xfc, 0xfd, 0xfe, 0xffff, 0x10000) + (() if q else (0x10001, 0x20000)):
        vs += [[ln, 0], [ln, 0x61]]
    ctx.pmap('varstr', vs)
    na = len(STR_ALPHABET)
    ctx.pmap('varstr_text', [list(x) for l in range(0, 4 if q else 5) for x in itertools.product(range(na), repeat=l)])
    # ---- script numbers
    nums = _ranges(-(1 << 16), (1 << 16) + 1, 2048)
    for k in range(1, 32 if q else 64):
        for c in ((1 << k), -(1 << k)):
            nums.append([c - 2, c + 3])
    if not q:
        nums += _ranges(-(1 << 20), -(1 << 16), 8192) + _ranges((1 << 16), (1 << 20), 8192)
    base = (1 << 24) + (seed * 104729) % (1 << 30)
    nums += [[base, base + 512], [-base - 512, -base]]
    ctx.pmap('num', nums, chunk=1)
    nd = [''] + ['%02x' % a for a in range(256)] + ['%02x%02x' % (a, b) for a in range(256) for b in range(256)]
    nd += ['000080', '0000008000'[:8], 'ffffff7f', 'ffffffff', '00000080', '0000000080', 'ffffffff7f',
           'ffffffffff', '800000', '808080']
    ctx.pmap('numdec', nd)
    # ---- pushes
    ctx.pmap('pack', list(range(0, 521)) + [521, 1000, 65535, 65536] + ([] if q else list(range(522, 1000))))
    # ---- scripts over the alphabet
    names_all = [n for n, _ in _alphabet()]
    # ---- Script objects built from command lists (the empty data item included), and sums of two scripts
    builds = []
    for l in range(1, 4 if q else 5):
        alpha = names_all if l <= 3 else [n for n in names_all if n not in ('p255', 'p256', 'p76', 'p75', 'p64', 'OP_16',
                                                                            'OP_1NEGATE', 'OP_IF', 'OP_ENDIF')]
        builds += [list(x) for x in itertools.product(alpha, repeat=l)]
    ctx.pmap('build', builds)
    parts = [[]] + [[n] for n in names_all] + ([] if q else [list(x) for x in itertools.product(
        ['OP_1', 'p0', 'p5', 'p20', 'OP_DUP'], repeat=2)])
    modes = ('built', 'built_serialized', 'parsed')
    ctx.pmap('concat', [{'a': a, 'b': b, 'ma': ma, 'mb': mb} for a in parts for b in parts for ma in modes for mb in modes
                        if a or b])
    ctx.pmap('afterfail', [{'shape': x} for x in ('big_last', 'big_first', 'big_middle', 'data_then_big', 'list_item',
                                                   'two_big')])
    names = [n for n in names_all if n != 'p0']      # on the wire the empty item IS OP_0
    L = 3 if q else 4
    if q:
        names_l = names
    seqs = []
    for l in range(0, L + 1):
        alpha = names if l <= 3 else [n for n in names if n not in ('p255', 'p256', 'p76', 'OP_16', 'OP_1NEGATE')]
        seqs += [list(s) for s in itertools.product(alpha, repeat=l) if l]
    ctx.pmap('script', seqs)
    # raw opcode-only scripts hitting the whole-script length heuristics and their neighbours
    raws = []
    # ... and twice / half those lengths (a length hint derived from the wrong form of the input: hex digits vs bytes)
    for ln in (1, 2, 16, 17, 32, 33, 34, 35, 36, 37, 63, 64, 65, 66, 67, 68, 69, 70, 74, 75, 127, 128, 129, 130, 131, 132,
               137, 138, 139, 140, 148, 149, 150):
        for first in (0x61, 0x02, 0x03, 0x04, 0x30, 0x51, 0x76):
            if first < 0x4c and ln - 1 < first:
                continue    # would be a truncated push: not a well-formed script
            raws.append({'raw': (bytes([first]) + bytes([0x61]) * (ln - 1)).hex()})
    ctx.pmap('script', raws)
    ctx.note('bounds', {'compactsize': '[0,2^17] + windows of 2^%d around 2^32 and 2^64-1 + 5 seed windows%s' % (
        10 if q else 12, '' if q else ' + (2^17,2^20]'), 'script_numbers': '[-2^16,2^16] + +-2^k+-2',
        'script_sequences_max_len': L, 'alphabet': names})
