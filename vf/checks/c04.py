"""C04 private key -> public key -> address mapping is exact; invalid keys are refused.

E1 input-space enumeration on Key / HDKey / Address / the encoding.py address functions against the
reference curve arithmetic (vf/ref/secp.py), the reference address encoders (vf/ref/addr.py,
vf/ref/codec.py) and the golden network table (vf/ref/nets.py).
"""
import hashlib

from vf.ref import secp, addr as raddr, codec, nets

ID = 'C04'
LEVEL = 'exploration'
RULE = ('exhaustive enumeration of stated scalar families (contiguous ranges at both ends of [1,n-1], all '
        'scalars of Hamming weight <= 2, 2^i-1, leading-zero-byte secrets, a VERIF_SEED positioned window), '
        'every scalar through Key(int, compressed) and Key(hex|bytes, uncompressed) with all reported fields and the '
        'standard addresses, and a stated subset (both edges, 2^i, the special secrets, part of the window; see '
        'coverage.bounds) through every import form (int, hex, bytes, hex+01, bytes+01) x compressed flag and '
        'HDKey; public encodings for every x '
        'in a contiguous range x both parities (compressed, uncompressed, tuple), tampered y, x>=p, foreign '
        'prefix bytes; addresses over the full product networks x {base58,bech32} x {p2pkh,p2sh_p2wpkh,p2wpkh,'
        'p2wsh,p2tr,default} x {compressed,uncompressed} x entry point; each observation is compared with the '
        'reference point d*G / reference address string; a case is non-trivial when the library returned an '
        'object or string that was compared (distinct by scalar / x / (key,network))')
ASSUMPTIONS = [
    'reference curve arithmetic, Base58Check, Bech32/Bech32m and the golden network table are validated by '
    'their self-tests (published vectors); BIP341 output key validated against the BIP86 vector',
    'the integer 0 (and any other falsy import_key) is documented as "generate a new key" and is not treated '
    'as an invalid key; 0 as bytes / hex is',
    'any exception is a refusal; Key(..., strict=False) is documented as tolerant and is not demanded to refuse',
    'hex+01 / bytes+01 private forms are only enumerated for secrets whose first byte is not 02/03/04 (those '
    'strings are indistinguishable from public keys by construction)',
    'p2tr: the library defines the witness program of a key as sha256(serialized public key) (no BIP341 '
    'tweak); the property speaks of "that key\'s hash", so only the encoding layer is demanded: witness v1, '
    'Bech32m, 32-byte program, HRP of the network; exact BIP341 output keys are checked through '
    'Address(hashed_data=Q) / pubkeyhash_to_addr_bech32',
    'p2wsh of a key: program = sha256(data handed to Address) (BIP141 hash of the given script bytes)',
    'script type / encoding pairs without a standard encoding (p2pkh+bech32, p2sh_p2wpkh+bech32, '
    'p2wpkh+base58, p2wsh+base58, p2tr+base58): a refusal or any standard address of that key on that network '
    'is accepted; only a string that is no standard address at all is a deviation',
    'uncompressed key with a witness script type: refusal or the exact encoding of the uncompressed key hash',
    'address() with script_type/encoding left None after an earlier call is documented to reuse the earlier '
    'choice; only explicit choices are demanded in call sequences',
]

N = secp.N
P = secp.P
NETS = nets.NAMES
STD = [('p2pkh', 'base58'), ('p2sh_p2wpkh', 'base58'), ('p2wpkh', 'bech32'), ('p2wsh', 'bech32'),
       ('p2tr', 'bech32')]
NONSTD = [('p2pkh', 'bech32'), ('p2sh_p2wpkh', 'bech32'), ('p2wpkh', 'base58'), ('p2wsh', 'base58'),
          ('p2tr', 'base58')]
DEFAULTS = [(None, 'base58'), (None, 'bech32'), (None, None)]


# ------------------------------------------------------------------------------- reference helpers
def _tagged(tag, msg):
    t = hashlib.sha256(tag.encode()).digest()
    return hashlib.sha256(t + t + msg).digest()


def taproot_output_key(pt):
    """BIP341 key-path-only output key (x-only, 32 bytes) of an internal key point."""
    x = pt[0]
    even = secp.lift_x(x, False)
    t = int.from_bytes(_tagged('TapTweak', x.to_bytes(32, 'big')), 'big')
    if t >= N:
        raise ValueError('tweak out of range')
    q = secp.add(even, secp.mul_g(t))
    return q[0].to_bytes(32, 'big')


def selftest():
    secp.selftest()
    codec.selftest()
    nets.selftest()
    raddr.selftest()
    ik = bytes.fromhex('cc8a4bc64d897bddc5fbc2f670f7a8ba0b386779106cf1223c6fc5d7cd6fc115')
    q = taproot_output_key(secp.lift_x(int.from_bytes(ik, 'big'), False))
    assert q.hex() == 'a60869f0dbcf1dc659c9cecbaf8050135ea9e8cdc487053f1dc6880949dc684c'
    assert codec.segwit_encode('bc', 1, q) == 'bc1p5cyxnuxmeuwuvkwfem96lqzszd02n6xdcjrs20cac6yqjjwudpxqkedrcr'
    assert secp.lift_x(5, 0) is None and secp.lift_x(1, 0) is not None


def expected_address(net, st, enc, pub):
    """Reference address for a standard (script type, encoding) pair, given the serialized public key."""
    h = codec.hash160(pub)
    if (st, enc) in (('p2pkh', 'base58'), (None, 'base58'), (None, None)):
        return raddr.addr_p2pkh(net, h)
    if (st, enc) == ('p2sh_p2wpkh', 'base58'):
        return raddr.addr_p2sh(net, codec.hash160(b'\x00\x14' + h))
    if (st, enc) in (('p2wpkh', 'bech32'), (None, 'bech32')):
        return raddr.addr_witness(net, 0, h)
    if (st, enc) == ('p2wsh', 'bech32'):
        return raddr.addr_witness(net, 0, codec.sha256(pub))
    raise KeyError((st, enc))


def all_standard_addresses(net, pub):
    h = codec.hash160(pub)
    s = codec.sha256(pub)
    return {raddr.addr_p2pkh(net, h), raddr.addr_p2sh(net, codec.hash160(b'\x00\x14' + h)),
            raddr.addr_witness(net, 0, h), raddr.addr_witness(net, 0, s), raddr.addr_witness(net, 1, s)}


def _combo(st, enc):
    return '%s+%s' % (st or 'default', enc or 'default')


def classify_address(net, st, enc, pub, got):
    """None if `got` is acceptable for the request, else the class of wrong behaviour (str)."""
    compressed = len(pub) == 33
    if not isinstance(got, str):
        return 'not_a_string'
    if (st, enc) in STD[:4] or st is None:
        exp = expected_address(net, st, enc, pub)
        if got == exp:
            return None
        return _explain_wrong(net, pub, got)
    if (st, enc) == ('p2tr', 'bech32'):
        d = codec.segwit_decode(got)
        if d is None:
            return 'p2tr_not_bech32m'
        hrp, ver, prog = d
        if hrp != nets.hrp(net):
            return 'p2tr_wrong_hrp'
        if ver != 1 or len(prog) != 32:
            return 'p2tr_wrong_version_or_length'
        return None
    # no standard encoding exists for this pair
    if got in all_standard_addresses(net, pub):
        return None
    p = codec.b58check_decode(got)
    alt = secp.ser(secp.decode_pub(pub), not compressed)
    if p is not None and len(p) == 33 and p[:1] == nets.p2pkh_ver(net) and \
            p[1:] in (codec.sha256(pub), codec.sha256(alt)):
        return 'base58check_of_32_byte_hash'
    return _explain_wrong(net, pub, got)


def _explain_wrong(net, pub, got):
    other = secp.decode_pub(pub)
    alt = secp.ser(other, len(pub) != 33)
    for n in NETS:
        if got in all_standard_addresses(n, pub):
            return 'address_of_other_type_or_network'
        if got in all_standard_addresses(n, alt):
            return 'address_of_other_compression'
    if raddr.decode_address(got):
        return 'valid_address_of_other_hash'
    return 'not_an_address'


def _devlist():
    devs = []
    seen = set()

    def dev(sig, detail):
        if sig not in seen:
            seen.add(sig)
            devs.append({'sig': sig, 'detail': detail})
    return devs, dev


def _exc(e):
    return '%s: %s' % (type(e).__name__, str(e)[:160])


# ------------------------------------------------------------------------------- valid scalars
def _observe(k):
    return {
        'secret': k.secret, 'is_private': k.is_private, 'compressed': k.compressed,
        'public_hex': k.public_hex, 'public_compressed_hex': k.public_compressed_hex,
        'public_uncompressed_hex': k.public_uncompressed_hex, 'public_byte': bytes(k.public_byte).hex(),
        'public_compressed_byte': bytes(k.public_compressed_byte).hex(),
        'public_uncompressed_byte': bytes(k.public_uncompressed_byte).hex(),
        'point': list(k.public_point()), 'xy': [k.x, k.y], 'hash160': bytes(k.hash160).hex(),
    }


def _expect(d, pt, compressed, private=True):
    pc = secp.ser(pt, True).hex()
    pu = secp.ser(pt, False).hex()
    return {
        'secret': d if private else None, 'is_private': private, 'compressed': compressed,
        'public_hex': pc if compressed else pu, 'public_compressed_hex': pc, 'public_uncompressed_hex': pu,
        'public_byte': pc if compressed else pu, 'public_compressed_byte': pc, 'public_uncompressed_byte': pu,
        'point': [pt[0], pt[1]], 'xy': [pt[0], pt[1]],
        'hash160': codec.hash160(bytes.fromhex(pc if compressed else pu)).hex(),
    }


def _compare(entry, obs, exp, dev, detail):
    ok = True
    for f in exp:
        if obs.get(f) != exp[f]:
            ok = False
            dev('%s|%s_mismatch' % (entry, f), dict(detail, field=f, got=obs.get(f), expected=exp[f]))
    return ok


def _private_forms(d):
    b = d.to_bytes(32, 'big')
    forms = [('int', d), ('hex', b.hex()), ('bytes', b)]
    if b[0] not in (2, 3, 4):
        forms.append(('bytes+01', b + b'\x01'))
    if b[0] not in (2, 3):
        forms.append(('hex+01', b.hex() + '01'))
    return forms


def sub_scalar(case):
    """case = {'ds': [hex scalars], 'i0': index of the first, 'full': bool}.

    Every scalar: Key(int, compressed=True) and Key(bytes|hex, compressed=False) on two networks chosen by
    the scalar's index, all reported fields, and the standard addresses asked from those objects (explicit
    script type and encoding).  full: additionally every import form x compressed flag and HDKey(int).
    (One secp256k1 multiplication in the library costs ~1.7 ms, so the number of private-key constructions
    per scalar is what bounds this sub-space.)"""
    from bitcoinlib.keys import Key, HDKey
    devs, dev = _devlist()
    n = 0
    nt = []
    out = {}

    def bump(k):
        out[k] = out.get(k, 0) + 1

    def addresses(k, entry, d_hex, net, pt, c, combos):
        # the default call comes first (fresh object); later calls are explicit in both arguments
        good = True
        nonlocal n
        pub = secp.ser(pt, c)
        for st, enc in combos:
            n += 1
            try:
                got = k.address(script_type=st, encoding=enc)
            except Exception as e:
                if not c and enc == 'bech32':
                    bump('refused_uncompressed_witness')
                    continue
                good = False
                dev('%s.address|%s|raises' % (entry, _combo(st, enc)),
                    {'d': d_hex, 'net': net, 'compressed': c, 'exc': _exc(e)})
                continue
            cls = classify_address(net, st, enc, pub, got)
            if cls:
                good = False
                dev('%s.address|%s|%s' % (entry, _combo(st, enc), cls),
                    {'d': d_hex, 'net': net, 'compressed': c, 'got': got})
        return good

    for off, hx in enumerate(case['ds']):
        idx = case['i0'] + off
        d = int(hx, 16)
        pt = secp.pub(d)
        good = True
        b = d.to_bytes(32, 'big')
        plan = [('int', d, True, NETS[idx % len(NETS)]),
                (('bytes', b) if idx % 2 else ('hex', b.hex())) + (False, NETS[(idx // len(NETS) + idx) % len(NETS)])]
        for form, val, c, net in plan:
            entry = 'Key(%s)' % form
            n += 1
            try:
                k = Key(val, network=net, compressed=c)
                obs = _observe(k)
            except Exception as e:
                good = False
                dev('%s|valid_scalar_refused' % entry, {'d': hx, 'compressed': c, 'exc': _exc(e)})
                continue
            good &= _compare(entry, obs, _expect(d, pt, c), dev, {'d': hx, 'compressed': c})
            if k.network.name != net:
                good = False
                dev('%s|network_mismatch' % entry, {'d': hx, 'net': net, 'got': k.network.name})
            good &= addresses(k, 'Key', hx, net, pt, c, DEFAULTS[2:] + STD)
        if case.get('full'):
            for form, val in _private_forms(d):
                for c in (True, False):
                    if form.endswith('+01') and not c:
                        continue   # the 01 suffix states "compressed"
                    entry = 'Key(%s)' % form
                    n += 1
                    try:
                        k = Key(val, compressed=c)
                        obs = _observe(k)
                    except Exception as e:
                        good = False
                        dev('%s|valid_scalar_refused' % entry, {'d': hx, 'compressed': c, 'exc': _exc(e)})
                        continue
                    good &= _compare(entry, obs, _expect(d, pt, c), dev, {'d': hx, 'compressed': c})
            # the WIF forms (version byte + secret [+ 01] in Base58Check, encoded by the reference) through Key() and
            # HDKey(), without and with the network named: the same scalar, point and compression flag
            wnet = NETS[idx % len(NETS)]
            for c in (True, False):
                wif = codec.b58check_encode(nets.wif_ver(wnet) + b + (b'\x01' if c else b''))
                for entry, mk in (('Key(wif)', lambda: Key(wif)), ('Key(wif,network)', lambda: Key(wif, network=wnet)),
                                  ('HDKey(wif,network)', lambda: HDKey(wif, network=wnet))):
                    n += 1
                    try:
                        k = mk()
                        obs = _observe(k)
                    except Exception as e:
                        if 'multiple networks' in str(e) and entry == 'Key(wif)':
                            bump('wif_network_ambiguous_refused')
                            continue
                        good = False
                        dev('%s|valid_key_refused|%s' % (entry, 'compressed' if c else 'uncompressed'),
                            {'d': hx, 'net': wnet, 'wif': wif, 'exc': _exc(e)})
                        continue
                    good &= _compare('%s|%s' % (entry, 'compressed' if c else 'uncompressed'), obs, _expect(d, pt, c), dev,
                                     {'d': hx, 'compressed': c, 'wif': wif, 'net': wnet})
            for c in (True, False):
                n += 1
                wt = ('legacy', 'p2sh-segwit', 'segwit')[idx % 3]
                try:
                    k = HDKey(d, compressed=c, witness_type=wt)
                    obs = _observe(k)
                except Exception as e:
                    good = False
                    dev('HDKey(int)|valid_scalar_refused', {'d': hx, 'compressed': c, 'exc': _exc(e)})
                    continue
                good &= _compare('HDKey(int)', obs, _expect(d, pt, c), dev, {'d': hx, 'compressed': c})
                good &= addresses(k, 'HDKey', hx, 'bitcoin', pt, c, STD)
        if good:
            nt.append(hx)
        bump('ok' if good else 'dev')
    return {'devs': devs, 'n': n, 'nt': nt, 'out': out}


# ------------------------------------------------------------------------------- address matrix
def _call(f):
    try:
        return True, f()
    except Exception as e:
        return False, _exc(e)


def sub_addr(case):
    """case = {'d': hex scalar, 'net': network}: full product of script type x encoding x compression x
    entry point for one key on one network."""
    from bitcoinlib.keys import Key, HDKey, Address
    from bitcoinlib.encoding import pubkeyhash_to_addr, pubkeyhash_to_addr_base58, pubkeyhash_to_addr_bech32
    devs, dev = _devlist()
    d = int(case['d'], 16)
    net = case['net']
    pt = secp.pub(d)
    n = 0
    out = {}

    def judge(entry, st, enc, pub, ok, got, detail):
        nonlocal n
        n += 1
        compressed = len(pub) == 33
        if not ok:
            if (not compressed and (enc == 'bech32' or st in ('p2wpkh', 'p2wsh', 'p2tr', 'p2sh_p2wpkh'))) \
                    or (st, enc) in NONSTD:
                out['refused'] = out.get('refused', 0) + 1
                return
            dev('%s|%s|raises' % (entry, _combo(st, enc)), dict(detail, exc=got))
            return
        cls = classify_address(net, st, enc, pub, got)
        if cls == 'address_of_other_compression' and entry.startswith('Key(uncompressed') and compressed:
            # one root cause: Key.address(compressed=True) encodes self.public_byte, which stays uncompressed
            dev('Key.address(compressed=True)|key_imported_uncompressed|address_of_uncompressed_key',
                dict(detail, entry=entry, combo=_combo(st, enc), got=got))
        elif cls == 'base58check_of_32_byte_hash':
            # one root cause (Address.__init__ hands a 32-byte hash to the Base58 encoder) behind every entry
            dev('address|%s|%s' % (_combo(st, enc), cls), dict(detail, entry=entry, got=got))
        elif cls:
            dev('%s|%s|%s' % (entry, _combo(st, enc), cls), dict(detail, got=got))
        else:
            out['ok'] = out.get('ok', 0) + 1

    for c in (True, False):
        pub = secp.ser(pt, c)
        det = {'d': case['d'], 'net': net, 'compressed': c}
        for st, enc in STD + NONSTD + DEFAULTS:
            ok, got = _call(lambda: Key(d, network=net, compressed=c).address(script_type=st, encoding=enc))
            judge('Key.address', st, enc, pub, ok, got, det)
            ok, got = _call(lambda: Key(d, network=net).address(compressed=c, script_type=st, encoding=enc))
            judge('Key.address(compressed=)', st, enc, pub, ok, got, det)
            ok, got = _call(lambda: Key(pub.hex(), network=net).address(script_type=st, encoding=enc))
            judge('Key(public).address', st, enc, pub, ok, got, det)
            # the object was built with the OTHER compression; the call chooses
            other = secp.ser(pt, not c).hex()
            tag = 'uncompressed' if c else 'compressed'
            ok, got = _call(lambda: Key(other, network=net).address(compressed=c, script_type=st, encoding=enc))
            judge('Key(%s_public).address(compressed=)' % tag, st, enc, pub, ok, got, det)
            if (st, enc) in STD[:2] + STD[2:3]:
                ok, got = _call(lambda: Key(d, network=net, compressed=not c).address(compressed=c, script_type=st,
                                                                                   encoding=enc))
                judge('Key(%s_private).address(compressed=)' % tag, st, enc, pub, ok, got, det)
            if st is not None and enc is not None:
                ok, got = _call(lambda: HDKey(d, network=net, compressed=c).address(script_type=st, encoding=enc))
                judge('HDKey.address', st, enc, pub, ok, got, det)
            if enc is not None:
                ok, got = _call(lambda: Address(pub, script_type=st, encoding=enc, network=net).address)
                judge('Address(data)', st, enc, pub, ok, got, det)
                ok, got = _call(lambda: Address(pub.hex(), script_type=st, encoding=enc, network=net).address)
                judge('Address(data_hex)', st, enc, pub, ok, got, det)
        # the encoding argument left out: the object derives it from the script type; the address must be the one
        # the same call gives with that encoding spelled out (and is then judged like it)
        for st, enc in STD:
            for form, data in (('data', pub), ('data_hex', pub.hex())):
                ok, got = _call(lambda: (lambda a: (a.address, a.encoding))(Address(data, script_type=st, network=net)))
                if ok:
                    got, enc_derived = got
                    if enc_derived != enc:
                        n += 1
                        dev('Address(%s,encoding_omitted)|%s|derived_encoding_%s' % (form, st, enc_derived),
                            dict(det, got=got))
                        continue
                judge('Address(%s,encoding_omitted)' % form, st, enc, pub, ok, got, det)
        # HDKey defaults per witness type
        for wt, (st, enc) in (('legacy', STD[0]), ('p2sh-segwit', STD[1]), ('segwit', STD[2])):
            ok, got = _call(lambda: HDKey(d, network=net, compressed=c, witness_type=wt).address())
            judge('HDKey(%s).address()' % wt, st, enc, pub, ok, got, det)
            # the address object read FIRST on a fresh key (before any address() call), also on the public copy, and
            # the two ways of asking in both orders on one object
            ok, got = _call(lambda: HDKey(d, network=net, compressed=c, witness_type=wt).address_obj.address)
            judge('HDKey(%s).address_obj_first' % wt, st, enc, pub, ok, got, det)
            ok, got = _call(lambda: HDKey(d, network=net, compressed=c, witness_type=wt).public().address_obj.address)
            judge('HDKey(%s).public().address_obj_first' % wt, st, enc, pub, ok, got, det)

            def both(order):
                k = HDKey(d, network=net, compressed=c, witness_type=wt)
                a = (k.address_obj.address, k.address()) if order else (k.address(), k.address_obj.address)
                if a[0] != a[1]:
                    raise ValueError('address() and address_obj disagree on one object: %s %s' % a)
                return a[0]
            for order in (0, 1):
                ok, got = _call(lambda: both(order))
                judge('HDKey(%s).address+address_obj|order%d' % (wt, order), st, enc, pub, ok, got, det)
        ok, got = _call(lambda: Key(d, network=net, compressed=c).address_obj.address)
        judge('Key.address_obj_first', 'p2pkh', 'base58', pub, ok, got, det)
        ok, got = _call(lambda: Key(d, network=net, compressed=c).address_uncompressed())
        judge('Key.address_uncompressed', 'p2pkh', 'base58', secp.ser(pt, False), ok, got, det)
        # hashed_data / encoding functions: the exact hash is supplied
        h = codec.hash160(pub)
        s = codec.sha256(pub)
        q = taproot_output_key(pt)
        table = [
            ('p2pkh', 'base58', h, raddr.addr_p2pkh(net, h)),
            ('p2sh_p2wpkh', 'base58', h, raddr.addr_p2sh(net, codec.hash160(b'\x00\x14' + h))),
            ('p2sh', 'base58', h, raddr.addr_p2sh(net, h)),
            ('p2wpkh', 'bech32', h, raddr.addr_witness(net, 0, h)),
            ('p2wsh', 'bech32', s, raddr.addr_witness(net, 0, s)),
            ('p2tr', 'bech32', q, raddr.addr_witness(net, 1, q)),
        ]
        for st, enc, hh, exp in table:
            n += 1
            ok, got = _call(lambda: Address(hashed_data=hh, script_type=st, encoding=enc, network=net).address)
            if not ok or got != exp:
                dev('Address(hashed_data)|%s|%s' % (_combo(st, enc), 'raises' if not ok else 'wrong_string'),
                    dict(det, hash=hh.hex(), got=got, expected=exp))
            n += 1
            ok, got = _call(lambda: Address(hashed_data=hh.hex(), script_type=st, network=net).address)
            if not ok or got != exp:
                dev('Address(hashed_data_hex,enc=None)|%s|%s' % (st, 'raises' if not ok else 'wrong_string'),
                    dict(det, hash=hh.hex(), got=got, expected=exp))
        fn = [
            ('pubkeyhash_to_addr_base58', lambda: pubkeyhash_to_addr_base58(h, nets.p2pkh_ver(net)),
             raddr.addr_p2pkh(net, h)),
            ('pubkeyhash_to_addr_base58(hex)', lambda: pubkeyhash_to_addr_base58(h.hex(), nets.p2sh_ver(net).hex()),
             raddr.addr_p2sh(net, h)),
            ('pubkeyhash_to_addr_bech32|v0_20', lambda: pubkeyhash_to_addr_bech32(h, nets.hrp(net)),
             raddr.addr_witness(net, 0, h)),
            ('pubkeyhash_to_addr_bech32|v0_32', lambda: pubkeyhash_to_addr_bech32(s, nets.hrp(net), 0),
             raddr.addr_witness(net, 0, s)),
            ('pubkeyhash_to_addr_bech32|v1_32', lambda: pubkeyhash_to_addr_bech32(q, nets.hrp(net), 1),
             raddr.addr_witness(net, 1, q)),
            ('pubkeyhash_to_addr_bech32|script_form', lambda: pubkeyhash_to_addr_bech32(b'\x51\x20' + q, nets.hrp(net)),
             raddr.addr_witness(net, 1, q)),
            ('pubkeyhash_to_addr|base58', lambda: pubkeyhash_to_addr(h, nets.p2pkh_ver(net), 'base58'),
             raddr.addr_p2pkh(net, h)),
            ('pubkeyhash_to_addr|bech32_v1', lambda: pubkeyhash_to_addr(q, nets.hrp(net), 'bech32', 1),
             raddr.addr_witness(net, 1, q)),
        ]
        for name, f, exp in fn:
            n += 1
            ok, got = _call(f)
            if not ok or got != exp:
                dev('%s|%s' % (name, 'raises' if not ok else 'wrong_string'), dict(det, got=got, expected=exp))
    return {'devs': devs, 'n': n, 'nt': ['%s/%s' % (case['d'], net)] if out.get('ok') else [], 'out': out}


def sub_addrseq(case):
    """Two explicit address() calls on ONE object: the second answer must not depend on the first."""
    from bitcoinlib.keys import Key, HDKey
    devs, dev = _devlist()
    d = int(case['d'], 16)
    net = case['net']
    pt = secp.pub(d)
    n = 0
    combos = [(st, enc, c) for st, enc in STD for c in (True, False) if not (not c and enc == 'bech32')]
    for cls_name in ('Key', 'HDKey'):
        for a in combos:
            for b in combos:
                n += 1
                k = (Key if cls_name == 'Key' else HDKey)(d, network=net)
                try:
                    k.address(compressed=a[2], script_type=a[0], encoding=a[1])
                    got = k.address(compressed=b[2], script_type=b[0], encoding=b[1])
                except Exception as e:
                    dev('%s.address_sequence|raises' % cls_name, {'d': case['d'], 'first': a, 'second': b,
                                                                 'exc': _exc(e)})
                    continue
                cls = classify_address(net, b[0], b[1], secp.ser(pt, b[2]), got)
                if cls:
                    dev('%s.address_sequence|second=%s|%s' % (cls_name, _combo(b[0], b[1]), cls),
                        {'d': case['d'], 'net': net, 'first': a, 'second': b, 'got': got})
    return {'devs': devs, 'n': n}


# ------------------------------------------------------------------------------- public encodings
def _pub_entries(val_hex):
    """The ways a serialized public key can be handed to the library."""
    from bitcoinlib.keys import Key, HDKey
    b = bytes.fromhex(val_hex)
    return [('Key(public_hex)', lambda: Key(val_hex)), ('Key(public_bytes)', lambda: Key(b)),
            ('HDKey(public_hex)', lambda: HDKey(val_hex))]


def _accepted_detail(k):
    try:
        a = k.address()
    except Exception as e:
        a = 'address raises ' + _exc(e)
    return {'public_hex': k.public_hex, 'address': a}


def sub_pubenc(case):
    """case = [x_lo, x_hi): for every x both parities as compressed key; if on the curve also uncompressed,
    tuple, y tampered."""
    from bitcoinlib.keys import Key, HDKey
    lo, hi = case
    devs, dev = _devlist()
    n = 0
    nt = []
    out = {'on_curve': 0, 'off_curve': 0, 'refused': 0}
    for x in range(lo, hi):
        xh = '%064x' % x
        for odd in (0, 1):
            pt = secp.lift_x(x, odd)
            enc = ('03' if odd else '02') + xh
            for entry, f in _pub_entries(enc):
                n += 1
                try:
                    k = f()
                except Exception as e:
                    if pt is None:
                        out['refused'] += 1
                    else:
                        dev('%s|valid_compressed_refused' % entry, {'key': enc, 'exc': _exc(e)})
                    continue
                if pt is None:
                    dev('Key.__init__(public)|compressed_x_not_on_curve_accepted',
                        dict(_accepted_detail(k), key=enc, entry=entry))
                    continue
                _compare(entry, _observe(k), _expect(None, pt, True, False), dev, {'key': enc})
            if pt is None:
                out['off_curve'] += 1
                continue
            out['on_curve'] += 1
            nt.append('%d/%d' % (x, odd))
            unc = secp.ser(pt, False).hex()
            for entry, f in _pub_entries(unc):
                n += 1
                try:
                    k = f()
                except Exception as e:
                    dev('%s|valid_uncompressed_refused' % entry, {'key': unc, 'exc': _exc(e)})
                    continue
                _compare(entry, _observe(k), _expect(None, pt, False, False), dev, {'key': unc})
            for c in (True, False):
                n += 1
                try:
                    k = Key((pt[0], pt[1]), compressed=c)
                except Exception as e:
                    dev('Key(point)|valid_point_refused', {'x': x, 'odd': odd, 'exc': _exc(e)})
                    continue
                _compare('Key(point)', _observe(k), _expect(None, pt, c, False), dev, {'x': x, 'odd': odd})
            # y tampered: y+1, y-1 (never on the curve together with x), and x/y swapped
            for name, y2 in (('y+1', (pt[1] + 1) % P), ('y-1', (pt[1] - 1) % P)):
                if secp.on_curve((x, y2)):
                    continue
                bad = '04' + xh + '%064x' % y2
                for entry, f in _pub_entries(bad):
                    n += 1
                    try:
                        k = f()
                    except Exception:
                        out['refused'] += 1
                        continue
                    dev('Key.__init__(public)|uncompressed_point_not_on_curve_accepted',
                        dict(_accepted_detail(k), key=bad, entry=entry, tamper=name))
                n += 1
                try:
                    k = Key((x, y2))
                except Exception:
                    out['refused'] += 1
                    continue
                dev('Key.__init__(public)|tuple_point_not_on_curve_accepted', dict(_accepted_detail(k), x=x, y=y2, tamper=name))
    return {'devs': devs, 'n': n, 'nt': nt, 'out': out}


# ------------------------------------------------------------------------------- invalid values
def _scalar_class(d):
    if d == 0:
        return 'zero'
    if d == N:
        return 'n'
    if N < d < (1 << 256):
        return 'gt_n'
    if d < 0:
        return 'negative'
    return 'ge_2^256'


def _scalar_behaviour(d, k):
    """How the library interpreted an out-of-range scalar it accepted."""
    try:
        ph = k.public_hex
    except Exception:
        return 'accepted_no_public_key'
    if ph in ('02' + '00' * 32, '03' + '00' * 32, '04' + '00' * 64):
        return 'accepted_as_point_at_infinity'
    r = d % N
    if r and ph in (secp.ser(secp.pub(r), True).hex(), secp.ser(secp.pub(r), False).hex()):
        return 'accepted_reduced_mod_n'
    return 'accepted_other'


def sub_badscalar(case):
    """case = {'d': signed decimal string}: a value outside [1, n-1] through every private import path."""
    from bitcoinlib.keys import Key, HDKey
    d = int(case['d'])
    devs, dev = _devlist()
    entries = []
    if d != 0:
        entries.append(('Key(int)', lambda: Key(d)))
        entries.append(('HDKey(int)', lambda: HDKey(d)))
        entries.append(('Key(int,compressed=False)', lambda: Key(d, compressed=False)))
    if 0 <= d < (1 << 256):
        b = d.to_bytes(32, 'big')
        entries += [
            ('Key(hex)', lambda: Key(b.hex())), ('Key(bytes)', lambda: Key(b)),
            ('Key(hex+01)', lambda: Key(b.hex() + '01')), ('Key(bytes+01)', lambda: Key(b + b'\x01')),
            ('Key(hex,network=testnet)', lambda: Key(b.hex(), network='testnet')),
            ('HDKey(hex)', lambda: HDKey(b.hex())), ('HDKey(bytes)', lambda: HDKey(b)),
            ('HDKey(key=bytes,chain)', lambda: HDKey(key=b, chain=b'\x07' * 32)),
            ('HDKey(bytes64)', lambda: HDKey(b + b'\x07' * 32)),
        ]
        for comp in (True, False):
            w = codec.b58check_encode(nets.wif_ver('bitcoin') + b + (b'\x01' if comp else b''))
            entries.append(('Key(wif%s)' % ('' if comp else '_uncompressed'), lambda w=w: Key(w)))
            entries.append(('HDKey(wif%s)' % ('' if comp else '_uncompressed'), lambda w=w: HDKey(w)))
        xprv = codec.b58check_encode(nets.hd_prefix('bitcoin', True) + b'\x00' + b'\0' * 4 + b'\0' * 4 +
                                     b'\x07' * 32 + b'\x00' + b)
        entries.append(('HDKey(xprv)', lambda: HDKey(xprv)))
        entries.append(('HDKey.from_wif(xprv)', lambda: HDKey.from_wif(xprv)))
    n = 0
    out = {}
    for entry, f in entries:
        n += 1
        try:
            k = f()
            k.address()
        except Exception:
            out['refused'] = out.get('refused', 0) + 1
            continue
        if 'wif_uncompressed' in entry and (d & 0xff) == 1:
            # C12's matter: an uncompressed WIF whose secret ends in 01 is mis-parsed as compressed WIF of
            # another (31-byte) secret before any range question arises
            out['uncompressed_wif_ending_01_left_to_C12'] = out.get('uncompressed_wif_ending_01_left_to_C12', 0) + 1
            continue
        beh = _scalar_behaviour(d, k)
        dev('Key.__init__(private)|scalar_%s_%s' % (_scalar_class(d), beh),
            dict(_accepted_detail(k), d=case['d'], entry=entry, secret=k.secret))
        out['accepted'] = out.get('accepted', 0) + 1
    return {'devs': devs, 'n': n, 'out': out}


def sub_badpub(case):
    """case = {'kind': ..., 'key': hex}: serialized public keys that are not valid SEC1 encodings of a
    curve point (x >= p, foreign prefix byte, hybrid, wrong length)."""
    from bitcoinlib.keys import Key, HDKey
    devs, dev = _devlist()
    kind = case['kind']
    key = case['key']
    assert secp.decode_pub(bytes.fromhex(key)) is None
    n = 0
    out = {}
    entries = list(_pub_entries(key))
    if len(key) == 66:
        xpub = codec.b58check_encode(nets.hd_prefix('bitcoin', False) + b'\x00' + b'\0' * 8 + b'\x07' * 32 +
                                     bytes.fromhex(key))
        entries.append(('HDKey(xpub)', lambda: HDKey(xpub)))
        entries.append(('HDKey.from_wif(xpub)', lambda: HDKey.from_wif(xpub)))
    for entry, f in entries:
        n += 1
        try:
            k = f()
            if k.is_private:
                # e.g. 33 bytes ending in 01 read as a private key: a different, valid interpretation
                out['read_as_private'] = out.get('read_as_private', 0) + 1
                continue
            k.address()
        except Exception:
            out['refused'] = out.get('refused', 0) + 1
            continue
        dev('Key.__init__(public)|%s_accepted' % kind,
            dict(_accepted_detail(k), key=key, entry=entry))
    return {'devs': devs, 'n': n, 'out': out}


def sub_badpoint(case):
    """case = [x, y] decimal strings: a coordinate pair that is not a curve point."""
    from bitcoinlib.keys import Key, HDKey
    devs, dev = _devlist()
    x, y = int(case[0]), int(case[1])
    assert not (0 <= x < P and 0 <= y < P and secp.on_curve((x, y)))
    n = 0
    out = {}
    for entry, f in (('Key(point)', lambda: Key((x, y))), ('Key(point,compressed=False)', lambda: Key((x, y), compressed=False)),
                     ('HDKey(point)', lambda: HDKey((x, y)))):
        n += 1
        try:
            k = f()
            k.address()
        except Exception:
            out['refused'] = out.get('refused', 0) + 1
            continue
        dev('Key.__init__(public)|tuple_point_not_on_curve_accepted',
            dict(_accepted_detail(k), x=case[0], y=case[1], entry=entry))
    return {'devs': devs, 'n': n, 'out': out}


SUBS = {'scalar': sub_scalar, 'addr': sub_addr, 'addrseq': sub_addrseq, 'pubenc': sub_pubenc,
        'badscalar': sub_badscalar, 'badpub': sub_badpub, 'badpoint': sub_badpoint}


# ------------------------------------------------------------------------------- enumeration
def _hw_family(full):
    vals = set()
    for i in range(256):
        vals.add(1 << i)
        if i:
            vals.add((1 << i) - 1)
        js = range(i) if full else [j for j in (0, 1, i - 1, i // 2) if 0 <= j < i]
        for j in js:
            vals.add((1 << i) + (1 << j))
    return sorted(v for v in vals if 1 <= v < N)


def _leading_zero_secrets(seed):
    fill = hashlib.sha256(b'C04 filler %d' % seed).digest()
    out = []
    for z in (1, 2, 3, 4, 8, 16, 31):
        body = fill[: 32 - z]
        if body[0] == 0:
            body = b'\x01' + body[1:]
        out.append(int.from_bytes(body, 'big'))
        out.append(int.from_bytes(b'\xff' * (32 - z), 'big'))
        out.append(1 << (8 * (32 - z) - 8))       # 00..00 01 00..00
    # first bytes 02/03/04 (look like public key prefixes), last byte 01
    for first in (2, 3, 4):
        out.append(int.from_bytes(bytes([first]) + fill[1:31] + b'\x01', 'big'))
    return sorted(set(out))


def _window_base(seed, k, span):
    h = int.from_bytes(hashlib.sha256(b'C04 window %d %d' % (seed, k)).digest(), 'big')
    return 1 + h % (N - span - 1)


def run(ctx):
    q = ctx.quick
    seed = ctx.seed
    only = getattr(ctx, 'only', None)

    def want(s):
        return not only or s in only

    # ---------------- valid scalars
    edge = 2048 if q else 4096
    scal = list(range(1, edge + 1)) + list(range(N - edge, N))
    fam = _hw_family(not q)
    lz = _leading_zero_secrets(seed)
    wins = []
    nwin = 1 if q else 4
    span = 2048 if q else 4096
    for k in range(nwin):
        b = _window_base(seed, k, span)
        wins.append(b)
        scal += list(range(b, b + span))
    seen = set()
    ordered = []
    for d in scal + fam + lz:
        if d not in seen:
            seen.add(d)
            ordered.append(d)
    if q:
        fullset = set(range(1, 257)) | set(range(N - 256, N)) | {1 << i for i in range(256)} | set(lz)
        fullset |= set(range(wins[0], wins[0] + 64))
    else:
        fullset = set(range(1, edge + 1)) | set(range(N - edge, N)) | {1 << i for i in range(256)} | set(lz)
        fullset |= {(1 << i) - 1 for i in range(1, 256)} | set(range(wins[0], wins[0] + span))
    B = 24
    cases = []
    part_full = [d for d in ordered if d in fullset]
    part_rest = [d for d in ordered if d not in fullset]
    i0 = 0
    for part, full in ((part_full, True), (part_rest, False)):
        step = B // 4 if full else B
        for i in range(0, len(part), step):
            cases.append({'ds': ['%x' % d for d in part[i:i + step]], 'i0': i0 + i, 'full': full})
        i0 += len(part)
    if want('scalar'):
        ctx.pmap('scalar', cases, chunk=1)
    # ---------------- address matrix: every network, for a fixed key alphabet + seed keys
    akeys = [1, 2, N - 1, (1 << 255), lz[0], lz[3], lz[-1], lz[-2]]
    nseed = 4 if q else 48
    for k in range(nseed):
        akeys.append(_window_base(seed, 100 + k, 1))
    akeys = list(dict.fromkeys(akeys))
    if want('addr'):
        ctx.pmap('addr', [{'d': '%x' % d, 'net': net} for d in akeys for net in NETS], chunk=1)
    if want('addrseq'):
        skeys = akeys[:2] + akeys[8:9] if q else akeys[:12]
        snets = ['bitcoin', 'litecoin', 'testnet'] if q else NETS
        ctx.pmap('addrseq', [{'d': '%x' % d, 'net': net} for d in skeys for net in snets], chunk=1)
    # ---------------- public encodings
    xhi = 2049 if q else 16385
    xs = [[a, min(a + 32, xhi)] for a in range(1, xhi, 32)]
    for k in range(1 if q else 4):
        b = _window_base(seed, 200 + k, 512) % (P - 600)
        xs += [[a, a + 32] for a in range(b, b + (256 if q else 512), 32)]
    xs += [[P - 64, P - 32], [P - 32, P]]
    if want('pubenc'):
        ctx.pmap('pubenc', xs, chunk=1)
    # ---------------- invalid scalars
    bad = [0, N, N + 1, N + 2, (1 << 256) - 1, (1 << 256) - 2, 2 * N - 1 if 2 * N - 1 < (1 << 256) else N + 3,
           -1, -2, 1 << 256, (1 << 256) + 1, N + (1 << 128), N + 255, N + 256, N + 257]
    bad += list(range(N + 3, N + (16 if q else 256))) + [N + 192, N + 192 + 256]    # the last two end in byte 01
    bad = list(dict.fromkeys(bad))
    if want('badscalar'):
        ctx.pmap('badscalar', [{'d': str(d)} for d in bad])
    # ---------------- invalid public encodings
    G = secp.G
    gx = '%064x' % G[0]
    gy = '%064x' % G[1]
    bp = []
    for x in (P, P + 1, P + 2, P + 5, (1 << 256) - 1):
        for pre in ('02', '03'):
            bp.append({'kind': 'coordinate_ge_p', 'key': pre + '%064x' % x})
    # x = p + k where k is on the curve: a non-canonical x that reduces to a valid one
    for k in (1, 2, 3, 4, 6, 8):
        if P + k < (1 << 256) and secp.lift_x(k, 0) is not None:
            bp.append({'kind': 'coordinate_ge_p', 'key': '02' + '%064x' % (P + k)})
    bp.append({'kind': 'coordinate_ge_p', 'key': '04' + '%064x' % (P + 1) + '%064x' % secp.lift_x(1, 0)[1]})
    bp.append({'kind': 'coordinate_ge_p', 'key': '04' + '%064x' % 1 + '%064x' % (P + secp.lift_x(1, 0)[1])}
              if P + secp.lift_x(1, 0)[1] < (1 << 256) else {'kind': 'coordinate_ge_p', 'key': '04' + gx + 'ff' * 32})
    for x in (0, 5, 7, 10, 11):
        if secp.lift_x(x, 0) is None:
            bp.append({'kind': 'compressed_x_not_on_curve', 'key': '02' + '%064x' % x})
            bp.append({'kind': 'compressed_x_not_on_curve', 'key': '03' + '%064x' % x})
    for pre in ('00', '01', '05', '06', '07', '08', 'ff'):
        bp.append({'kind': 'foreign_prefix', 'key': pre + gx})
        bp.append({'kind': 'foreign_prefix', 'key': pre + gx + gy})
    bp.append({'kind': 'prefix_length_mismatch', 'key': '02' + gx + gy})          # compressed prefix, 65 bytes
    bp.append({'kind': 'prefix_length_mismatch', 'key': '03' + gx + gy})
    bp.append({'kind': 'prefix_length_mismatch', 'key': '04' + gx})               # uncompressed prefix, 33 bytes
    bp.append({'kind': 'uncompressed_point_not_on_curve', 'key': '04' + '00' * 64})
    bp.append({'kind': 'compressed_x_not_on_curve', 'key': '03' + '00' * 32})
    if want('badpub'):
        ctx.pmap('badpub', bp)
    pts = [[0, 0], [G[0], G[1] + 1], [G[0] + 1, G[1]], [G[1], G[0]], [P + G[0], G[1]], [G[0], P + G[1]],
           [G[0], G[1] - 1], [1, 1], [0, 7], [P, 0], [5, 5]]
    if want('badpoint'):
        ctx.pmap('badpoint', [[str(a), str(b)] for a, b in pts])
    ctx.note('bounds', {
        'valid_scalars': '[1,%d] + [n-%d,n-1] + %d seed window(s) of %d + Hamming-weight<=2 family (%s, %d values) '
                         '+ 2^i-1 + %d leading-zero / prefix-lookalike secrets; %d distinct scalars, %d of them through every '
                         'import form x compressed flag' % (
                             edge, edge, nwin, span, 'all pairs' if not q else 'j in {0,1,i/2,i-1}', len(fam),
                             len(lz), len(ordered), len(part_full)),
        'window_bases': ['%x' % b for b in wins],
        'address_matrix': '%d keys x %d networks x 13 (script type, encoding) pairs x 2 compressions x 6 entry '
                          'points + hashed_data / encoding function tables' % (len(akeys), len(NETS)),
        'public_encodings': 'x in [1,%d) + seed windows + [p-64,p): both parities, compressed/uncompressed/tuple, '
                            'y+-1' % xhi,
        'invalid_scalars': len(bad), 'invalid_public_encodings': len(bp), 'invalid_points': len(pts),
    })
