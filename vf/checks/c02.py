"""C02 Transaction verification is sound and complete for standard inputs.

E2: explicit-state search over signing histories (sign one key, sign several, re-sign, foreign key,
serialise+parse) executed on real Transaction objects, with the m-of-n threshold model advanced in
lock-step, plus E1: the exhaustive single-edit tamper neighbourhood of every fully signed transaction,
at object level and at byte level (edit -> reference serialiser -> Transaction.parse), with the
reference consensus interpreter as oracle in both directions (too lax / too strict).
"""
import itertools

from vf import txgen, txhist
from vf.ref import secp, codec, tx as rtx, interp

ID = 'C02'
LEVEL = 'model_checking'
RULE = ('BFS over signing events per (input kind, m, n): states are (set of signers per the threshold model, live/'
        're-parsed form, the signature order observed inside the library object); every enabled event is executed '
        'from every new state on a freshly built real Transaction by replaying the history; invariant: verify() == '
        '(>= m distinct listed signers) and, when true, the raw bytes pass the reference interpreter against the '
        'spec-derived scriptPubKey/amount. Tamper neighbourhood: every single-field edit of a stated menu applied '
        'to every fully signed configuration; non-trivial = edit whose reference verdict was computed and compared')
ASSUMPTIONS = ['reference interpreter (vf/ref/interp.py) with consensus flags decides validity of raw bytes',
               'information the wire format does not carry (segwit input amounts, the public key of a P2PK prevout) '
               'is re-supplied to a re-parsed transaction before verify(), as any caller must',
               'byte-level substitution of BOTH key material and signature (a different redeem script / public key '
               'with matching signatures) is not in the menu: without the previous output the library cannot know '
               'the committed hash; signatures are substituted while the listed keys stay',
               'high-S twins are valid ECDSA signatures: verdict follows the reference, not "any change must fail"']

FOREIGN = 9001   # key index of a key outside every key set


def selftest():
    secp.selftest()
    rtx.selftest()
    interp.selftest()


# ----------------------------------------------------------------------------- helpers
def _cfg_spec(cfg, seed):
    kinds, m, n = cfg['kinds'], cfg['m'], cfg['n']
    return txgen.make_spec(seed, kinds, mn=(m, n), version=cfg.get('version', 2), locktime=cfg.get('locktime', 7),
                           seqs=[0xfffffffd, 0xfffffffe], values=[5000000, 2 ** 32 + 5],
                           outputs=[{'kind': 'p2wpkh', 'payload': '11' * 32, 'value': 4000},
                                    {'kind': 'p2pkh', 'payload': '22' * 32, 'value': 2 ** 32}])


def _libkey(d, comp, net='bitcoin'):
    from bitcoinlib.keys import Key
    return Key(d.to_bytes(32, 'big').hex(), network=net, compressed=comp)


def _resupply(t2, spec, refs):
    """Give a re-parsed transaction what the wire format does not carry."""
    from bitcoinlib.keys import Key
    for idx, (inp, ref) in enumerate(zip(spec['inputs'], refs)):
        i2 = t2.inputs[idx]
        i2.value = ref['amount']
        if inp['kind'] in ('p2pk', 'p2pk_u'):
            i2.keys = [Key(ref['pubs'][0].hex(), network=spec['network'])]
            i2.script_type = 'signature'
            i2.update_scripts()


def _ref_verdict(raw, refs, amounts=None):
    """True iff every input passes the reference interpreter; None if raw does not parse."""
    try:
        r = rtx.parse(raw)
    except Exception:
        return None
    if len(r.vin) != len(refs):
        return False
    for idx, ref in enumerate(refs):
        amt = ref['amount'] if amounts is None else amounts[idx]
        wit = r.wit[idx] if r.wit else []
        if not interp.verify_script(r.vin[idx]['script'], ref['spk'], wit, interp.TxChecker(r, idx, amt)):
            return False
    return True


def _lib_verify(t):
    try:
        return bool(t.verify())
    except Exception as e:
        return 'raise:' + type(e).__name__


# ------------------------------------------------------------------- signing histories
def _signer_order(t, spec):
    """For each input: tuple of key indices (in the spec's key list) whose signatures the object holds."""
    out = []
    for inp, i in zip(spec['inputs'], t.inputs):
        comp = txgen.KINDS[inp['kind']][2]
        pubs = [secp.ser(secp.pub(d), comp) for d in inp['keys']]
        order = []
        for s in i.signatures:
            pk = getattr(s, 'public_key', None)
            pb = pk.public_byte if pk is not None else None
            order.append(pubs.index(pb) if pb in pubs else -1)
        out.append(tuple(order))
    return out


def sub_hist(case):
    """Replay a signing history on a fresh transaction; check the invariants in the reached state."""
    from bitcoinlib.transactions import Transaction
    cfg, hist = case['cfg'], case['hist']
    seed = cfg.get('seed', 0)
    spec = _cfg_spec(cfg, seed)
    refs = [txgen.input_ref(i) for i in spec['inputs']]
    n_in = len(spec['inputs'])
    t = txgen.build(spec, sign=False, keys_per_input=[[] for _ in range(n_in)])
    model = [set() for _ in range(n_in)]       # signers per input (threshold model)
    parsed = False
    devs = []
    thr = [ref['m'] for ref in refs]
    nk = [len(i['keys']) for i in spec['inputs']]
    comp = [txgen.KINDS[i['kind']][2] for i in spec['inputs']]
    for ev in hist:
        kind = ev[0]
        try:
            if kind == 'sign':          # ('sign', input, key index)
                _, ii, j = ev
                t.sign(keys=[_libkey(spec['inputs'][ii]['keys'][j], comp[ii])], index_n=ii)
                model[ii].add(j)
            elif kind == 'signm':       # ('signm', input, [key indices]) several keys in one call
                _, ii, js = ev
                t.sign(keys=[_libkey(spec['inputs'][ii]['keys'][j], comp[ii]) for j in js], index_n=ii)
                model[ii].update(js)
            elif kind == 'signall':     # ('signall', j): one call without index_n, key j of every input
                _, j = ev
                ks = [_libkey(spec['inputs'][ii]['keys'][j], comp[ii]) for ii in range(n_in) if j < nk[ii]]
                t.sign(keys=ks, fail_on_unknown_key=False)
                for ii in range(n_in):
                    if j < nk[ii]:
                        model[ii].add(j)
            elif kind == 'sign_again':  # a key that already signed signs once more (no replace): nothing changes
                _, ii, j = ev
                t.sign(keys=[_libkey(spec['inputs'][ii]['keys'][j], comp[ii])], index_n=ii)
            elif kind == 'resign':      # sign again with replace_signatures
                _, ii, j = ev
                t.sign(keys=[_libkey(spec['inputs'][ii]['keys'][j], comp[ii])], index_n=ii, replace_signatures=True)
                model[ii].add(j)
            elif kind == 'foreign':     # a key outside the key set must not change anything
                _, ii = ev
                t.sign(keys=[_libkey(txgen.scalar(seed, FOREIGN), comp[ii])], index_n=ii, fail_on_unknown_key=False)
            elif kind == 'reparse':
                raw = t.raw()
                t = Transaction.parse(raw, network=spec['network'])
                _resupply(t, spec, refs)
                parsed = True
                # only the first m signatures (in key order) of an input are serialised
                for ii in range(n_in):
                    if len(model[ii]) > thr[ii]:
                        model[ii] = set(sorted(model[ii])[:thr[ii]])
        except Exception as e:
            devs.append({'sig': 'history|event_raises|%s|%s' % (kind, type(e).__name__),
                         'detail': {'cfg': cfg, 'hist': hist, 'exc': repr(e)[:300]}})
            return {'devs': devs, 'ret': None, 'out': 'event_raises'}
    expect = all(len(model[ii]) >= thr[ii] for ii in range(n_in))
    got = _lib_verify(t)
    tagk = '+'.join(cfg['kinds'])
    out = 'verified' if got is True else 'unverified'
    if got != expect:
        devs.append({'sig': 'verify_vs_threshold|%s|%s' % ('too_lax' if got is True else 'too_strict', tagk),
                     'detail': {'cfg': cfg, 'hist': hist, 'verify': got, 'signers': [sorted(m) for m in model],
                                'm': thr, 'parsed': parsed}})
    per_input_valid = []
    for ii, i in enumerate(t.inputs):
        per_input_valid.append(len(model[ii]) >= thr[ii])
    if expect:
        try:
            rv = _ref_verdict(t.raw(), refs)
        except Exception as e:
            rv = 'raise:' + repr(e)[:100]
        if rv is not True:
            devs.append({'sig': 'signed_tx_fails_reference_interpreter|%s' % tagk,
                         'detail': {'cfg': cfg, 'hist': hist, 'ref': rv}})
    order = _signer_order(t, spec)
    state = {'signers': [sorted(m) for m in model], 'parsed': parsed, 'order': order}
    # enabled events
    en = []
    if not parsed or True:
        for ii in range(n_in):
            for j in range(nk[ii]):
                if j not in model[ii]:
                    en.append(['sign', ii, j])
            if nk[ii] >= 2 and not model[ii]:
                for js in itertools.combinations(range(nk[ii]), 2):
                    en.append(['signm', ii, list(js)])
            for j in sorted(model[ii])[:1]:
                en.append(['resign', ii, j])
            for j in sorted(model[ii])[-1:]:
                en.append(['sign_again', ii, j])
            if not any(e[0] == 'foreign' for e in hist):
                en.append(['foreign', ii])
    if n_in >= 2:
        for j in range(max(nk)):
            if any(j < nk[ii] and j not in model[ii] for ii in range(n_in)):
                en.append(['signall', j])
    if expect and not parsed:
        en.append(['reparse'])
    return {'devs': devs, 'ret': {'state': state, 'enabled': en}, 'out': out}


# -------------------------------------------------------------------- tamper neighbourhood
def _sig_locations(r, idx, kind):
    """(container, positions): where the signatures of input idx live in a reference-parsed tx."""
    st, wt, comp, ms = txgen.KINDS[kind]
    if wt == 'legacy':
        toks = [d if d is not None else op for op, d in codec.script_tokens(r.vin[idx]['script'])]
        if ms:
            pos = list(range(1, len(toks) - 1))
        elif kind in ('p2pk', 'p2pk_u'):
            pos = [0]
        else:
            pos = [0]
        return 'script', toks, pos
    items = list(r.wit[idx])
    if ms:
        pos = list(range(1, len(items) - 1))
    else:
        pos = [0]
    return 'witness', items, pos


def _write_back(r, idx, where, items):
    if where == 'script':
        s = b''
        for it in items:
            if isinstance(it, int):
                s += bytes([it])
            else:
                s += codec.push(it) if it != b'' else b'\x00'
        r.vin[idx]['script'] = s
    else:
        r.wit[idx] = list(items)


def _refsig(d, digest, ht=1):
    k = secp.rfc6979_k(d, digest)
    rr, ss = secp.ecdsa_sign_raw(d, int.from_bytes(digest, 'big'), k)
    if ss > secp.N // 2:
        ss = secp.N - ss
    return secp.der_encode(rr, ss) + bytes([ht])


def _clone(r):
    return rtx.RTx(r.version, [dict(i) for i in r.vin], [dict(o) for o in r.vout], r.locktime,
                   None if r.wit is None else [list(w) for w in r.wit])


def _digest_for(r, idx, ref, ht=1):
    if ref['sigversion'] == 'base':
        return rtx.sighash_legacy(r, idx, ref['script_code'], ht)
    return rtx.sighash_bip143(r, idx, ref['script_code'], ref['amount'], ht)


def _byte_edits(r, spec, refs, seed):
    """Yield (name, edited RTx, amounts) for the whole single-edit menu."""
    n_in = len(r.vin)
    amounts0 = [ref['amount'] for ref in refs]
    for j in range(len(r.vout)):
        for d in (1, -1):
            e = _clone(r)
            e.vout[j]['value'] += d
            yield 'out_value%+d' % d, e, amounts0
        for pos, nm in ((0, 'first'), (-1, 'last')):
            e = _clone(r)
            s = bytearray(e.vout[j]['script'])
            s[pos] ^= 1
            e.vout[j]['script'] = bytes(s)
            yield 'out_script_%s_byte' % nm, e, amounts0
    e = _clone(r)
    e.vout = e.vout[:-1]
    yield 'out_dropped', e, amounts0
    e = _clone(r)
    e.vout = e.vout + [dict(e.vout[0])]
    yield 'out_added', e, amounts0
    for i in range(n_in):
        for pos in (0, 31):
            e = _clone(r)
            b = bytearray(e.vin[i]['txid'])
            b[pos] ^= 1
            e.vin[i]['txid'] = bytes(b)
            yield 'outpoint_txid_byte%d' % pos, e, amounts0
        for d in (1, -1):
            if r.vin[i]['vout'] + d < 0:
                continue
            e = _clone(r)
            e.vin[i]['vout'] += d
            yield 'outpoint_index%+d' % d, e, amounts0
        for d in (1, -1):
            e = _clone(r)
            e.vin[i]['seq'] = (e.vin[i]['seq'] + d) % (1 << 32)
            yield 'sequence%+d' % d, e, amounts0
        for d in (1, -1):
            am = list(amounts0)
            am[i] += d
            yield 'input_amount%+d' % d, _clone(r), am
    for d in (1, -1):
        e = _clone(r)
        e.locktime = (e.locktime + d) % (1 << 32)
        yield 'locktime%+d' % d, e, amounts0
    e = _clone(r)
    e.version = 1 if e.version != 1 else 2
    yield 'version', e, amounts0
    # signature edits
    for i in range(n_in):
        kind = spec['inputs'][i]['kind']
        where, items, pos = _sig_locations(r, i, kind)
        ref = refs[i]
        for p in pos:
            sig = items[p]
            rs = secp.der_decode_strict(sig[:-1])
            if rs is None:
                continue
            rr, ss = rs
            variants = [
                ('sig_r_bitflip', secp.der_encode(rr ^ 2, ss) + sig[-1:]),
                ('sig_s_bitflip', secp.der_encode(rr, ss ^ 2) + sig[-1:]),
                ('sig_high_s_twin', secp.der_encode(rr, secp.N - ss) + sig[-1:]),
                ('sig_hashtype_none', sig[:-1] + b'\x02'),
                ('sig_hashtype_all_acp', sig[:-1] + b'\x81'),
                ('sig_foreign_key', _refsig(txgen.scalar(seed, FOREIGN), _digest_for(r, i, ref))),
                ('sig_other_digest', _refsig(spec['inputs'][i]['keys'][0], codec.dsha256(b'another message'))),
                ('sig_r_zero', secp.der_encode(0, ss) + sig[-1:]),
                ('sig_s_equals_n', secp.der_encode(rr, secp.N) + sig[-1:]),
                ('sig_trailing_byte', sig[:-1] + b'\x00' + sig[-1:]),
            ]
            for nm, new in variants:
                e = _clone(r)
                it = list(items)
                it[p] = new
                _write_back(e, i, where, it)
                yield nm, e, amounts0
        if len(pos) >= 1 and txgen.KINDS[kind][3]:
            # fewer than m signatures
            e = _clone(r)
            it = list(items)
            del it[pos[-1]]
            _write_back(e, i, where, it)
            yield 'sig_dropped', e, amounts0
            # one signature duplicated in place of another
            if len(pos) >= 2:
                e = _clone(r)
                it = list(items)
                it[pos[1]] = it[pos[0]]
                _write_back(e, i, where, it)
                yield 'sig_duplicated', e, amounts0
                e = _clone(r)
                it = list(items)
                it[pos[0]], it[pos[1]] = it[pos[1]], it[pos[0]]
                _write_back(e, i, where, it)
                yield 'sig_swapped', e, amounts0


def sub_tamper_bytes(case):
    from bitcoinlib.transactions import Transaction
    cfg = case['cfg']
    seed = cfg.get('seed', 0)
    spec = _cfg_spec(cfg, seed)
    refs = [txgen.input_ref(i) for i in spec['inputs']]
    n_in = len(spec['inputs'])
    signers = case['signers']
    t = txgen.build(spec, sign=False, keys_per_input=[[] for _ in range(n_in)])
    for ii in range(n_in):
        comp = txgen.KINDS[spec['inputs'][ii]['kind']][2]
        js = signers[ii]
        t.sign(keys=[_libkey(spec['inputs'][ii]['keys'][j], comp) for j in js], index_n=ii)
    raw = t.raw()
    r = rtx.parse(raw)
    devs = []
    outs = {}
    nt = []
    tagk = '+'.join(cfg['kinds'])
    base = _ref_verdict(raw, refs)
    if base is not True or _lib_verify(t) is not True:
        devs.append({'sig': 'tamper|baseline_not_valid|%s' % tagk, 'detail': {'cfg': cfg, 'ref': base}})
        return {'devs': devs}
    n = 0
    for name, e, amounts in _byte_edits(r, spec, refs, seed):
        raw2 = rtx.serialize(e)
        refs2 = [dict(ref, amount=a) for ref, a in zip(refs, amounts)]
        rv = _ref_verdict(raw2, refs2)
        try:
            t2 = Transaction.parse(raw2, network=spec['network'])
            _resupply(t2, spec, refs2)
            lv = _lib_verify(t2)
        except Exception as ex:
            lv = 'parse_raise:' + type(ex).__name__
        n += 1
        nt.append('%s|%s|%s|%d' % (tagk, cfg['m'], name, n))
        lab = '%s:%s' % ('ref_valid' if rv else 'ref_invalid', 'lib_valid' if lv is True else 'lib_invalid')
        outs[lab] = outs.get(lab, 0) + 1
        if rv is True and lv is not True:
            devs.append({'sig': 'bytes|too_strict|%s|%s' % (name, tagk),
                         'detail': {'cfg': cfg, 'edit': name, 'lib': lv, 'raw': raw2.hex()[:600]}})
        elif rv is not True and lv is True:
            devs.append({'sig': 'bytes|too_lax|%s|%s' % (name, tagk),
                         'detail': {'cfg': cfg, 'edit': name, 'raw': raw2.hex()[:600]}})
    return {'devs': devs, 'n': n, 'nt': nt, 'out': outs}


def _object_edits(spec):
    """Names of object-level edits; applied by _apply_object_edit."""
    out = []
    for j in range(len(spec['outputs'])):
        out += [('out_value', j, 1), ('out_value', j, -1), ('out_script', j, 0), ('out_script', j, -1)]
    for i in range(len(spec['inputs'])):
        out += [('txid', i, 0), ('txid', i, 31), ('index', i, 1), ('seq', i, 1), ('seq', i, -1), ('amount', i, 1),
                ('amount', i, -1), ('index_bytes_only', i, 1), ('index_int_only', i, 1)]
    # fields the object keeps in two copies (bytes and int): also each copy alone - whatever copy raw() writes is
    # the one the signatures must be checked against
    out += [('locktime', 0, 1), ('locktime', 0, -1), ('version', 0, 0), ('version_bytes_only', 0, 0),
            ('version_int_only', 0, 0)]
    return out


def _apply_object_edit(t, ed):
    what, i, d = ed
    if what == 'out_value':
        t.outputs[i].value += d
    elif what == 'out_script':
        s = bytearray(t.outputs[i].lock_script)
        s[d] ^= 1
        t.outputs[i].lock_script = bytes(s)
    elif what == 'txid':
        b = bytearray(t.inputs[i].prev_txid)
        b[d] ^= 1
        t.inputs[i].prev_txid = bytes(b)
    elif what == 'index':
        v = t.inputs[i].output_n_int + d
        t.inputs[i].output_n_int = v
        t.inputs[i].output_n = v.to_bytes(4, 'big')
    elif what == 'seq':
        t.inputs[i].sequence = (t.inputs[i].sequence + d) % (1 << 32)
    elif what == 'amount':
        t.inputs[i].value += d
    elif what == 'locktime':
        t.locktime = (t.locktime + d) % (1 << 32)
    elif what == 'version':
        v = 1 if t.version_int != 1 else 2
        t.version_int = v
        t.version = v.to_bytes(4, 'big')
    elif what == 'version_bytes_only':
        t.version = (1 if t.version_int != 1 else 2).to_bytes(4, 'big')
    elif what == 'version_int_only':
        t.version_int = 1 if t.version_int != 1 else 2
    elif what == 'index_bytes_only':
        t.inputs[i].output_n = (t.inputs[i].output_n_int + d).to_bytes(4, 'big')
    elif what == 'index_int_only':
        t.inputs[i].output_n_int = t.inputs[i].output_n_int + d


def sub_tamper_object(case):
    """Edit fields of the live signed object (and of a re-parsed one) and ask verify()."""
    from bitcoinlib.transactions import Transaction
    cfg = case['cfg']
    seed = cfg.get('seed', 0)
    spec = _cfg_spec(cfg, seed)
    refs = [txgen.input_ref(i) for i in spec['inputs']]
    n_in = len(spec['inputs'])
    devs = []
    outs = {}
    nt = []
    tagk = '+'.join(cfg['kinds'])
    n = 0
    for form in ('live', 'parsed'):
        for ed in _object_edits(spec):
            t = txgen.build(spec, sign=True)
            if form == 'parsed':
                t = Transaction.parse(t.raw(), network=spec['network'])
                _resupply(t, spec, refs)
            _apply_object_edit(t, ed)
            lv = _lib_verify(t)
            amounts = [int(i.value) for i in t.inputs]
            try:
                raw2 = t.raw()
                refs2 = [dict(ref, amount=a) for ref, a in zip(refs, amounts)]
                rv = _ref_verdict(raw2, refs2)
            except Exception as ex:
                rv = None
            n += 1
            nt.append('%s|%s|%s|%s' % (tagk, form, ed[0], n))
            lab = '%s:%s' % ('ref_valid' if rv else 'ref_invalid', 'lib_valid' if lv is True else 'lib_invalid')
            outs[lab] = outs.get(lab, 0) + 1
            name = ed[0] + ('%+d' % ed[2] if ed[0] in ('out_value', 'seq', 'amount', 'locktime', 'index') else '')
            if rv is True and lv is not True:
                devs.append({'sig': 'object|too_strict|%s|%s|%s' % (form, name, tagk),
                             'detail': {'cfg': cfg, 'edit': ed, 'lib': lv}})
            elif rv is not True and lv is True:
                devs.append({'sig': 'object|too_lax|%s|%s|%s' % (form, name, tagk),
                             'detail': {'cfg': cfg, 'edit': ed}})
    return {'devs': devs, 'n': n, 'nt': nt, 'out': outs}


def sub_siglen(case):
    """Lengths (DER + hash-type byte) of the library's signature of key 0 on input 0 for a window of locktimes."""
    cfg = case['cfg']
    out = []
    for lt in range(case['lo'], case['hi']):
        spec = _cfg_spec(dict(cfg, locktime=lt), cfg.get('seed', 0))
        t = txgen.build(spec, sign=False, keys_per_input=[[] for _ in spec['inputs']])
        comp = txgen.KINDS[spec['inputs'][0]['kind']][2]
        t.sign(keys=[_libkey(spec['inputs'][0]['keys'][0], comp)], index_n=0)
        sg = t.inputs[0].signatures[0]
        out.append([lt, len(sg.as_der_encoded()), (sg.r >> 248) & 0xff])
    return {'ret': out, 'n': len(out), 'out': 'scanned'}


def sub_txhist(case):
    return txhist.sub_hist(case, txhist.check_verify_equals_reference)


SUBS = {'siglen': sub_siglen, 'txhist': sub_txhist, 'hist': sub_hist, 'tamper_bytes': sub_tamper_bytes, 'tamper_object': sub_tamper_object}


def run(ctx):
    q = ctx.quick
    seed = ctx.seed
    K = txgen.KIND_NAMES
    single = [k for k in K if not txgen.KINDS[k][3]]
    multi = [k for k in K if txgen.KINDS[k][3]]
    mns = [(1, 1), (1, 2), (2, 2), (2, 3)] + ([] if q else [(1, 3), (3, 3), (2, 4), (3, 5)])
    cfgs = []
    for k in single:
        cfgs.append({'kinds': [k], 'm': 1, 'n': 1, 'seed': seed})
    for k in multi:
        for m, n in mns:
            cfgs.append({'kinds': [k], 'm': m, 'n': n, 'seed': seed})
    # two-input transactions: every pair of one single-key and one multisig kind, plus same-kind pairs
    pairs = [[a, b] for a in single for b in multi] + [[b, a] for a in single[:2] for b in multi]
    pairs += [[a, a] for a in K] if not q else [['p2wpkh', 'p2wpkh'], ['p2sh_ms', 'p2wsh_ms']]
    for p in pairs:
        cfgs.append({'kinds': p, 'm': 2, 'n': 3 if not q else 2, 'seed': seed})
    # rare size classes of a signature: the locktime is moved through a window and the library's own signature of
    # key 0 on input 0 is measured (selection only - the verdicts stay with the reference): the first locktime
    # giving a signature of <= 70 bytes with its hash-type byte (r or s with a leading zero byte, about 1 in 85)
    # and the first giving 72 bytes are added as configurations
    short = []
    W = 1200
    kinds_s = (['p2wpkh'], ['p2wsh_ms'], ['p2sh_p2wsh_ms'], ['p2sh_p2wpkh'], ['p2pkh'], ['p2sh_ms'], ['p2pk'])
    bases = []
    for k in kinds_s:
        ms = txgen.KINDS[k[0]][3]
        bases.append({'kinds': k, 'm': 2 if ms else 1, 'n': 3 if ms else 1, 'seed': seed})
    scans = ctx.pmap('siglen', [{'cfg': b, 'lo': 500000100 + j, 'hi': 500000100 + j + 25} for b in bases
                                for j in range(0, W, 25)], chunk=1)
    for bi, base in enumerate(bases):
        lens = {}
        for r in scans[bi * (W // 25):(bi + 1) * (W // 25)]:
            for lt, ln, r0 in r:
                lens.setdefault('short' if ln <= 70 else 'long' if ln >= 72 else 'usual', lt)
                if r0 == 0x30:
                    lens.setdefault('r_starts_with_0x30', lt)     # the 64-byte r||s form then starts like a DER sequence
        for tag in ('short', 'r_starts_with_0x30') if q else ('short', 'r_starts_with_0x30', 'long'):
            if tag not in lens:
                ctx.cap('no %s signature for %s within %d locktimes' % (tag, base['kinds'][0], W))
                continue
            short.append(dict(base, locktime=lens[tag], siglen=tag))
    ctx.note('signature_length_configs', [[c['kinds'][0], c['siglen'], c['locktime']] for c in short])
    cfgs += short
    depth = 5 if q else 7
    total = ctx.bfs_multi('hist', [(cfg, depth) for cfg in cfgs
                                   if not (len(cfg['kinds']) == 2 and cfg['n'] > 2 and q)], max_states=4000)
    # tamper neighbourhood of every fully signed configuration
    tcases = []
    for cfg in cfgs:
        n_in = len(cfg['kinds'])
        spec = _cfg_spec(cfg, seed)
        choices = []
        for inp in spec['inputs']:
            nk = len(inp['keys'])
            m = inp.get('m', 1)
            sets = [list(range(m))]
            if nk > m:
                sets.append(list(range(nk - m, nk)))
                if not q:
                    sets.append(list(range(nk)))
            choices.append(sets)
        for signers in itertools.product(*choices):
            tcases.append({'cfg': cfg, 'signers': [list(s) for s in signers]})
    # operation histories on one live Transaction object that holds its private keys (locktime setters, bumpfee,
    # shuffles, edits, sign_and_update ...): verify() must agree with the reference verdict on raw() in every state
    hcfgs = [({'kinds': k, 'seed': seed % 1000, 'events': txhist.EVENTS}, 2 if q else 3) for k in txhist.CONFIGS]
    ctx.note('object_history_states', ctx.bfs_multi('txhist', hcfgs, max_states=3000 if q else 40000))
    ctx.pmap('tamper_bytes', tcases, chunk=1)
    ctx.pmap('tamper_object', [{'cfg': c} for c in cfgs], chunk=1)
    ctx.note('bounds', {'configs': len(cfgs), 'm_of_n': mns, 'history_depth': depth, 'history_states': total,
                        'tamper_configs': len(tcases)})
