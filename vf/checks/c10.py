"""C10 Multisig cosigner wallets agree on scripts; exactly m distinct signers suffice.

E1 (agreement): for every (m, n), every order in which the cosigner keys are supplied, every choice
of private holder and every witness type, the cosigner wallet is created for real and its addresses
for a set of paths are compared with the reference sorted-multisig script of the reference BIP32
derivations - hence with each other.
E2 (threshold): BFS over signing ceremonies between n real cosigner wallets (separate databases):
events "cosigner j takes the transaction in form f (own object / imported object / dict / raw hex)
and signs"; in every state verified/pushed must equal |distinct signers| >= m and a verified
transaction must pass the reference interpreter against the reference scriptPubKey.
"""
import itertools
import os
import shutil

from vf import env, wharness as wh
from vf.ref import bip32, nets, secp, tx as rtx, interp

ID = 'C10'
LEVEL = 'model_checking'
RULE = ('agreement: full product (m,n) x permutations of supplied keys x private holder x witness type x paths, each '
        'wallet really created; threshold: BFS over (signer, hand-off form) event histories on n real cosigner wallets, '
        'each history replayed on fresh database copies; states = (set of distinct signers, last hand-off form, number '
        'of signatures the carrier holds); invariant evaluated in every state')
ASSUMPTIONS = ['reference BIP32 + sorted multisig script + golden network table decide the expected address',
               'legacy (BIP45 style) paths contain the cosigner index: agreement is checked per explicit cosigner_id',
               'network bitcoinlib_test: broadcast is answered by the bundled dummy provider',
               'the funding output is added to every cosigner wallet with utxo_add (same outpoint)']
NET = wh.NET
H = bip32.HARD
_TPL = {}


def selftest():
    secp.selftest()
    bip32.selftest()
    rtx.selftest()
    interp.selftest()
    nets.selftest()


def _masters(seed, n):
    from bitcoinlib.keys import HDKey
    return [HDKey.from_seed(wh.seed_bytes(seed, j).hex(), network=NET) for j in range(n)]


def _create(wt, m, n, holder, order, seed):
    from bitcoinlib.wallets import Wallet
    ms = _masters(seed, n)
    keys = []
    for j in order:
        keys.append(ms[j] if j == holder else ms[j].public_master_multisig(witness_type=wt))
    p = env.fresh_db_path('c10')
    w = Wallet.create('w', keys=keys, sigs_required=m, network=NET, witness_type=wt, db_uri=p,
                      db_cache_uri=wh.cache_db())
    return w, p


def _ref(wt, m, n, seed, change, index, cosigner_id):
    pubs = []
    coin = nets.NETS[NET]['bip44_cointype']
    for j in range(n):
        mk = wh.ref_master(seed, j)
        if wt == 'legacy':
            k = bip32.derive(mk, [45 + H, cosigner_id, change, index])
        else:
            st = 2 if wt == 'segwit' else 1
            k = bip32.derive(mk, [48 + H, coin + H, 0 + H, st + H, change, index])
        pubs.append(k.pub)
    return wh.ref_address_multisig(pubs, m, wt, NET)


def sub_agree(case):
    wt, m, n, holder, order, seed = case['wt'], case['m'], case['n'], case['holder'], case['order'], case['seed']
    devs = []
    try:
        w, p = _create(wt, m, n, holder, order, seed)
    except Exception as e:
        return {'devs': [{'sig': 'agree|wallet_create_raises|%s' % wt, 'detail': {'case': case, 'exc': repr(e)[:300]}}]}
    nt = []
    try:
        for change, index in ((0, 0), (0, 1), (1, 0), (0, 3)):
            cids = range(n) if wt == 'legacy' else [None]
            for cid in cids:
                try:
                    k = w.key_for_path([change, index], cosigner_id=cid) if cid is not None else \
                        w.key_for_path([change, index])
                except Exception as e:
                    devs.append({'sig': 'agree|key_for_path_raises|%s' % wt,
                                 'detail': {'case': case, 'path': [change, index], 'cid': cid, 'exc': repr(e)[:200]}})
                    continue
                a, spk, redeem = _ref(wt, m, n, seed, change, index, cid if cid is not None else 0)
                nt.append('%s|%d%d|%s|%d|%d%d%s' % (wt, m, n, ''.join(map(str, order)), holder, change, index, cid))
                if k.address != a:
                    devs.append({'sig': 'agree|address_differs_from_reference_sorted_multisig|%s' % wt,
                                 'detail': {'case': case, 'path': k.path, 'cid': cid, 'address': k.address, 'expected': a}})
        # the same paths reached through get_key / get_keys / new_key with an explicit cosigner index (legacy wallets:
        # the index is part of the path, so every cosigner wallet must land on the same branch for the same request)
        if wt == 'legacy':
            for cid in range(n):
                for how in ('get_key', 'get_keys', 'new_key'):
                    try:
                        if how == 'get_key':
                            ks = [w.get_key(cosigner_id=cid)]
                        elif how == 'get_keys':
                            ks = w.get_keys(cosigner_id=cid, number_of_keys=2)
                        else:
                            ks = [w.new_key(cosigner_id=cid)]
                    except Exception as e:
                        devs.append({'sig': 'agree|%s_with_cosigner_id_raises|%s' % (how, wt),
                                     'detail': {'case': case, 'cid': cid, 'exc': repr(e)[:200]}})
                        continue
                    for k in ks:
                        parts = k.path.split('/')
                        try:
                            pc, chg, idx = int(parts[2]), int(parts[3]), int(parts[4])
                        except (ValueError, IndexError):
                            pc = chg = idx = None
                        nt.append('%s|%d%d|%s|%d|%s%d%s' % (wt, m, n, ''.join(map(str, order)), holder, how, cid, k.path))
                        if pc != cid:
                            devs.append({'sig': 'agree|%s_returns_key_of_another_cosigner_branch|%s' % (how, wt),
                                         'detail': {'case': case, 'requested_cosigner_id': cid, 'path': k.path}})
                            continue
                        a, spk, redeem = _ref(wt, m, n, seed, chg, idx, cid)
                        if k.address != a:
                            devs.append({'sig': 'agree|address_differs_from_reference_sorted_multisig|%s' % wt,
                                         'detail': {'case': case, 'path': k.path, 'cid': cid, 'address': k.address, 'expected': a,
                                                    'how': how}})
        # default keys handed out by get_key() must also be one of the reference addresses of some cosigner index
        k = w.get_key()
        cand = [_ref(wt, m, n, seed, 0, 0, c)[0] for c in (range(n) if wt == 'legacy' else [0])]
        if k.address not in cand:
            devs.append({'sig': 'agree|get_key_address_not_a_reference_address|%s' % wt,
                         'detail': {'case': case, 'path': k.path, 'address': k.address}})
    finally:
        wh.close(w, p)
    return {'devs': devs, 'n': len(nt) + 1, 'nt': nt, 'out': 'ok' if not devs else 'dev'}


# ------------------------------------------------------------------------------ ceremonies
# options of the spend being handed around: they change locktime / sequence / version, which every hand-off form must carry
CREATE_OPTS = {'default': {}, 'locktime': {'locktime': 650000}, 'rbf': {'replace_by_fee': True},
               'no_fee_sniping': {}}      # wallet attribute anti_fee_sniping = False on the creating wallet: locktime 0

def _templates(wt, m, n, seed, offline=False):
    key = (wt, m, n, seed, offline, os.getpid())
    if key not in _TPL:
        paths = []
        order = list(range(n))
        addr = None
        cid0 = None
        for h in range(n):
            w, p = _create(wt, m, n, h, order, seed)
            # one outpoint pays ONE script: every wallet records the funding of the address the first wallet handed
            # out (legacy wallets derive per-cosigner branches and their own default branch may differ)
            if h == 0:
                k = w.get_key()
                cid0 = k.cosigner_id
                addr = k.address
            else:
                k = w.get_key(cosigner_id=cid0) if wt == 'legacy' else w.get_key()
                if k.address != addr:
                    raise RuntimeError('cosigner wallets disagree on the funded address (see sub-space agree): %s %s'
                                       % (k.address, addr))
            if h == 0 or not offline:
                # offline: only the creating wallet knows the output; the others (air-gapped signers) derived the
                # address but never saw the funding transaction
                w.utxo_add(k.address, 100000, wh.utxo_txid(seed, 77), 0, confirmations=5)
            wh.close(w, None, remove=False)
            paths.append(p)
        _TPL[key] = (paths, addr)
    return _TPL[key]


def sub_siglen(case):
    """Length of the first cosigner's signature (DER + hash-type byte) for a window of output amounts (selection of
    ceremonies with a rare signature size; nothing is judged here)."""
    from bitcoinlib.wallets import Wallet
    wt, m, n, seed = case['wt'], case['m'], case['n'], case['seed']
    tpl, addr = _templates(wt, m, n, seed)
    d = env.fresh_db_path('c10scan')
    shutil.copyfile(tpl[0], d)
    w = Wallet('w', db_uri=d, db_cache_uri=wh.cache_db())
    out = []
    try:
        for amount in range(case['lo'], case['hi']):
            with wh.ForcedRandom(None, 'uniform', 'identity'):
                t = w.transaction_create([(wh.external_address(9)[0], amount)], fee=3000, min_confirms=0)
            t.sign()
            sigs = t.inputs[0].signatures
            out.append([amount, len(sigs[0].as_der_encoded()) if sigs else 0, ((sigs[0].r >> 248) & 0xff) if sigs else -1])
    finally:
        wh.close(w, d)
    return {'ret': out, 'n': len(out), 'out': 'scanned'}


def sub_ceremony(case):
    from bitcoinlib.wallets import Wallet, WalletError
    from bitcoinlib.transactions import TransactionError
    cfg, hist = case['cfg'], case['hist']
    wt, m, n, seed = cfg['wt'], cfg['m'], cfg['n'], cfg['seed']
    tpl, addr = _templates(wt, m, n, seed, bool(cfg.get('offline')))
    ws = []
    devs = []
    try:
        for p in tpl:
            d = env.fresh_db_path('c10case')
            shutil.copyfile(p, d)
            ws.append((Wallet('w', db_uri=d, db_cache_uri=wh.cache_db()), d))
        t = None
        signers = []
        raw_below_m = False
        label = 'init'
        cid_used = ws[0][0].get_key().cosigner_id
        for ev in hist:
            _, j, form = ev
            wj = ws[j][0]
            try:
                if t is None:
                    with wh.ForcedRandom(None, 'uniform', 'identity'):
                        if cfg.get('create') == 'no_fee_sniping':
                            wj.anti_fee_sniping = False
                        t = wj.transaction_create([(wh.external_address(9)[0], cfg.get('amount', 40000))], fee=3000, min_confirms=0,
                                                  **CREATE_OPTS[cfg.get('create', 'default')])
                    created = (t.locktime, t.version_int, [i.sequence for i in t.inputs])
                    t.sign()
                else:
                    if form == 'raw' and len(set(signers)) < m and signers:
                        raw_below_m = True
                    if form == 'obj':
                        t = wj.transaction_import(t)
                    elif form == 'dict':
                        t = wj.transaction_import(t.as_dict())
                    elif form == 'raw':
                        t = wj.transaction_import_raw(t.raw_hex())
                    t.sign()
                    now = (t.locktime, t.version_int, [i.sequence for i in t.inputs])
                    if now != created and not any(d['sig'].startswith('handoff|') for d in devs):
                        devs.append({'sig': 'handoff|fields_of_the_spend_changed_by_import|%s|%s|%s' % (
                            form, cfg.get('create', 'default'), wt),
                            'detail': {'created_locktime_version_sequences': created, 'after_import': now}})
                signers.append(j)
                label = 'signed'
            except (WalletError, TransactionError) as e:
                label = 'refused'
                devs.append({'sig': 'ceremony|step_refused|%s|%s' % (form, wt),
                             'detail': {'exc': repr(e)[:300]}})
                break
        expect = len(set(signers)) >= m
        nsig = None
        if t is not None:
            got = bool(t.verified)
            try:
                got2 = bool(t.verify())
            except Exception:
                got2 = None
            nsig = [len(i.signatures) for i in t.inputs]
            cls = None
            if got != expect or got2 != expect:
                if (got or got2) and not expect:
                    cls = 'too_lax'
                elif raw_below_m:
                    cls = 'too_strict_after_raw_handoff_below_m'
                else:
                    cls = 'too_strict'
                devs.append({'sig': 'threshold|%s|%s' % (cls, wt),
                             'detail': {'verified': got, 'verify()': got2, 'signers': signers, 'm': m,
                                        'signature_counts': nsig}})
            # broadcast
            try:
                t.send(broadcast=True)
                pushed = bool(t.pushed)
            except Exception as e:
                pushed = 'raise:' + type(e).__name__
            if pushed is True and not expect:
                devs.append({'sig': 'broadcast|pushed_with_fewer_than_m_signers|%s' % wt,
                             'detail': {'signers': signers, 'm': m}})
            elif pushed is not True and expect and cls is None:
                devs.append({'sig': 'broadcast|not_pushed_although_threshold_reached|%s' % wt,
                             'detail': {'signers': signers, 'm': m, 'pushed': pushed, 'error': getattr(t, 'error', None)}})
            if expect and cls is None:
                a, spk, redeem = _ref(wt, m, n, seed, 0, 0, cid_used if wt == 'legacy' else 0)
                try:
                    r = rtx.parse(t.raw())
                    ok = interp.verify_script(r.vin[0]['script'], spk, r.wit[0] if r.wit else [],
                                              interp.TxChecker(r, 0, 100000))
                except Exception as e:
                    ok = 'raise:' + repr(e)[:100]
                if ok is not True:
                    devs.append({'sig': 'verified_tx_fails_reference_interpreter|%s' % wt,
                                 'detail': {'signers': signers, 'ok': ok}})
            label = 'verified' if got else 'unverified'
        for d in devs:
            d['detail']['hist'] = hist
            d['detail']['cfg'] = cfg
        state = {'signers': sorted(set(signers)), 'last_form': hist[-1][2] if hist else None, 'nsig': nsig,
                 'raw_below_m': raw_below_m}
        if hist and len(hist) >= cfg['max_len']:
            en = []
        elif not hist:
            en = [['sign', j, 'own'] for j in (range(n) if not cfg.get('offline') else [0])]
        else:
            en = [['sign', j, f] for j in range(n) for f in cfg['forms']]
        return {'devs': devs, 'ret': {'state': state, 'enabled': en}, 'out': label}
    finally:
        for w, d in ws:
            wh.close(w, d)


def _templates2(wt, m, n, seed):
    """Cosigner wallets that all know TWO funded addresses (two outpoints): a spend of both has two inputs whose
    signing states can differ."""
    key = ('two', wt, m, n, seed, os.getpid())
    if key not in _TPL:
        paths = []
        addrs = None
        cid0 = None
        for h in range(n):
            w, p = _create(wt, m, n, h, list(range(n)), seed)
            if h == 0:
                ks = w.get_keys(number_of_keys=2)
                cid0 = ks[0].cosigner_id
                addrs = [k.address for k in ks]
            else:
                ks = w.get_keys(number_of_keys=2, cosigner_id=cid0) if wt == 'legacy' else w.get_keys(number_of_keys=2)
                if [k.address for k in ks] != addrs:
                    raise RuntimeError('cosigner wallets disagree on the funded addresses (see sub-space agree)')
            for i, a in enumerate(addrs):
                w.utxo_add(a, 100000, wh.utxo_txid(seed, 80 + i), 0, confirmations=5)
            wh.close(w, None, remove=False)
            paths.append(p)
        _TPL[key] = (paths, addrs)
    return _TPL[key]


def sub_cer2(case):
    """Two-input ceremonies: events ['all', j] (cosigner wallet j takes the object and signs every input) and
    ['one', j, i] (cosigner j signs input i only, with the address-level private key of that input, as an offline signer
    does; the wallet carrying the object signs every input next to it).  Model: the set of distinct signers per input; the spend verifies / is pushed iff EVERY input has >= m."""
    from bitcoinlib.wallets import Wallet, WalletError
    from bitcoinlib.transactions import TransactionError
    cfg, hist = case['cfg'], case['hist']
    wt, m, n, seed = cfg['wt'], cfg['m'], cfg['n'], cfg['seed']
    tpl, addrs = _templates2(wt, m, n, seed)
    masters = _masters(seed, n)
    ws = []
    devs = []
    try:
        for p in tpl:
            d = env.fresh_db_path('c10two')
            shutil.copyfile(p, d)
            ws.append((Wallet('w', db_uri=d, db_cache_uri=wh.cache_db()), d))
        with wh.ForcedRandom(None, 'uniform', 'identity'):
            t = ws[0][0].transaction_create([(wh.external_address(9)[0], 150000)], fee=3000, min_confirms=0)
        if len(t.inputs) != 2:
            raise RuntimeError('two-input template produced %d inputs' % len(t.inputs))
        signed = [set() for _ in t.inputs]
        carrier = 0
        order = [i.address for i in t.inputs]
        label = 'created'
        for ev in hist:
            try:
                if ev[0] == 'all':
                    j = ev[1]
                    if j != carrier:
                        t = ws[j][0].transaction_import(t)
                        carrier = j
                    t.sign()
                    for s_ in signed:
                        s_.add(j)
                else:
                    _, j, i = ev
                    inp = t.inputs[i]
                    child = masters[j].subkey_for_path(inp.key_path)
                    if child.public_byte not in [k.public_byte for k in inp.keys]:
                        raise RuntimeError('reference child key of cosigner %d is not a key of input %d' % (j, i))
                    t.sign(keys=child)
                    signed[i].add(j)
                    # WalletTransaction.sign(keys=...) uses the EXTRA keys next to the private keys of the wallet
                    # that carries the object, and those sign every input
                    for s_ in signed:
                        s_.add(carrier)
                label = 'signed'
            except (WalletError, TransactionError) as e:
                devs.append({'sig': 'ceremony2|step_refused|%s|%s' % (ev[0], wt), 'detail': {'exc': repr(e)[:300]}})
                label = 'refused'
                break
        expect = all(len(s_) >= m for s_ in signed)
        nsig = [len(i.signatures) for i in t.inputs]
        if label != 'refused':
            want = [min(len(s_), n) for s_ in signed]
            if [min(x, m) for x in nsig] != [min(x, m) for x in want]:
                devs.append({'sig': 'ceremony2|signature_count_per_input_differs_from_signers|%s' % wt,
                             'detail': {'signature_counts': nsig, 'signers_per_input': [sorted(x) for x in signed]}})
            try:
                got = bool(t.verify())
            except Exception as e:
                got = 'raise:' + type(e).__name__
            if got != expect:
                devs.append({'sig': 'threshold2|%s|%s' % ('too_lax' if got is True else 'too_strict', wt),
                             'detail': {'verify()': got, 'signers_per_input': [sorted(x) for x in signed], 'm': m,
                                        'signature_counts': nsig}})
            try:
                t.send(broadcast=True)
                pushed = bool(t.pushed)
            except Exception as e:
                pushed = 'raise:' + type(e).__name__
            if pushed is True and not expect:
                devs.append({'sig': 'broadcast2|pushed_with_an_input_below_m_signers|%s' % wt,
                             'detail': {'signers_per_input': [sorted(x) for x in signed], 'm': m}})
            elif pushed is not True and expect and got is True:
                devs.append({'sig': 'broadcast2|not_pushed_although_threshold_reached|%s' % wt,
                             'detail': {'pushed': pushed, 'error': getattr(t, 'error', None)}})
            if expect and got is True:
                cid = ws[0][0].get_key().cosigner_id
                r = rtx.parse(t.raw())
                for i, a in enumerate(order):
                    _, spk, _ = _ref(wt, m, n, seed, 0, addrs.index(a), cid if wt == 'legacy' else 0)
                    try:
                        ok = interp.verify_script(r.vin[i]['script'], spk, r.wit[i] if r.wit else [],
                                                  interp.TxChecker(r, i, 100000))
                    except Exception as e:
                        ok = 'raise:' + repr(e)[:100]
                    if ok is not True:
                        devs.append({'sig': 'verified_tx_fails_reference_interpreter|two_inputs|%s' % wt,
                                     'detail': {'input': i, 'ok': ok}})
            label = 'verified' if got is True else 'unverified'
        for d in devs:
            d['detail']['hist'] = hist
            d['detail']['cfg'] = cfg
        state = {'signed': [sorted(x) for x in signed], 'nsig': nsig, 'label': label == 'refused', 'carrier': carrier}
        en = [['all', j] for j in range(n)] + [['one', j, i] for j in range(n) for i in range(2)]
        return {'devs': devs, 'ret': {'state': state, 'enabled': en}, 'out': label + ':%s' % nsig}
    finally:
        for w, d in ws:
            wh.close(w, d)


SUBS = {'siglen': sub_siglen, 'agree': sub_agree, 'ceremony': sub_ceremony, 'cer2': sub_cer2}


def run(ctx):
    q = ctx.quick
    seed = ctx.seed % 1000
    wts = ['legacy', 'p2sh-segwit', 'segwit']
    cases = []
    # (a key list of length 1 makes an ordinary single-signature wallet, not a 1-of-1 multisig: n starts at 2)
    mns = [(1, 2), (2, 2), (2, 3)] + ([] if q else [(1, 3), (3, 3), (2, 4), (3, 5)])
    for wt in wts:
        for m, n in mns:
            perms = list(itertools.permutations(range(n))) if n <= (3 if q else 4) else \
                [tuple(range(n)), tuple(reversed(range(n)))] + [tuple(range(k, n)) + tuple(range(k)) for k in range(1, n)]
            for order in perms:
                for holder in range(n):
                    cases.append({'wt': wt, 'm': m, 'n': n, 'holder': holder, 'order': list(order), 'seed': seed})
    if not q:
        for wt in wts:
            for m, n in ((2, 7), (8, 15), (15, 15)):
                for order in (list(range(n)), list(reversed(range(n)))):
                    for holder in (0, n - 1):
                        cases.append({'wt': wt, 'm': m, 'n': n, 'holder': holder, 'order': order, 'seed': seed})
    ctx.pmap('agree', cases, chunk=1)
    cer = []
    forms = ['obj', 'dict', 'raw']
    for wt in wts:
        for m, n in ([(2, 2), (2, 3)] if q else [(1, 2), (2, 2), (2, 3), (3, 3), (2, 4)] +
                     ([(3, 5)] if wt == 'segwit' else []) + ([(2, 5)] if wt != 'p2sh-segwit' else [])):
            # quick: ceremonies up to m+1 signing steps (n if smaller); thorough: one more step (a cosigner who
            # signs again / an extra cosigner after the threshold)
            ln = min(n, m + 1) + (0 if q else 1)
            if (m, n) == (2, 5):
                ln = 4          # two cosigners beyond the threshold (over-signed inputs handed on)
            cer.append(({'wt': wt, 'm': m, 'n': n, 'seed': seed, 'forms': forms, 'max_len': ln}, ln))
    for wt in wts:
        for opt in ('locktime', 'rbf', 'no_fee_sniping'):
            if q and (wts.index(wt) + ['locktime', 'rbf', 'no_fee_sniping'].index(opt)) % 3:
                continue        # quick: each option on one witness type, each witness type with one option
            cer.append(({'wt': wt, 'm': 2, 'n': 3, 'seed': seed, 'forms': forms, 'max_len': 3, 'create': opt}, 3))
    # cosigners that never saw the funding transaction (air-gapped signers): only wallet 0 knows the output
    for wt in wts if not q else wts[1:2] + wts[2:]:
        # (raw hex carries neither value nor address of the output: an offline wallet refuses it and points to the
        # dictionary form - a documented limit, so only the object and dictionary forms are handed around here)
        cer.append(({'wt': wt, 'm': 2, 'n': 3, 'seed': seed, 'forms': ['obj', 'dict'], 'max_len': 3, 'offline': True}, 3))
    # ceremonies whose first signature has a rare size (<= 70 bytes with the hash-type byte): the output amount is moved
    # through a window and the library's own signature is measured to select the amount
    W = 800 if q else 2000
    scans = ctx.pmap('siglen', [{'wt': wt, 'm': 2, 'n': 3, 'seed': seed, 'lo': 40001 + j, 'hi': 40001 + j + 20}
                                for wt in wts for j in range(0, W, 20)], chunk=1)
    picked = []
    for wi, wt in enumerate(wts):
        amts = {}
        for r in scans[wi * (W // 20):(wi + 1) * (W // 20)]:
            for a, ln, r0 in r:
                if 0 < ln <= 70:
                    amts.setdefault('short', a)
                if r0 == 0x30:
                    amts.setdefault('r_starts_with_0x30', a)    # its 64-byte r||s form (dictionary export) looks like DER
        for cls in ('short', 'r_starts_with_0x30'):
            if cls not in amts:
                ctx.cap('no %s signature for %s within %d amounts' % (cls, wt, W))
                continue
            picked.append([wt, cls, amts[cls]])
            cer.append(({'wt': wt, 'm': 2, 'n': 3, 'seed': seed, 'forms': forms, 'max_len': 3 if cls == 'short' or not q else 2,
                         'amount': amts[cls]}, 3 if cls == 'short' or not q else 2))
    ctx.note('short_signature_ceremonies', picked)
    total = ctx.bfs_multi('ceremony', cer, max_states=3000 if q else 30000)
    # two-input spends: per-input signing states (a cosigner that signs one input only)
    cer2 = [({'wt': wt, 'm': 2, 'n': 3, 'seed': seed}, 2 if q else 3) for wt in wts]
    if not q:
        cer2 += [({'wt': wt, 'm': 2, 'n': 2, 'seed': seed}, 3) for wt in wts] + [({'wt': 'segwit', 'm': 3, 'n': 3, 'seed': seed}, 4)]
    total2 = ctx.bfs_multi('cer2', cer2, max_states=3000 if q else 30000)
    ctx.note('two_input_ceremony_states', total2)
    ctx.note('bounds', {'agreement_cases': len(cases), 'm_of_n': mns, 'ceremony_configs': len(cer),
                        'ceremony_states': total, 'forms': forms})
