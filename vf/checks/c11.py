"""C11 Checksummed text encodings are canonical and corruption is rejected.

E1 input-space enumeration: for every base string (address, WIF, extended key, BIP38 key, Bech32/Bech32m
address) the complete single-edit neighbourhood (substitution by every symbol, insertion of every symbol,
deletion, adjacent transposition, at every position) plus structured damage (case changes, wrong Bech32
constant, non-zero padding bits, truncation, padding, dropped/added leading '1's) is fed to every decoding
entry point of the library.  The reference decoders (vf/ref/codec.py, addr.py, bip32.py, bip38.py, golden
network table) decide for every mutant whether it is a valid encoding and of what.

Sub-space 'unicode': the same strings (Bech32 ones also in the all-upper-case form of BIP173) damaged by
characters OUTSIDE US-ASCII that a text transform of the standard library maps back onto the replaced
character(s): every code point of the interpreter's Unicode database whose str.lower/upper/casefold/title/
swapcase/capitalize, NFC/NFD/NFKC/NFKD form, "decompose and drop non-ASCII" form, decimal/digit value or
low 7/8/16 bits is the replaced text, and every white-space / control / invisible character inserted at every
gap.  None of them is a symbol of any of the encodings, so the specification makes every such string invalid.
"""
import hashlib
import unicodedata

from vf.ref import addr as raddr
from vf.ref import bip32, bip38, codec, nets, secp

ID = 'C11'
LEVEL = 'exploration'
RULE = ('for each base string (every distinct address version / HRP / WIF version / extended-key prefix of the '
        'golden network table, BIP38 plain and EC-multiplied keys; payload alphabet all-zero, all-ff, leading '
        'zero, VERIF_SEED-derived) the complete single-edit neighbourhood is enumerated: substitution of every '
        'position by every other symbol of the encoding alphabet plus the look-alikes outside it (0 O I l, '
        'space, upper case for Bech32), insertion of every symbol at every gap, every deletion, every adjacent '
        'transposition, plus a fixed list of structured damages (truncations, paddings, leading 1 removed/added, '
        'case changes, Bech32<->Bech32m constant, non-zero padding bits, bad witness version/program length) and '
        'all 256 version bytes / unknown prefixes; every mutant is given to every decoding entry point; the '
        'reference decoder classifies the mutant (valid / invalid / checksum-valid but non-standard) and the '
        'library must refuse every invalid one and return the reference payload and the identical re-encoding '
        'for every one it accepts. Bech32 base strings are also enumerated in their all-upper-case form. '
        'Sub-space unicode: for every base string (Bech32: lower and upper form) and every position, the 1-3 '
        'characters at that position are replaced by every non-ASCII code point of the Unicode database that a '
        'standard text transform (case mapping, NFC/NFD/NFKC/NFKD, decompose-and-drop-non-ASCII, decimal/digit '
        'value, low 7/8/16 bits) maps onto those characters in either case, and every Unicode white-space, C0 '
        'control and a fixed list of invisible/combining characters is inserted at every gap; all of these '
        'strings are invalid. A case is non-trivial when the mutant differs from its base string; '
        'distinct by (base string, edit kind, position).')
ASSUMPTIONS = [
    'reference Base58Check/Bech32/BIP32/BIP38 decoders and the golden network table are validated by their '
    'self-tests (BIP173/BIP350 valid+invalid lists, BIP32 vectors 1-4, BIP38 vectors)',
    'the property is read one-directionally: refusing a valid string is only reported for the standard forms '
    'the library itself produces (p2pkh, p2sh, v0 20/32-byte and v1 32-byte witness programs, WIF, extended '
    'keys, BIP38); witness versions 2..16 and unusual program lengths may be refused',
    'Base58Check strings with a correct checksum and known version but a non-standard payload length / key '
    'value are not demanded either way (only counted)',
    'all-upper-case Bech32 is valid (BIP173): the library may refuse it or must return the same payload; the '
    're-encoding is then compared with the lower-case form; the network of an upper-case string is not demanded',
    'where several networks share a version byte the library may pick any of them; a refusal of an ambiguous '
    'string without a network hint is accepted, so WIF/extended-key mutants are decoded with the network hint',
    'the complete BIP38 neighbourhood is explored with the key-derivation function (bitcoinlib.keys.scrypt_hash '
    'and the reference _scrypt) replaced by the same cheap deterministic function - the text encoding and the '
    'checksum do not depend on the KDF; a smaller sub-space (published vectors, final-position substitutions) '
    'runs with the real scrypt',
    'bip38_decrypt() returns the 4-byte address hash "for verification" by its caller: it counts as having '
    'accepted a string only when the returned key reproduces that address hash',
    'addr_to_pubkeyhash / addr_base58_to_pubkeyhash / addr_bech32_to_pubkeyhash do not interpret the version '
    'byte or HRP, so any version is accepted there',
    'multi-character random damage is not enumerated (only the fixed structured list)',
    'the table of Unicode equivalents is computed from the unicodedata module of the running interpreter (its '
    'version is recorded in the bounds) over all code points; the transforms are the fixed list in _U_TRANSFORMS - '
    'the low-bits class has one representative per width (7, 8, 16 bits), not every code point with those low bits',
    'a string with a character outside the encoding alphabet is invalid whatever a transform would make of it; '
    'the text of the property ("accepted only if it is the canonical encoding") is read literally here',
]

B58 = codec.B58
B58_OUT = '0OIl '
BECH = codec.CHARSET
BECH_SYMS = BECH + ''.join(sorted(set(BECH.upper()) - set(BECH))) + 'bio1BIO '


# ----------------------------------------------------------------------------- Unicode equivalents of ASCII text
def _ascii_drop(w):
    return w.encode('ascii', 'ignore').decode()


def _nf(form):
    return lambda w: unicodedata.normalize(form, w)


# (class, name, transform): every way the standard library turns a string into "the same" string
_U_TRANSFORMS = [
    ('case', 'lower', str.lower), ('case', 'upper', str.upper), ('case', 'casefold', str.casefold),
    ('case', 'title', str.title), ('case', 'swapcase', str.swapcase), ('case', 'capitalize', str.capitalize),
    ('norm', 'NFC', _nf('NFC')), ('norm', 'NFD', _nf('NFD')), ('norm', 'NFKC', _nf('NFKC')), ('norm', 'NFKD', _nf('NFKD')),
    ('norm', 'NFKC_casefold', lambda w: unicodedata.normalize('NFKC', unicodedata.normalize('NFKC', w).casefold())),
    ('drop', 'NFKD_drop', lambda w: _ascii_drop(unicodedata.normalize('NFKD', w))),
    ('drop', 'lower_drop', lambda w: _ascii_drop(w.lower())), ('drop', 'upper_drop', lambda w: _ascii_drop(w.upper())),
]
_PRINTABLE = frozenset(chr(i) for i in range(33, 127))
_UTAB = None


def _is_plain(s):
    """Only US-ASCII 33..126 (the superset of all encoding alphabets)."""
    return all(c in _PRINTABLE for c in s)


def _utables():
    """{'all': {w: [u..]}, 'case': {w: [u..]}, 'n': code points in the table}: w = lower-cased ASCII text of 1-3
    characters, u = a non-ASCII character that a transform maps onto w (in some case)."""
    global _UTAB
    if _UTAB is not None:
        return _UTAB
    al, ca = {}, {}

    def add(tab, w, u):
        if 1 <= len(w) <= 3 and _is_plain(w):
            tab.setdefault(w.lower(), set()).add(u)
    for cp in range(128, 0x110000):
        if 0xD800 <= cp < 0xE000:
            continue
        u = chr(cp)
        dec = unicodedata.decimal(u, None)
        if dec is None:
            dec = unicodedata.digit(u, None)
        if dec is not None:
            add(al, str(dec), u)
        if not (unicodedata.decomposition(u) or u.lower() != u or u.upper() != u or u.casefold() != u):
            continue        # no transform of the list changes u
        for cl, _name, f in _U_TRANSFORMS:
            w = f(u)
            if w != u:
                add(al, w, u)
                if cl == 'case':
                    add(ca, w, u)
    for c in _PRINTABLE:       # low-bits class: one representative per width
        for u in (chr(ord(c) | 0x80), chr(ord(c) + 0x100), chr(ord(c) + 0x10000)):
            add(al, c, u)
    _UTAB = {'all': {w: sorted(v) for w, v in al.items()}, 'case': {w: sorted(v) for w, v in ca.items()},
             'n': len(set(u for v in al.values() for u in v))}
    return _UTAB


# inserted characters: everything str.strip() removes, all C0 controls and DEL, and a fixed list of invisible,
# combining and replacement characters (soft hyphen, zero-width, directional marks, BOM, variation selectors ..)
U_INS = ''.join(sorted(set(
    [chr(i) for i in range(0x110000) if chr(i).isspace() and chr(i) != ' '] + [chr(i) for i in range(32)] +
    list('\x7f\x80\x9f\xad\u0300\u0301\u0308\u034f\u061c\u180e\u200b\u200c\u200d\u200e\u200f\u202a\u202e\u2060'
         '\u2066\u20e3\ufe00\ufe0f\ufeff\ufffd\uffff\U000e0001\U000e0100\U0010ffff'))))


def _explain_non_ascii(m, accepts):
    """Which reading of a string with characters outside 33..126 turns it into a string accepts() is true for."""
    def bits(k):
        return ''.join(chr(ord(c) & k) for c in m)

    def digits():
        return ''.join(str(unicodedata.digit(c, c)) if not _is_plain(c) else c for c in m)
    forms = [('non_ascii_case_mapped', [f(m) for cl, _n, f in _U_TRANSFORMS if cl == 'case']),
             ('surrounding_whitespace_stripped', [m.strip()]),
             ('non_ascii_normalised', [f(m) for cl, _n, f in _U_TRANSFORMS if cl == 'norm']),
             ('non_ascii_digit_value', [digits()]),
             ('non_ascii_low_bits', [bits(0x7f), bits(0xff), bits(0xffff)]),
             ('character_dropped', [f(m) for cl, _n, f in _U_TRANSFORMS if cl == 'drop'] +
              [''.join(c for c in m if c in _PRINTABLE)])]
    for name, cands in forms:
        if name == 'non_ascii_case_mapped':     # the other single-case form of a case-mapped string is the same text
            cands = [x for c in cands for x in (c, c.lower(), c.upper())]
        for c in cands:
            if c != m and _is_plain(c) and accepts(c):
                return name
    return None


P2PKH, P2SH, HRPS, WIFV = {}, {}, {}, {}
for _n in nets.NAMES:
    P2PKH.setdefault(nets.p2pkh_ver(_n), []).append(_n)
    P2SH.setdefault(nets.p2sh_ver(_n), []).append(_n)
    if nets.hrp(_n):
        HRPS.setdefault(nets.hrp(_n), []).append(_n)
    WIFV.setdefault(nets.wif_ver(_n), []).append(_n)

PW = 'C11-passphrase'


def selftest():
    codec.selftest()
    nets.selftest()
    raddr.selftest()
    bip32.selftest()
    bip38.selftest()
    # the substituted KDF must keep the BIP38 reference self-consistent
    with _FakeKdf(lib=False):
        for comp in (True, False):
            e = bip38.encrypt(12345, comp, PW)
            assert bip38.decrypt(e, PW) == (12345, comp)
            assert bip38.decrypt(e, PW + 'x') is None
    assert _lenient('1O2I') == '1o2i'
    # Unicode table against facts published in UnicodeData.txt / SpecialCasing.txt / CaseFolding.txt
    t = _utables()
    assert '\u212a' in t['case']['k'] and '\u212a' in t['all']['k']       # KELVIN SIGN, lower case is U+006B
    assert '\u017f' in t['case']['s'] and '\u0131' in t['case']['i']       # LONG S -> S, DOTLESS I -> I
    assert '\u00df' in t['case']['ss'] and '\ufb01' in t['all']['fi']      # SHARP S -> SS, LIGATURE FI
    assert '\uff21' in t['all']['a'] and '\uff21' not in t['case'].get('a', ())    # FULLWIDTH A: compatibility only
    assert '\u0661' in t['all']['1'] and '\U0001d7d9' in t['all']['1']     # ARABIC-INDIC ONE, MATH DOUBLE-STRUCK ONE
    assert '\u00e9' in t['all']['e'] and '\u0130' in t['all']['i']         # E ACUTE, I WITH DOT ABOVE (dropped marks)
    assert '\u00e1' in t['all']['a'] and chr(ord('a') + 0x100) in t['all']['a']
    assert all(not _is_plain(u) for v in t['all'].values() for u in v) and t['n'] > 2000
    assert '\u00a0' in U_INS and '\n' in U_INS and '\ufeff' in U_INS and ' ' not in U_INS
    assert _explain_non_ascii('AB\u212a', lambda c: c == 'abk') == 'non_ascii_case_mapped'
    assert _explain_non_ascii('\u2003abk\n', lambda c: c == 'abk') == 'surrounding_whitespace_stripped'
    assert _explain_non_ascii('a\uff22k', lambda c: c == 'aBk') == 'non_ascii_normalised'
    assert _explain_non_ascii('a\u0662k', lambda c: c == 'a2k') == 'non_ascii_digit_value'
    assert _explain_non_ascii('a\u0162k', lambda c: c == 'abk') == 'non_ascii_low_bits'
    assert _explain_non_ascii('a\u200bbk', lambda c: c == 'abk') == 'character_dropped'
    assert _explain_non_ascii('a\u200bbk', lambda c: False) is None
    # the reference decoders refuse every string with a character outside their alphabet
    for u in ('\u212a', '\u00e9', '\uff11', '\u00a0'):
        assert codec.b58decode('1' + u) is None and codec.bech32_decode('A1' + u + 'QQQQQQ') is None


# ----------------------------------------------------------------------------- KDF seam
def _fake_scrypt(password, salt, key_len=64, N=16384, r=8, p=1, buflen=64):
    if isinstance(password, str):
        password = password.encode('utf8')
    return hashlib.shake_256(b'vf-c11-kdf|%d|%d|%d|%d|' % (N, r, p, len(password)) + bytes(password) +
                             bytes(salt)).digest(key_len)


class _FakeKdf:
    """Replace scrypt in the library (bitcoinlib.keys.scrypt_hash) and in the reference by the same cheap KDF."""

    def __init__(self, lib=True):
        self.lib = lib

    def __enter__(self):
        self.ref_old = bip38._scrypt
        bip38._scrypt = lambda pw, salt, n, r, p, ln: _fake_scrypt(pw, salt, ln, n, r, p)
        if self.lib:
            import bitcoinlib.keys as K
            self.K = K
            self.lib_old = K.scrypt_hash
            K.scrypt_hash = _fake_scrypt

    def __exit__(self, *a):
        bip38._scrypt = self.ref_old
        if self.lib:
            self.K.scrypt_hash = self.lib_old


class _NoKdf:
    def __enter__(self):
        pass

    def __exit__(self, *a):
        pass


# ----------------------------------------------------------------------------- reference views
def _lenient(s):
    """What the library's base-58 reader makes of O and I (falls back to the lower-case symbol)."""
    return s.replace('O', 'o').replace('I', 'i')


def ref_addr(s):
    """Base58 address: ('valid'|'odd'|'invalid', expectation)."""
    p = codec.b58check_decode(s)
    if p is None:
        return 'invalid', None
    v = p[:1]
    cands = [[n, 'p2pkh'] for n in P2PKH.get(v, [])] + [[n, 'p2sh'] for n in P2SH.get(v, [])]
    exp = {'pl': p[1:].hex(), 'prefix': v.hex(), 'cands': cands, 'addr': s}
    if len(p) != 21:
        return ('odd' if cands else 'invalid'), exp
    return 'valid', exp          # version known-ness is judged per site (cands may be empty)


def ref_seg(s):
    d = codec.segwit_decode(s)
    if d is None:
        return 'invalid', None
    hrp, v, prog = d
    std = (v == 0 and len(prog) in (20, 32)) or (v == 1 and len(prog) == 32)
    exp = {'pl': prog.hex(), 'v': v, 'hrp': hrp, 'cands': list(HRPS.get(hrp, [])), 'addr': s.lower(),
           'upper': s != s.lower(), 'std': std}
    return 'valid', exp


def ref_wif(s):
    p = codec.b58check_decode(s)
    if p is None:
        return 'invalid', None
    cands = list(WIFV.get(p[:1], []))
    if not cands:
        return 'invalid', None
    if len(p) == 34 and p[-1] == 1:
        comp = True
    elif len(p) == 33:
        comp = False
    else:
        return 'odd', None
    k = int.from_bytes(p[1:33], 'big')
    if not 1 <= k < secp.N:
        return 'odd', None
    return 'valid', {'sec': k, 'comp': comp, 'cands': cands, 'wif': s}


def ref_xk(s):
    p = codec.b58check_decode(s)
    if p is None:
        return 'invalid', None
    cands = nets.hd_candidates(p[:4])
    if not cands:
        return 'invalid', None
    r = bip32.parse_xkey(s)
    if r is None:
        return 'odd', None
    ver, x, priv = r
    exp = _xk_fields(p)
    exp['cands'] = [[n, pr, wt, ms] for n, pr, wt, ms in cands]
    exp['wif'] = s
    assert exp['priv'] == priv
    return 'valid', exp


def _xk_fields(b):
    """The fields of a serialized extended key read at the BIP32 offsets of the byte string b."""
    priv = b[45] == 0
    return {'priv': priv, 'key': (b[46:78] if priv else b[45:78]).hex(), 'chain': b[13:45].hex(), 'depth': b[4],
            'fp': b[5:9].hex(), 'child': int.from_bytes(b[9:13], 'big')}


def ref_b38(s, pw, ver):
    p = codec.b58check_decode(s)
    if p is None:
        return 'invalid', None
    r = bip38.decrypt(s, pw, ver)
    if r is None:
        return 'invalid', None      # wrong length / prefix / flag, or does not decrypt under pw
    return 'valid', {'sec': r[0], 'comp': r[1], 'enc': s, 'plain': p[1] == 0x42}


# ----------------------------------------------------------------------------- library observation
def _call(f):
    try:
        return f(), None
    except Exception as e:      # any exception is a refusal
        return None, '%s: %s' % (type(e).__name__, str(e)[:80])


def _hx(b):
    if isinstance(b, (bytes, bytearray)):
        return bytes(b).hex()
    return b


def _obs_addr_obj(a):
    return {'pl': a.hash_bytes.hex(), 'prefix': _hx(a.prefix), 'net': a.network.name, 'st': a.script_type,
            'addr': a.address, 'v': a.witver}


def sites_b58a():
    from bitcoinlib.encoding import addr_base58_to_pubkeyhash, addr_to_pubkeyhash
    from bitcoinlib.keys import deserialize_address, Address

    def des(s):
        d = deserialize_address(s)
        return {'pl': d['public_key_hash_bytes'].hex(), 'prefix': _hx(d['prefix']), 'net': d['network'],
                'st': d['script_type'], 'enc': d['encoding']}
    return [
        ('addr_base58_to_pubkeyhash', 'raw', lambda s: {'pl': addr_base58_to_pubkeyhash(s).hex()}),
        ('addr_to_pubkeyhash', 'raw', lambda s: {'pl': addr_to_pubkeyhash(s).hex()}),
        ('deserialize_address', 'interp', des),
        ('Address.parse', 'interp', lambda s: _obs_addr_obj(Address.parse(s))),
    ]


def sites_seg():
    from bitcoinlib.encoding import addr_bech32_to_pubkeyhash, addr_to_pubkeyhash
    from bitcoinlib.keys import deserialize_address, Address

    def raw(s):
        b = addr_bech32_to_pubkeyhash(s, include_witver=True)
        return {'pl': b[2:].hex(), 'v': b[0] - 0x50 if b[0] else 0}

    def des(s):
        d = deserialize_address(s)
        return {'pl': d['public_key_hash_bytes'].hex(), 'prefix': _hx(d['prefix']), 'net': d['network'],
                'st': d['script_type'], 'v': d['witver'], 'enc': d['encoding']}
    return [
        ('addr_bech32_to_pubkeyhash', 'raw', raw),
        ('addr_to_pubkeyhash', 'raw', lambda s: {'pl': addr_to_pubkeyhash(s).hex()}),
        ('deserialize_address', 'interp', des),
        ('Address.parse', 'interp', lambda s: _obs_addr_obj(Address.parse(s))),
    ]


def _obs_key(k, re):
    return {'sec': k.secret, 'comp': k.compressed, 'net': k.network.name, 'priv': k.is_private, 're': re}


def sites_wif(hint):
    from bitcoinlib.keys import Key, HDKey

    def key(s, h=hint):
        k = Key(s, network=h)
        return _obs_key(k, _call(k.wif)[0])

    def fw(s, h=hint):
        k = Key.from_wif(s, network=h)
        return _obs_key(k, _call(k.wif)[0])

    def hd(s, h=hint):
        k = HDKey(s, network=h)
        return _obs_key(k, _call(k.wif_key)[0])
    return [('Key(wif)', 'interp', key), ('Key.from_wif', 'interp', fw), ('HDKey(wif)', 'interp', hd)], \
        [('Key(wif)', 'interp', lambda s: key(s, None)), ('Key.from_wif', 'interp', lambda s: fw(s, None)),
         ('HDKey(wif)', 'interp', lambda s: hd(s, None))]


def _obs_hd(k):
    priv = bool(k.is_private)
    return {'priv': priv, 'key': (k.private_byte if priv else k.public_byte).hex(), 'chain': _hx(k.chain),
            'depth': k.depth, 'fp': _hx(k.parent_fingerprint), 'child': k.child_index, 'net': k.network.name,
            'wt': k.witness_type, 'ms': bool(k.multisig), 're': _call(lambda: k.wif(is_private=priv))[0]}


def sites_xk(hint):
    from bitcoinlib.keys import HDKey
    return [('HDKey(xkey)', 'interp', lambda s: _obs_hd(HDKey(s, network=hint))),
            ('HDKey.from_wif', 'interp', lambda s: _obs_hd(HDKey.from_wif(s, network=hint)))], \
        [('HDKey(xkey)', 'interp', lambda s: _obs_hd(HDKey(s))),
         ('HDKey.from_wif', 'interp', lambda s: _obs_hd(HDKey.from_wif(s)))]


def sites_b38(pw, net, ver):
    from bitcoinlib.keys import Key, bip38_decrypt

    def key(s):
        k = Key(s, password=pw, network=net)
        re = None
        raw = codec.b58decode(_lenient(s))      # None for a symbol outside the alphabet: still an acceptance
        if raw is not None and raw[1:2] == b'\x42':
            re = _call(lambda: k.encrypt(pw))[0]
        return {'sec': k.secret, 'comp': k.compressed, 're': re}

    def dec(s):
        priv, ah, comp, _ = bip38_decrypt(s, pw)
        k = int.from_bytes(priv, 'big')
        if not 1 <= k < secp.N:
            raise ValueError('vf: key out of range (caller cannot verify)')
        if codec.dsha256(bip38._addr(secp.pub(k), comp, ver).encode())[:4] != bytes(ah):
            raise ValueError('vf: address hash returned for verification does not verify')
        return {'sec': k, 'comp': bool(comp), 're': None}
    return [('Key(bip38)', 'interp', key), ('bip38_decrypt', 'interp', dec)]


# ----------------------------------------------------------------------------- judging
def _cmp(exp, got, keys):
    return [k for k in keys if exp.get(k) != got.get(k)]


def judge_addr(site, mode, status, exp, got, s):
    """Return (outcome label, deviation class or None) for a Base58 address site."""
    if status == 'odd':
        return 'odd_' + ('accepted' if got else 'refused'), None
    known = status == 'valid' and (mode == 'raw' or exp['cands'])
    if known:
        if got is None:
            return 'valid_refused', 'valid_rejected'
        if got['pl'] != exp['pl'] or (mode == 'interp' and got['prefix'] != exp['prefix']):
            return 'dev', 'valid_wrong_payload'
        if mode == 'interp' and [got['net'], got['st']] not in exp['cands']:
            return 'dev', 'valid_wrong_network_or_type'
        if 'addr' in got and got['addr'] != s:
            return 'dev', 'reencode_differs'
        return 'valid_accepted', None
    if got is None:
        return 'invalid_refused', None
    # an invalid string was accepted: name the exact wrong behaviour
    if status == 'valid':     # checksum fine, version byte unknown
        if got['pl'] == exp['pl'] and not got.get('net') and not got.get('st'):
            return 'dev', 'unknown_version_accepted_network_None'
        return 'dev', 'invalid_accepted|unexplained'
    return 'dev', 'invalid_accepted|' + (_explain_b58(s, lambda c: _addr_would_be(c, mode), got) or 'unexplained')


def _addr_would_be(c, mode):
    st, e = ref_addr(c)
    if st != 'valid' or (mode == 'interp' and not e['cands']):
        return None
    return e


def _explain_b58(s, would_be, got, allow_lead=True):
    """Which leniency of the library's base-58 reader maps the invalid s onto a valid string with result got."""
    forms = []
    ls = _lenient(s)
    if ls != s:
        forms.append(('O_I_read_as_o_i', ls))
    if allow_lead:
        for z in range(1, 22):
            forms.append(('missing_leading_1_zero_padded', '1' * z + s))
            if ls != s:
                forms.append(('O_I_read_as_o_i+missing_leading_1_zero_padded', '1' * z + ls))
    for name, c in forms:
        e = would_be(c)
        if e is None:
            continue
        ok = got['pl'] == e['pl'] and got.get('prefix', e['prefix']) == e['prefix'] and \
            got.get('addr', c) == c and ('net' not in got or [got['net'], got['st']] in e['cands'])
        if ok:
            return name
    return None


def judge_seg(site, mode, status, exp, got, s):
    if status == 'valid' and mode == 'interp' and not exp['cands']:
        # correct checksum, HRP of no known network
        if got is None:
            return 'invalid_refused', None
        if got['pl'] == exp['pl'] and not got.get('net'):
            return 'dev', 'unknown_hrp_accepted_network_empty'
        return 'dev', 'invalid_accepted|unexplained'
    if status == 'valid':
        if got is None:
            if exp['upper']:
                return 'valid_upper_refused', None
            if not exp['std']:
                return 'valid_nonstandard_refused', None
            return 'valid_refused', 'valid_rejected'
        if got['pl'] != exp['pl'] or ('v' in got and site != 'Address.parse' and got['v'] != exp['v']):
            return 'dev', 'valid_wrong_payload'
        if mode == 'interp' and not exp['upper'] and got['net'] not in exp['cands']:
            return 'dev', 'valid_wrong_network_or_type'
        if mode == 'interp' and exp['upper'] and got['net'] and got['net'] not in exp['cands']:
            return 'dev', 'valid_wrong_network_or_type'
        if 'addr' in got and got['addr'] != exp['addr']:
            if exp['v'] != 0 and got['addr'] == codec.segwit_encode(exp['hrp'], 0, bytes.fromhex(exp['pl'])):
                return 'dev', 'witness_version_dropped_reencoded_as_v0'
            return 'dev', 'reencode_differs'
        return 'valid_accepted', None
    if got is None:
        return 'invalid_refused', None
    return 'dev', 'invalid_accepted|unexplained'


def judge_wif(site, mode, status, exp, got, s, hinted):
    if status == 'odd':
        return 'odd_' + ('accepted' if got else 'refused'), None
    if status == 'valid':
        if got is None:
            return 'valid_refused', 'valid_rejected'
        if got['sec'] != exp['sec'] or got['comp'] != exp['comp'] or not got['priv']:
            return 'dev', 'valid_wrong_payload'
        if got['net'] not in exp['cands']:
            return 'dev', 'valid_wrong_network_or_type'
        if got['re'] != s:
            return 'dev', 'reencode_differs'
        return 'valid_accepted', None
    if got is None:
        return 'invalid_refused', None

    def would_be(c):
        st, e = ref_wif(c)
        return e if st == 'valid' else None
    ls = _lenient(s)
    e = would_be(ls) if ls != s else None
    if e and got['sec'] == e['sec'] and got['comp'] == e['comp']:
        return 'dev', 'invalid_accepted|O_I_read_as_o_i'
    return 'dev', 'invalid_accepted|unexplained'


XK_KEYS = ('priv', 'key', 'chain', 'depth', 'fp', 'child')


def judge_xk(site, mode, status, exp, got, s):
    if status == 'odd':
        return 'odd_' + ('accepted' if got else 'refused'), None
    if status == 'valid':
        if got is None:
            return 'valid_refused', 'valid_rejected'
        if _cmp(exp, got, XK_KEYS):
            return 'dev', 'valid_wrong_payload'
        if [got['net'], got['priv'], got['wt'], got['ms']] not in exp['cands']:
            return 'dev', 'valid_wrong_network_or_type'
        if got['re'] != s:
            return 'dev', 'reencode_differs'
        return 'valid_accepted', None
    if got is None:
        return 'invalid_refused', None
    ls = _lenient(s)
    raw = codec.b58decode(ls)
    if raw is not None and len(raw) >= 78:
        f = _xk_fields(raw)
        if not _cmp(f, got, XK_KEYS):
            if len(raw) == 82:
                if codec.dsha256(raw[:78])[:4] == raw[78:]:
                    return 'dev', 'invalid_accepted|O_I_read_as_o_i' if ls != s else 'invalid_accepted|unexplained'
                return 'dev', 'invalid_accepted|checksum_not_verified'
            return 'dev', 'invalid_accepted|length_not_verified'
    return 'dev', 'invalid_accepted|unexplained'


_B38_MEMO = {}


def judge_b38(site, mode, status, exp, got, s, pw, ver):
    if status == 'valid':
        if got is None:
            return 'valid_refused', 'valid_rejected'
        if got['sec'] != exp['sec'] or got['comp'] != exp['comp']:
            return 'dev', 'valid_wrong_payload'
        if exp['plain'] and site == 'Key(bip38)' and got['re'] != s:
            return 'dev', 'reencode_differs'
        return 'valid_accepted', None
    if got is None:
        return 'invalid_refused', None
    ls = _lenient(s)
    raw = codec.b58decode(ls)
    if raw is not None and len(raw) >= 43:
        good = codec.b58check_encode(raw[:39])      # the library reads the fields at fixed offsets
        if good not in _B38_MEMO:                   # (memo is per case: all tail damages share one payload)
            _B38_MEMO[good] = ref_b38(good, pw, ver)
        st, e = _B38_MEMO[good]
        if st == 'valid' and got['sec'] == e['sec'] and got['comp'] == e['comp']:
            if len(raw) != 43:
                return 'dev', 'invalid_accepted|length_not_verified'
            if good == ls:
                return 'dev', 'invalid_accepted|O_I_read_as_o_i'
            return 'dev', 'invalid_accepted|checksum_not_verified'
    return 'dev', 'invalid_accepted|unexplained'


# ----------------------------------------------------------------------------- base strings
def _seeded(seed, tag, n):
    return hashlib.sha256(('C11|%d|%s' % (seed, tag)).encode()).digest()[:n] if n <= 32 else \
        hashlib.shake_256(('C11|%d|%s' % (seed, tag)).encode()).digest(n)


def base_string(d):
    """Build the base string of a descriptor with the reference encoders."""
    t = d['t']
    if t == 'b58a':
        return codec.b58check_encode(bytes.fromhex(d['ver']) + bytes.fromhex(d['pl']))
    if t == 'seg':
        s = codec.segwit_encode(d['hrp'], d['v'], bytes.fromhex(d['pl']))
        return s.upper() if d.get('up') else s      # BIP173: the all-upper-case form is the same address
    if t == 'wif':
        return codec.b58check_encode(bytes.fromhex(d['ver']) + bytes.fromhex(d['sec']) + (b'\1' if d['comp'] else b''))
    if t == 'xk':
        x = bip32.derive(bip32.master(bytes.fromhex(d['seed'])), d['path'])
        return x.ser(bytes.fromhex(d['ver']), d['priv'])
    if t == 'b38':
        if 's' in d:
            return d['s']
        ver = bytes.fromhex(d['aver'])
        if d['mode'] == 'plain':
            return bip38.encrypt(int(d['sec'], 16), d['comp'], d['pw'], ver)
        return _b38_ec(d, ver)
    raise ValueError(t)


def _b38_ec(d, ver):
    """EC-multiplied BIP38 key from the specification (owner salt / lot+sequence, seedb)."""
    from Crypto.Cipher import AES
    lot = d.get('lot')
    salt = bytes.fromhex(d['salt'])
    inter = codec.b58check_decode(bip38.intermediate(d['pw'], salt, lot, d.get('seq')))
    ownerentropy, passpoint = inter[8:16], inter[16:]
    seedb = bytes.fromhex(d['seedb'])
    factorb = int.from_bytes(codec.dsha256(seedb), 'big')
    pt = secp.mul(factorb, secp.decode_pub(passpoint))
    a = bip38._addr(pt, d['comp'], ver)
    ah = codec.dsha256(a.encode())[:4]
    dk = bip38._scrypt(passpoint, ah + ownerentropy, 1024, 1, 1, 64)
    dh1, dh2 = dk[:32], dk[32:]
    aes = AES.new(dh2, AES.MODE_ECB)
    e1 = aes.encrypt(bip38._xor(seedb[:16], dh1[:16]))
    e2 = aes.encrypt(bip38._xor(e1[8:] + seedb[16:], dh1[16:]))
    flag = (0x20 if d['comp'] else 0) | (0x04 if lot is not None else 0)
    return codec.b58check_encode(b'\x01\x43' + bytes([flag]) + ah + ownerentropy + e1[:8] + e2)


def _syms(t):
    return BECH_SYMS if t == 'seg' else B58 + B58_OUT


def misc_mutants(d, s):
    """Structured damages of a base string (fixed list; positions are labels)."""
    out = []
    t = d['t']
    for k in range(1, 9):
        out.append(('trunc_tail%d' % k, s[:-k]))
    for k in range(1, 5):
        out.append(('trunc_head%d' % k, s[k:]))
    out += [('upper', s.upper()), ('lower', s.lower()), ('swapcase', s.swapcase()), ('reversed', s[::-1]),
            ('doubled', s + s), ('trail_nl', s + '\n'), ('lead_tab', '\t' + s)]
    if t in ('b58a', 'seg'):
        out.append(('empty', ''))       # Key('') / HDKey('') mean "generate a new key", not "decode"
    if t != 'seg':
        z = len(s) - len(s.lstrip('1'))
        for k in range(1, z + 1):
            out.append(('lead1_removed%d' % k, s[k:]))
        for k in range(1, 4):
            out.append(('lead1_added%d' % k, '1' * k + s))
        raw = codec.b58decode(s)
        body, chk = raw[:-4], raw[-4:]
        out += [('chk_zero', codec.b58encode(body + bytes(4))),
                ('chk_reversed', codec.b58encode(body + chk[::-1])),
                ('chk_single_sha', codec.b58encode(body + codec.sha256(body)[:4])),
                ('chk_of_tail', codec.b58encode(body + codec.dsha256(body[1:])[:4])),
                ('chk_missing', codec.b58encode(body)),
                ('payload_plus_byte', codec.b58check_encode(body + b'\0')),
                ('payload_minus_byte', codec.b58check_encode(body[:-1])),
                ('payload_lead_zero', codec.b58check_encode(b'\0' + body))]
    else:
        hrp, v, prog = d['hrp'], d['v'], bytes.fromhex(d['pl'])
        data = [v] + codec.convertbits(prog, 8, 5)
        const = codec.BECH32_CONST if v == 0 else codec.BECH32M_CONST
        other = codec.BECH32M_CONST if v == 0 else codec.BECH32_CONST
        pos = s.rfind('1')
        out += [('wrong_const', codec.bech32_encode(hrp, data, other)),
                ('const_zero', codec.bech32_encode(hrp, data, 0)),
                ('const_3fffffff', codec.bech32_encode(hrp, data, 0x3fffffff)),
                ('extra_zero_group', codec.bech32_encode(hrp, data + [0], const)),
                ('version17', codec.bech32_encode(hrp, [17] + data[1:], codec.BECH32M_CONST)),
                ('version31', codec.bech32_encode(hrp, [31] + data[1:], codec.BECH32M_CONST)),
                ('no_version', codec.bech32_encode(hrp, data[1:], const)),
                ('empty_data', codec.bech32_encode(hrp, [], const)),
                ('empty_hrp', codec.bech32_encode('', data, const)),
                ('hrp_upper', s[:pos].upper() + s[pos:]),
                ('data_upper', s[:pos] + s[pos:].upper()),
                ('checksum_upper', s[:-6] + s[-6:].upper()),
                ('no_separator', s[:pos] + s[pos + 1:]),
                ('double_separator', s[:pos] + '1' + s[pos:]),
                ('other_const_upper', codec.bech32_encode(hrp, data, other).upper())]
        if (len(prog) * 8) % 5:
            d2 = list(data)
            d2[-1] |= 1
            out.append(('nonzero_padding', codec.bech32_encode(hrp, d2, const)))
        for ln in (len(prog) - 1, len(prog) + 1, 1, 41, 42):
            if ln > 0:
                p2 = (prog * 3)[:ln]
                out.append(('program_len%d' % ln, codec.bech32_encode(hrp, [v] + codec.convertbits(p2, 8, 5), const)))
        for h2 in ('zz', hrp + 'x', hrp[:-1] or 'q'):
            out.append(('hrp_' + h2, codec.bech32_encode(h2, data, const)))
        out.append(('long_hrp', codec.bech32_encode(hrp + 'q' * 60, data, const)))
    return out


def mutants(d, s, kind, lo, hi):
    """[(position label, mutant)] of one edit kind over positions [lo, hi)."""
    syms = _syms(d['t'])
    out = []
    if kind == 'sub':
        for i in range(lo, min(hi, len(s))):
            for c in syms:
                if c != s[i]:
                    out.append((i, s[:i] + c + s[i + 1:]))
    elif kind == 'ins':
        for i in range(lo, min(hi, len(s) + 1)):
            for c in syms:
                out.append((i, s[:i] + c + s[i:]))
    elif kind == 'del':
        for i in range(lo, min(hi, len(s))):
            out.append((i, s[:i] + s[i + 1:]))
    elif kind == 'swap':
        for i in range(lo, min(hi, len(s) - 1)):
            out.append((i, s[:i] + s[i + 1] + s[i] + s[i + 2:]))
    elif kind == 'misc':
        out = misc_mutants(d, s)[lo:hi]
    elif kind in ('ucase', 'uall'):
        tab = _utables()[kind[1:]]
        for i in range(lo, min(hi, len(s))):
            for ln in (1, 2, 3):
                w = s[i:i + ln]
                if len(w) == ln:
                    for u in tab.get(w.lower(), ()):
                        out.append((i, s[:i] + u + s[i + ln:]))
    elif kind == 'uins':
        for i in range(lo, min(hi, len(s) + 1)):
            for u in U_INS:
                out.append((i, s[:i] + u + s[i:]))
    elif kind == 'uends':
        out = [(0, u + s) for u in U_INS] + [(len(s), s + u) for u in U_INS] + \
            [(len(s) + 1, u + s + v) for u, v in ((' ', ' '), ('\t', '\n'), ('\u00a0', '\u00a0'), ('\ufeff', '\n'))]
    elif kind == 'base':
        out = [('base', s)]
    else:
        raise ValueError(kind)
    return out


# ----------------------------------------------------------------------------- worker
def sub_edit(case):
    """case = {'d': descriptor, 'kind': edit kind, 'lo': , 'hi': }"""
    d = case['d']
    t = d['t']
    kdf = _FakeKdf() if (t == 'b38' and not d.get('real')) else _NoKdf()
    _B38_MEMO.clear()
    with kdf:
        return _sub_edit(case, d, t)


def _sub_edit(case, d, t):
    s0 = base_string(d)
    muts = mutants(d, s0, case['kind'], case['lo'], case['hi'])
    if case.get('parts'):       # a slice of the symbol alphabet (each real-scrypt evaluation is expensive)
        muts = muts[case['part']::case['parts']]
    bid = hashlib.sha256(s0.encode()).hexdigest()[:10]
    hint = d.get('net')
    unhinted = []
    ver = None
    if t == 'b58a':
        sites = sites_b58a()
    elif t == 'seg':
        sites = sites_seg()
    elif t == 'wif':
        sites, unhinted = sites_wif(hint)
    elif t == 'xk':
        sites, unhinted = sites_xk(hint)
    else:
        ver = bytes.fromhex(d['aver'])
        sites = sites_b38(d['pw'], hint, ver)
        if d.get('sites'):
            sites = [x for x in sites if x[0] in d['sites']]
    devs, seen, outs, nt = [], set(), {}, set()
    n = 0
    done = set()
    for pos, m in muts:
        if m in done:
            continue
        done.add(m)
        if m != s0:
            nt.add('%s:%s:%s' % (bid, case['kind'], pos))
        status, exp = _ref(t, m, d, ver)
        run_sites = [(x, True) for x in sites]
        if status == 'valid' and unhinted:
            run_sites += [(x, False) for x in unhinted]
        for (site, mode, f), hinted in run_sites:
            got, exc = _call(lambda: f(m))
            n += 1
            out, cls = _judge(t, site, mode, status, exp, got, m, hinted, d, ver)
            if cls == 'invalid_accepted|unexplained' and not _is_plain(m):
                # a character outside US-ASCII 33..126 was accepted: which reading of it gives this result
                def accepts(c):
                    st2, e2 = _ref(t, c, d, ver)
                    return st2 == 'valid' and _judge(t, site, mode, st2, e2, got, c, hinted, d, ver)[0] == 'valid_accepted'
                cls = 'invalid_accepted|' + (_explain_non_ascii(m, accepts) or 'unexplained')
            if not hinted:
                site += '[no network hint]'
                if cls == 'valid_rejected' and len(set(c if isinstance(c, str) else c[0] for c in exp['cands'])) > 1 \
                        and 'multiple networks' in (exc or ''):
                    out, cls = 'valid_refused_ambiguous_network', None
            lab = '%s:%s' % (t, out)
            outs[lab] = outs.get(lab, 0) + 1
            if cls:
                sig = '%s|%s' % (site, cls)
                if sig not in seen:     # one witness per signature and case keeps the evidence small
                    seen.add(sig)
                    devs.append({'sig': sig, 'detail': {'base': s0, 'mutant': m, 'edit': [case['kind'], pos],
                                                        'reference': status, 'expected': _short(exp),
                                                        'library': _short(got) if got is not None else exc}})
    return {'devs': devs, 'n': n, 'nt': sorted(nt), 'out': outs}


def _ref(t, m, d, ver):
    """Reference verdict on the string m read as an encoding of type t."""
    if t == 'b58a':
        return ref_addr(m)
    if t == 'seg':
        return ref_seg(m)
    if t == 'wif':
        return ref_wif(m)
    if t == 'xk':
        return ref_xk(m)
    return ref_b38(m, d['pw'], ver)


def _judge(t, site, mode, status, exp, got, m, hinted, d, ver):
    if t == 'b58a':
        return judge_addr(site, mode, status, exp, got, m)
    if t == 'seg':
        return judge_seg(site, mode, status, exp, got, m)
    if t == 'wif':
        return judge_wif(site, mode, status, exp, got, m, hinted)
    if t == 'xk':
        return judge_xk(site, mode, status, exp, got, m)
    return judge_b38(site, mode, status, exp, got, m, d['pw'], ver)


def _short(x):
    if isinstance(x, dict):
        return {k: (v if not isinstance(v, (list, str)) or len(v) < 140 else str(v)[:140]) for k, v in x.items()}
    return x


def sub_versions(case):
    """Every version byte / prefix for one payload: {'t': 'b58a'|'wif'|'xk'|'seg', ...}"""
    t = case['t']
    items = []
    if t == 'b58a':
        for v in range(256):
            items.append({'t': 'b58a', 'ver': '%02x' % v, 'pl': case['pl']})
    elif t == 'wif':
        for v in range(256):
            items.append({'t': 'wif', 'ver': '%02x' % v, 'sec': case['sec'], 'comp': case['comp'],
                          'net': (WIFV.get(bytes([v])) or [None])[0]})
    elif t == 'seg':
        for h in case['hrps']:
            for v, ln in case['forms']:
                items.append({'t': 'seg', 'hrp': h, 'v': v, 'pl': case['pl'][:2 * ln]})
    else:
        for ver, net in case['vers']:
            items.append({'t': 'xk', 'ver': ver, 'priv': case['priv'], 'seed': case['seed'], 'path': case['path'],
                          'net': net})
    res = {'devs': [], 'n': 0, 'nt': [], 'out': {}}
    seen = set()
    for d in items:
        r = _sub_edit({'kind': 'base', 'lo': 0, 'hi': 1}, d, d['t'])
        res['n'] += r['n']
        res['nt'].append(base_string(d)[:16] + d.get('ver', ''))
        for k, v in r['out'].items():
            res['out'][k] = res['out'].get(k, 0) + v
        for dv in r['devs']:
            if dv['sig'] not in seen:
                seen.add(dv['sig'])
                res['devs'].append(dv)
    return res


def worker_init():
    import logging
    logging.disable(logging.CRITICAL)    # the library logs every refusal to a file; irrelevant to the outcome


SUBS = {'b58addr': sub_edit, 'bech32': sub_edit, 'wif': sub_edit, 'xkey': sub_edit, 'bip38': sub_edit,
        'bip38_real': sub_edit, 'versions': sub_versions, 'unicode': sub_edit}


# ----------------------------------------------------------------------------- enumeration
def _cases(d, kinds, per_case):
    s = base_string(d)
    ns = len(_syms(d['t']))
    out = [{'d': d, 'kind': 'base', 'lo': 0, 'hi': 1}]
    for kind in kinds:
        if kind in ('sub', 'ins'):
            step = max(1, per_case // ns)
            top = len(s) + (1 if kind == 'ins' else 0)
        elif kind in ('del', 'swap'):
            step = per_case
            top = len(s)
        elif kind in ('ucase', 'uall'):     # about 5 (case mappings) / 100 (all transforms) characters per position
            step = max(1, per_case // (100 if kind == 'uall' else 5))
            top = len(s)
        elif kind == 'uins':
            step = max(1, per_case // len(U_INS))
            top = len(s) + 1
        elif kind == 'uends':
            step = top = 1
        else:
            step = per_case
            top = len(misc_mutants(d, s))
        for lo in range(0, top, step):
            out.append({'d': d, 'kind': kind, 'lo': lo, 'hi': min(top, lo + step)})
    return out


FULL = ('misc', 'del', 'swap', 'sub', 'ins')
LIGHT = ('misc', 'del', 'swap')
UPPER = ('del', 'swap', 'sub', 'ins')      # upper-case Bech32 form: the structured damages are built from the payload
UFULL = ('uall', 'uins')                    # every Unicode equivalent at every position, every insertion at every gap
ULIGHT = ('ucase', 'uends')                 # the case-mapping equivalents only; insertions at head and tail only


def _note(bases, **kw):
    kw.update({'base_strings': len(bases),
               'complete_neighbourhood(sub,ins,del,swap,misc)': sum(1 for _, k in bases if k is FULL),
               'light_neighbourhood(del,swap,misc)': sum(1 for _, k in bases if k is LIGHT)})
    if any(k is UPPER for _, k in bases):
        kw['upper_case_form(sub,ins,del,swap)'] = sum(1 for _, k in bases if k is UPPER)
    return kw


def _first_net(table, ver):
    return table[ver][0]


def run(ctx):
    q = ctx.quick
    seed = ctx.seed
    only = getattr(ctx, 'only', None)

    def want(name):
        return not only or name in only
    notes = {}

    # ------------------------------------------------------------------ Base58 addresses
    # quick: every version byte gets the light neighbourhood (structured damage, deletions, transpositions),
    # a fixed subset gets the complete one (substitutions and insertions of every symbol); thorough: all complete
    vers = sorted(set(P2PKH) | set(P2SH))
    pl_zero, pl_ff, pl_lz = '00' * 20, 'ff' * 20, '0000' + 'a5' * 18
    nseed = 1 if q else 4
    qfull = {('00', 0), ('00', 1), ('05', 0), ('6f', 0), ('30', 0)}
    bases = []
    for v in vers:
        pls = [_seeded(seed, 'addr%d' % k, 20).hex() for k in range(nseed)]
        if not q or v in (b'\x00', b'\x05', b'\x6f', b'\xc4'):
            pls.insert(1, pl_zero)
        if not q or v in (b'\x00', b'\x05'):
            pls += [pl_ff, pl_lz]
        for i, pl in enumerate(pls):
            bases.append(({'t': 'b58a', 'ver': v.hex(), 'pl': pl}, FULL if (not q or (v.hex(), i) in qfull) else LIGHT))
    if want('b58addr'):
        cs = []
        for d, kinds in bases:
            cs += _cases(d, kinds, 600)
        ctx.pmap('b58addr', cs, chunk=1)
    notes['b58addr'] = _note(bases, versions=[v.hex() for v in vers])
    ubases = []      # (descriptor, UFULL | ULIGHT, evaluations per case) of the unicode sub-space
    ufull = {('00', 0), ('05', 0)}
    for i, (d, kinds) in enumerate(bases):
        first = [b[0]['ver'] for b in bases].index(d['ver'])
        ubases.append((d, UFULL if (not q or (d['ver'], i - first) in ufull) else ULIGHT, 1500))

    # ------------------------------------------------------------------ Bech32 / Bech32m
    hrps = sorted(HRPS)
    sp = _seeded(seed, 'seg', 40).hex()
    # seed-independent program whose 32 five-bit groups are 0..31: its data part contains every Bech32 symbol
    pan = bytes(codec.convertbits(list(range(32)), 5, 8, False)).hex() + '00' * 20
    forms_main = [(0, 20, sp), (0, 32, sp), (1, 32, sp), (0, 20, '00' * 40), (0, 20, 'ff' * 40), (2, 20, sp),
                  (16, 2, sp), (16, 40, sp), (3, 33, sp), (1, 20, sp), (0, 20, pan)]
    if not q:
        forms_main += [(v, 32, sp) for v in range(2, 17)] + [(0, 32, '00' * 40), (1, 32, 'ff' * 40), (5, 7, sp)]
    qfull = {('bc', 0, 20, sp), ('bc', 0, 32, sp), ('bc', 1, 32, sp), ('bc', 16, 40, sp), ('tb', 0, 20, sp),
             ('ltc', 1, 32, sp)}
    bases = []
    for h in hrps:
        forms = forms_main if (h == 'bc' or not q) else [(0, 20, sp), (1, 32, sp)] + ([(0, 32, sp)] if h == 'tb' else [])
        if h not in ('bc', 'tb') and not q:
            forms = forms_main[:6]
        for v, ln, pp in forms:
            bases.append(({'t': 'seg', 'hrp': h, 'v': v, 'pl': pp[:2 * ln]},
                          FULL if (not q or (h, v, ln, pp) in qfull) else LIGHT))
    # the all-upper-case form (BIP173) of the same addresses gets its own neighbourhood: a decoder works on a
    # case-folded copy, so damage of an upper-case string takes another route than damage of a lower-case one
    qupper = {('bc', 0, sp[:40]), ('bc', 1, sp[:64])}
    lower_bases = list(bases)
    for d, kinds in lower_bases:
        if not q or (d['hrp'], d['v'], d['pl']) in qupper:
            bases.append((dict(d, up=True), UPPER))
    if want('bech32'):
        cs = []
        for d, kinds in bases:
            cs += _cases(d, kinds, 600)
        ctx.pmap('bech32', cs, chunk=1)
    notes['bech32'] = _note(bases, hrps=hrps)
    ufull = {('bc', 0, 20, sp[:40], False), ('bc', 0, 20, pan[:40], True), ('bc', 1, 32, sp[:64], True),
             ('tb', 0, 32, sp[:64], True), ('ltc', 1, 32, sp[:64], False)}
    for d, kinds in lower_bases:
        if d['pl'] in ('00' * 20, 'ff' * 20):
            continue        # these payloads add no new characters
        # thorough: everything for bc and tb, the three standard forms for the other prefixes
        deep = not q and (d['hrp'] in ('bc', 'tb') or (d['v'], len(d['pl']) // 2) in ((0, 20), (0, 32), (1, 32)))
        for up in (False, True):
            ubases.append((dict(d, up=True) if up else d,
                           UFULL if (deep or (d['hrp'], d['v'], len(d['pl']) // 2, d['pl'], up) in ufull) else ULIGHT, 1500))

    # ------------------------------------------------------------------ WIF
    def sec_ok(b):
        b = bytearray(b)
        if b[-1] == 1:      # an uncompressed WIF whose secret ends in 01 is C12's subject, not this check's
            b[-1] = 2
        return bytes(b).hex()
    wvers = sorted(WIFV)
    s_seed = sec_ok(_seeded(seed, 'wif', 32))
    extra = ['%064x' % 2, '%064x' % (secp.N - 1), '0000' + 'c3' * 30]
    bases = []
    # ('80', True, 2) is the seed-independent secret n-1 (its WIF contains 'o' and 'i')
    qfull = {('80', True, 2), ('80', False, 0), ('ef', True, 0), ('b0', False, 0)}
    for v in wvers:
        secs = [s_seed] + (extra if v == b'\x80' else [])
        if not q:
            secs += [sec_ok(_seeded(seed, 'wif%d' % k, 32)) for k in range(1)]
        for i, sx in enumerate(secs):
            for comp in (True, False):
                bases.append(({'t': 'wif', 'ver': v.hex(), 'sec': sx, 'comp': comp, 'net': _first_net(WIFV, v)},
                              FULL if (not q or (v.hex(), comp, i) in qfull) else LIGHT))
    if want('wif'):
        cs = []
        for d, kinds in bases:
            cs += _cases(d, kinds, 250)
        ctx.pmap('wif', cs, chunk=1)
    notes['wif'] = _note(bases, versions=[v.hex() for v in wvers])
    for d, kinds in bases:
        ubases.append((d, UFULL if (not q or (d['ver'], d['comp'], d['sec']) == ('80', True, extra[1])) else ULIGHT, 600))

    # ------------------------------------------------------------------ extended keys
    xseed = _seeded(seed, 'xk', 32).hex()
    prefixes = []
    seenp = set()
    for n in nets.NAMES:
        for hx, _t, kind, ms, wt, _s in nets.NETS[n]['prefixes_wif']:
            if hx.lower() not in seenp:
                seenp.add(hx.lower())
                prefixes.append((hx.lower(), kind == 'private', n))
    full_set = {'0488ade4', '0488b21e', '045f1cf6'}
    if not q:       # every bitcoin prefix (SLIP-132 single and multisig), legacy pairs of testnet/litecoin/bitcoinlib_test
        full_set = set(p for p, _, n in prefixes if n == 'bitcoin') | \
            {'043587cf', '04358394', '019da462', '019d9cfe', '2fffaccc', '2fffaddd', '045f1cf6'}
    bases = []
    for hx, priv, n in prefixes:
        paths = [[bip32.H + 44, 1]]
        if hx in ('0488ade4', '0488b21e'):
            paths.append([])           # master key: depth 0, zero fingerprint -> long runs of '1'-free zeros
        for path in paths:
            bases.append(({'t': 'xk', 'ver': hx, 'priv': priv, 'seed': xseed, 'path': path, 'net': n},
                          FULL if (hx in full_set and (path or not q)) else LIGHT))
    if want('xkey'):
        cs = []
        for d, kinds in bases:
            cs += _cases(d, kinds, 130)
        ctx.pmap('xkey', cs, chunk=1)
    notes['xkey'] = _note(bases, prefixes=len(prefixes))
    for d, kinds in bases:
        ubases.append((d, UFULL if (not q or (d['ver'] == '0488ade4' and d['path'])) else ULIGHT, 400))

    # ------------------------------------------------------------------ BIP38 (substituted KDF)
    bsec = sec_ok(_seeded(seed, 'b38', 32))
    # the first base string is seed-independent ('33'*32: its encoding contains both 'o' and 'i')
    b38 = [({'t': 'b38', 'mode': 'plain', 'comp': True, 'sec': '33' * 32, 'pw': PW, 'aver': '00', 'net': 'bitcoin'}, FULL),
           ({'t': 'b38', 'mode': 'plain', 'comp': False, 'sec': bsec, 'pw': PW, 'aver': '00', 'net': 'bitcoin'},
            LIGHT if q else FULL),
           ({'t': 'b38', 'mode': 'plain', 'comp': True, 'sec': bsec, 'pw': PW, 'aver': '6f', 'net': 'testnet'},
            LIGHT if q else FULL),
           ({'t': 'b38', 'mode': 'ec', 'comp': True, 'pw': PW, 'aver': '00', 'net': 'bitcoin',
             'salt': _seeded(seed, 'salt', 8).hex(), 'seedb': _seeded(seed, 'seedb', 24).hex()}, LIGHT if q else FULL),
           ({'t': 'b38', 'mode': 'ec', 'comp': False, 'pw': PW, 'aver': '00', 'net': 'bitcoin', 'lot': 100000 + seed % 899999,
             'seq': 1 + seed % 4095, 'salt': _seeded(seed, 'salt', 4).hex(), 'seedb': _seeded(seed, 'seedb2', 24).hex()},
            LIGHT if q else FULL)]
    if want('bip38'):
        cs = []
        for d, kinds in b38:
            cs += _cases(d, kinds, 130 if d['mode'] == 'plain' else 60)
        ctx.pmap('bip38', cs, chunk=1)
    notes['bip38'] = _note(b38, kdf='substituted')
    for i, (d, kinds) in enumerate(b38):
        ubases.append((d, UFULL if (not q or i == 0) else ULIGHT, 400))

    # ------------------------------------------------------------------ characters outside US-ASCII
    if want('unicode'):
        cs = []
        for d, kinds, per_case in ubases:
            cs += _cases(d, kinds, per_case)
        ctx.pmap('unicode', cs, chunk=1)
    tab = _utables()
    notes['unicode'] = {
        'unicode_database': unicodedata.unidata_version, 'code_points_with_an_ascii_reading': tab['n'],
        'ascii_texts_with_equivalents': len(tab['all']), 'of_these_by_case_mapping': len(tab['case']),
        'equivalents_per_alphanumeric(min,max)': [min(len(tab['all'][c]) for c in B58.lower()),
                                                  max(len(tab['all'][c]) for c in B58.lower())],
        'inserted_characters': len(U_INS), 'base_strings': len(ubases),
        'bech32_upper_case_forms': sum(1 for d, _, _ in ubases if d.get('up')),
        'all_equivalents_every_gap(uall,uins)': sum(1 for _, k, _ in ubases if k is UFULL),
        'case_mappings_head_tail(ucase,uends)': sum(1 for _, k, _ in ubases if k is ULIGHT),
        'by_type': {t: sum(1 for d, _, _ in ubases if d['t'] == t) for t in ('b58a', 'seg', 'wif', 'xk', 'b38')}}

    # ------------------------------------------------------------------ BIP38 with the real scrypt
    if want('bip38_real'):
        import json
        import os
        with open(os.path.join(os.path.dirname(bip38.__file__), 'vectors', 'bip38_protected_key_tests.json')) as f:
            vec = json.load(f)['valid']
        cs = []
        for i, v in enumerate(vec):
            d = {'t': 'b38', 's': v['bip38'], 'pw': v['passphrase'], 'aver': '00', 'net': 'bitcoin', 'real': True}
            cs.append({'d': d, 'kind': 'base', 'lo': 0, 'hi': 1})
            if i < (1 if q else 4):
                d2 = dict(d, sites=['Key(bip38)'])
                L = len(v['bip38'])
                for p in range(L - (1 if q else 3), L):
                    cs.append({'d': d2, 'kind': 'sub', 'lo': p, 'hi': p + 1})
        # split the 62 substitutions of a position over several workers (each costs one scrypt)
        split = []
        for c in cs:
            if c['kind'] == 'sub':
                for part in range(8):
                    split.append(dict(c, part=part, parts=8))
            else:
                split.append(c)
        ctx.pmap('bip38_real', split, chunk=1)
        notes['bip38_real'] = {'vectors': len(vec), 'final_positions_substituted': 1 if q else 3}

    # ------------------------------------------------------------------ all version bytes / prefixes
    if want('versions'):
        cs = [{'t': 'b58a', 'pl': pl} for pl in (pl_zero, _seeded(seed, 'addrv', 20).hex())]
        cs += [{'t': 'wif', 'sec': s_seed, 'comp': c} for c in (True, False)]
        cs += [{'t': 'seg', 'hrps': hrps + ['zz', 'b', 'bcx', 'tc', 'lt'], 'forms': [[0, 20], [0, 32], [1, 32]],
                'pl': sp}]
        unknown = ['00000000', '0488ade5', '0488b21f', 'ffffffff', '04b2430d', '01020304']
        cs += [{'t': 'xk', 'vers': [[p, n] for p, pr, n in prefixes if pr == priv] + [[u, None] for u in unknown], 'priv': priv, 'seed': xseed,
                'path': [1]} for priv in (True, False)]
        ctx.pmap('versions', cs, chunk=1)
    for k, v in notes.items():
        ctx.note('bounds_' + k, v)
