"""C14 Mnemonic sentences follow BIP39 in every language and round-trip.

E1 input-space enumeration on the real `bitcoinlib.mnemonic.Mnemonic` / `HDKey.from_passphrase` against the
reference BIP39 of vf/ref/bip39.py (written from the specification; word lists pinned under vf/ref/wordlists).
"""
import hashlib
import hmac
import itertools
import os
import unicodedata

from vf.ref import bip39, secp

ID = 'C14'
LEVEL = 'exploration'
RULE = ('entropies: every combination of the 32-bit words {00000000,00000001,7fffffff,80000000,ffffffff} for 16 '
        'bytes in english, japanese and chinese_traditional (thorough: 16 and 20 bytes in all nine languages, 24 bytes '
        'in those three), boundary rows (one word varied over the alphabet against each uniform background; quick: three '
        'backgrounds) otherwise, the integers 0..W (leading zeros), all-ones minus 0..8, the '
        'neighbourhood of the secp256k1 order, and a seed-positioned window of consecutive integers per length; '
        'each in all nine bundled languages and given as bytes and as hex string. Seeds: the sentence (NFKD, NFC '
        'and - Japanese - ideographic-space form) x a passphrase alphabet containing every Unicode normalisation '
        'situation. Substitutions: every position of a valid sentence x {previous, next, first, last word of the '
        'list, same-index word of another list, capitalised word, non-word}. A case is non-trivial when the '
        'library produced a sentence/entropy/seed that was compared with the reference, or rejected a sentence the '
        'reference rejects; distinct by (language, entropy, input form) resp. (language, sentence, passphrase, form) '
        'resp. (language, sentence, position, substitute). Histories: every sequence of length <= 2 (thorough 3) over '
        '16 operations (to_mnemonic, to_entropy / to_seed / sanitize_mnemonic / detect_language with own- and '
        'foreign-language, valid and invalid sentences, generate, word, wordlist) on ONE Mnemonic(lang) object for '
        'several (object language, foreign language) pairs; every step is compared with the reference for the '
        'object\'s language (resp. the sentence\'s language for to_seed/sanitize/detect); distinct by history.')
ASSUMPTIONS = [
    'trusted base: hashlib (sha256, pbkdf2_hmac, hmac-sha512), unicodedata; vf/ref/bip39.py validated at start-up on '
    'the Trezor vectors and the Japanese vector with a non-normalised passphrase',
    'the nine reference word lists are pinned copies (2048 words each); a word list bundled with the library that '
    'is not among them is reported as a cap',
    'sentences are compared after NFKD normalisation of both sides (canonically equivalent strings are the same '
    'sentence); the separator is a single space after NFKD',
    'to_mnemonic refusing entropy 0 and entropy >= secp256k1 order with the default check_on_curve=True is the '
    'documented behaviour and accepted; the same entropy must then give the BIP39 sentence with '
    'check_on_curve=False; a refusal of any other entropy is a deviation',
    'a substituted sentence whose checksum happens to match is a valid sentence of another entropy and must '
    'decode to that entropy (decided by the reference)',
    'rejection = any exception (the library raises ValueError and Warning)',
    'sentences of a wrong word count are not judged (the property only speaks of checksum and out-of-list words); '
    'Mnemonic(lang).to_entropy decodes with the list of the object, so a sentence with a word outside that list is '
    'rejected there, while to_seed / sanitize_mnemonic / detect_language detect the language of the sentence '
    '(HDKey.from_passphrase has no language argument, so it is judged with sentences of every language)',
    'a Mnemonic object is a pure function of its language: the result of an operation must not depend on the '
    'operations performed on the object before (history sub-space)',
]

A5 = ['00000000', '00000001', '7fffffff', '80000000', 'ffffffff']
LENGTHS = (16, 20, 24, 28, 32)
PASSPHRASES = [
    ('empty', ''),
    ('ascii', 'TREZOR'),
    ('nfd_e_acute', 'e\u0301'),
    ('nfc_e_acute', '\u00e9'),
    ('jp_compat', '\u334d\u30ac\u30d0\u30f4\u30a1'),
    ('ideographic_space', '\u3000'),
    ('halfwidth_kana', '\uff76\uff9e'),
    ('ligature_fi', '\ufb01sh'),
    ('angstrom_sign', '\u212b'),
    ('nbsp', 'a\u00a0b'),
    ('reordered_marks', 'a\u0301\u0323'),
    ('emoji', '\U0001f511key'),
    ('cjk_plain', '\u5bc6\u7801'),
]


def nfkd(s):
    return unicodedata.normalize('NFKD', s)


def _words_any(entropy, lang):
    """BIP39 encoding generalised to any multiple of 4 bytes (used only to recognise a mis-read input)."""
    cs = len(entropy) // 4
    bits = bin(int.from_bytes(entropy, 'big'))[2:].zfill(len(entropy) * 8) if entropy else ''
    bits += bin(hashlib.sha256(entropy).digest()[0])[2:].zfill(8)[:cs]
    wl = bip39.wordlist(lang)
    return [wl[int(bits[i:i + 11], 2)] for i in range(0, len(bits), 11)]


def selftest():
    bip39.selftest()
    secp.selftest() if hasattr(secp, 'selftest') else None
    assert bip39.LANGS == sorted(bip39.LANGS) and len(bip39.LANGS) == 9
    for lang in bip39.LANGS:
        wl = bip39.wordlist(lang)
        assert len(set(wl)) == 2048
        assert all(nfkd(w).count(' ') == 0 for w in wl)
        assert len(set(nfkd(w) for w in wl)) == 2048     # still distinct after NFKD
    e = bytes.fromhex('00000000000000000000000000000000')
    assert _words_any(e, 'english') == bip39.to_words(e, 'english')
    e = bytes(range(32))
    assert _words_any(e, 'french') == bip39.to_words(e, 'french')
    assert len(_words_any(bytes(8), 'english')) == 6
    # the passphrase alphabet contains strings that NFKD changes and strings it leaves alone
    ch = [nfkd(p) != p for _, p in PASSPHRASES]
    assert any(ch) and not all(ch)
    assert secp.N == 0xFFFFFFFFFFFFFFFFFFFFFFFFFFFFFFFEBAAEDCE6AF48A03BBFD25E8CD0364141


# ----------------------------------------------------------------------------------------------------------
class Rec:
    def __init__(self):
        self.devs = {}
        self.out = {}
        self.n = 0
        self.nt = set()

    def dev(self, sig, detail):
        d = self.devs.get(sig)
        if d is None:
            self.devs[sig] = {'sig': sig, 'detail': dict(detail, count_in_case=1)}
        else:
            d['detail']['count_in_case'] += 1

    def o(self, label, k=1):
        self.out[label] = self.out.get(label, 0) + k

    def result(self, ret=None):
        return {'devs': list(self.devs.values()), 'n': self.n, 'nt': sorted(self.nt), 'out': self.out, 'ret': ret}


def _len_class(b):
    return 'len=%d' % len(b) if isinstance(b, (bytes, bytearray)) else 'type=%s' % type(b).__name__


def _is_ascii_hex(b):
    try:
        bytes.fromhex(b.decode())
        return True
    except (ValueError, UnicodeDecodeError):
        return False


def _sentence_class(got, ref_words):
    gw = nfkd(got).split(' ')
    if len(gw) != len(ref_words):
        return 'word_count_%d_for_%d' % (len(gw), len(ref_words))
    return 'words_differ'


def sub_ent(case):
    """case = {'lang': l, 'ents': [hex, ...]}: entropy -> sentence (bytes and hex input) -> entropy."""
    from bitcoinlib.mnemonic import Mnemonic
    lang = case['lang']
    m = Mnemonic(lang)
    rec = Rec()
    for hx in case['ents']:
        ent = bytes.fromhex(hx)
        ei = int.from_bytes(ent, 'big')
        ref_words = bip39.to_words(ent, lang)
        ref = ' '.join(ref_words)
        off_curve = not 0 < ei < secp.N
        sentence = None
        for form, arg in (('bytes', ent), ('hex', hx)):
            site = 'to_mnemonic(%s)' % form
            if form == 'bytes' and _is_ascii_hex(ent):
                continue          # judged in the asciihex sub-space
            rec.n += 1
            try:
                s = m.to_mnemonic(arg)
                if off_curve:
                    rec.o('off_curve_not_refused')     # refusing is optional for the property
            except Exception as e:
                if off_curve and isinstance(e, ValueError) and 'secp256k1 domain' in str(e):
                    rec.o('refused_off_curve_documented')
                    rec.n += 1
                    try:
                        s = m.to_mnemonic(arg, check_on_curve=False)
                    except Exception as e2:
                        rec.dev('%s|check_on_curve=False|raises_%s' % (site, type(e2).__name__),
                                {'lang': lang, 'entropy': hx, 'exc': repr(e2)[:200]})
                        continue
                else:
                    rec.dev('%s|valid_entropy_refused|%s' % (site, type(e).__name__),
                            {'lang': lang, 'entropy': hx, 'exc': repr(e)[:200]})
                    rec.o('raised')
                    continue
            rec.nt.add('%s|%s|%s' % (lang, hx, form))
            if isinstance(s, str) and nfkd(s) == nfkd(ref):
                rec.o('sentence_ok')
                sentence = s
            else:
                rec.dev('%s|wrong_sentence|%s' % (site, _sentence_class(s, ref_words) if isinstance(s, str)
                                                  else 'type=%s' % type(s).__name__),
                        {'lang': lang, 'entropy': hx, 'got': s, 'expected': ref})
                rec.o('sentence_wrong')
        # back to entropy (from the library's own sentence when it was right, else from the reference one)
        rec.n += 1
        src = sentence if sentence is not None else ref
        try:
            back = m.to_entropy(src)
        except Exception as e:
            rec.dev('to_entropy|valid_sentence_refused|%s' % type(e).__name__,
                    {'lang': lang, 'entropy': hx, 'sentence': src, 'exc': repr(e)[:200]})
            rec.o('raised')
            continue
        rec.nt.add('%s|%s|back' % (lang, hx))
        if back == ent:
            rec.o('entropy_ok')
        else:
            rec.dev('to_entropy|wrong_entropy|%s_for_len=%d' % (_len_class(back), len(ent)),
                    {'lang': lang, 'entropy': hx, 'got': back.hex() if isinstance(back, bytes) else repr(back)})
            rec.o('entropy_wrong')
    return rec.result()


def sub_asciihex(case):
    """case = {'lang', 'ent': hex}: entropy bytes that are themselves ASCII hex digits."""
    from bitcoinlib.mnemonic import Mnemonic
    lang = case['lang']
    ent = bytes.fromhex(case['ent'])
    assert _is_ascii_hex(ent)
    ref_words = bip39.to_words(ent, lang)
    ref = ' '.join(ref_words)
    rec = Rec()
    rec.n += 1
    half = bytes.fromhex(ent.decode())
    try:
        s = Mnemonic(lang).to_mnemonic(ent, check_on_curve=False)
    except Exception as e:
        if len(half) % 4 and isinstance(e, ValueError) and '(%d bytes' % len(half) in str(e):
            # the length complained about is that of the hex-decoded text, not of the entropy handed in
            rec.dev('to_mnemonic(bytes)|ascii_hex_bytes_read_as_hex_string', {'lang': lang, 'entropy_bytes': repr(ent), 'exc': repr(e)[:200]})
            rec.o('bytes_read_as_hex_text_then_refused')
        else:
            rec.dev('to_mnemonic(bytes)|ascii_hex_bytes|raises_%s' % type(e).__name__, {'entropy': case['ent'], 'exc': repr(e)[:200]})
        return rec.result()
    rec.nt.add('%s|%s' % (lang, case['ent']))
    if nfkd(s) == nfkd(ref):
        rec.o('sentence_ok')
    elif len(half) % 4 == 0 and nfkd(s) == nfkd(' '.join(_words_any(half, lang))):
        rec.dev('to_mnemonic(bytes)|ascii_hex_bytes_read_as_hex_string',
                {'lang': lang, 'entropy_bytes': repr(ent), 'got': s, 'expected': ref})
        rec.o('bytes_read_as_hex_text')
    else:
        rec.dev('to_mnemonic(bytes)|ascii_hex_bytes|wrong_sentence_unexplained', {'lang': lang, 'entropy_bytes': repr(ent), 'got': s})
    return rec.result()


def _forms(lang, ref_words):
    s = nfkd(' '.join(ref_words))
    forms = [('nfkd', s)]
    c = unicodedata.normalize('NFC', s)
    if c != s:
        forms.append(('nfc', c))
    if lang == 'japanese':
        forms.append(('ideographic_space', '\u3000'.join(ref_words)))
    return forms


def _pw_class(pw):
    return 'nfkd_changes_passphrase' if nfkd(pw) != pw else 'passphrase_already_nfkd'


def sub_seed(case):
    """case = {'lang', 'ent': hex, 'pws': [index into PASSPHRASES]}: seed and master key of a valid sentence."""
    from bitcoinlib.mnemonic import Mnemonic
    from bitcoinlib.keys import HDKey
    lang = case['lang']
    ent = bytes.fromhex(case['ent'])
    ref_words = bip39.to_words(ent, lang)
    ref = ' '.join(ref_words)
    m = Mnemonic(lang)
    english = set(bip39.wordlist('english'))
    rec = Rec()
    for pi in case['pws']:
        pname, pw = PASSPHRASES[pi]
        exp = bip39.seed(ref, pw)
        raw_pw_seed = hashlib.pbkdf2_hmac('sha512', nfkd(ref).encode(), b'mnemonic' + pw.encode('utf8'), 2048, 64)
        I = hmac.new(b'Bitcoin seed', exp, hashlib.sha512).digest()
        for fname, s in _forms(lang, ref_words):
            for site in ('to_seed', 'to_seed(validate=False)', 'HDKey.from_passphrase'):
                if site != 'to_seed' and fname != 'nfkd' and pi > 1:
                    continue
                rec.n += 1
                try:
                    if site == 'to_seed':
                        got = m.to_seed(s, pw)
                    elif site == 'to_seed(validate=False)':
                        got = m.to_seed(s, pw, validate=False)
                    else:
                        k = HDKey.from_passphrase(s, pw)
                        got = (k.private_byte, k.chain)
                except Exception as e:
                    if site == 'HDKey.from_passphrase' and lang != 'english' and isinstance(e, ValueError) and \
                            'is not in list' in str(e) and any(nfkd(w) not in english for w in ref_words):
                        rec.dev('HDKey.from_passphrase|valid_non_english_sentence_refused|word_looked_up_in_english_list',
                                {'lang': lang, 'sentence': s, 'exc': repr(e)[:120]})
                        rec.o('refused_non_english')
                    else:
                        rec.dev('%s|valid_sentence_refused|%s' % (site, type(e).__name__),
                                {'lang': lang, 'sentence': s, 'form': fname, 'passphrase': pname, 'exc': repr(e)[:200]})
                        rec.o('raised')
                    continue
                rec.nt.add('%s|%s|%s|%s|%s' % (lang, case['ent'], pname, fname, site))
                if site == 'HDKey.from_passphrase':
                    good = got == (I[:32], I[32:])
                    I2 = hmac.new(b'Bitcoin seed', raw_pw_seed, hashlib.sha512).digest()
                    rawmatch = got == (I2[:32], I2[32:])
                else:
                    good = got == exp
                    rawmatch = got == raw_pw_seed
                if good:
                    rec.o('seed_ok_%s' % _pw_class(pw))
                elif rawmatch and nfkd(pw) != pw:
                    rec.dev('%s|passphrase_not_nfkd_normalised|seed_of_raw_passphrase' % site,
                            {'lang': lang, 'sentence_form': fname, 'passphrase': pname,
                             'passphrase_codepoints': ['%04x' % ord(c) for c in pw]})
                    rec.o('seed_of_unnormalised_passphrase')
                else:
                    rec.dev('%s|wrong_seed|%s|%s' % (site, 'sentence_form=' + fname, _pw_class(pw)),
                            {'lang': lang, 'sentence': s, 'passphrase': pname})
                    rec.o('seed_wrong')
    return rec.result()


SUBSTITUTES = ('prev', 'next', 'first', 'last', 'other_list', 'capitalised', 'non_word')


def _substitute(kind, lang, words, pos):
    wl = bip39.wordlist(lang)
    i = wl.index(words[pos])
    if kind == 'prev':
        return wl[(i - 1) % 2048]
    if kind == 'next':
        return wl[(i + 1) % 2048]
    if kind == 'first':
        return wl[0] if i != 0 else wl[1]
    if kind == 'last':
        return wl[2047] if i != 2047 else wl[2046]
    if kind == 'other_list':
        other = bip39.LANGS[(bip39.LANGS.index(lang) + 1 + pos % 8) % 9]
        if other == lang:
            other = bip39.LANGS[(bip39.LANGS.index(lang) + 1) % 9]
        return bip39.wordlist(other)[i]
    if kind == 'capitalised':
        w = words[pos]
        c = w[0].upper() + w[1:]
        return c if c != w else w + w          # scripts without case: doubled word (not in any list)
    if kind == 'non_word':
        return 'zzyzx' if pos % 2 else words[pos] + 'x'
    raise ValueError(kind)


def sub_subst(case):
    """case = {'lang', 'ent': hex, 'pos': [positions]}: every single-word substitution at these positions."""
    from bitcoinlib.mnemonic import Mnemonic
    from bitcoinlib.keys import HDKey
    lang = case['lang']
    ent = bytes.fromhex(case['ent'])
    words = bip39.to_words(ent, lang)
    m = Mnemonic(lang)
    wlset = set(bip39.wordlist(lang))
    rec = Rec()
    for pos in case['pos']:
        for kind in SUBSTITUTES:
            w2 = _substitute(kind, lang, words, pos)
            if w2 == words[pos]:
                continue
            ws = list(words)
            ws[pos] = w2
            s = ' '.join(ws)
            exp = bip39.to_entropy(ws, lang)
            # to_seed / from_passphrase find the language themselves: a sentence that is a valid sentence of ANOTHER
            # bundled list (the Chinese lists share most words) is rightly accepted there
            exp_any = exp
            if exp is None:
                for other in bip39.LANGS:
                    try:
                        e2 = bip39.to_entropy(ws, other)
                    except Exception:
                        e2 = None
                    if e2 is not None:
                        exp_any = e2
                        break
            cls = 'out_of_list_word' if w2 not in wlset else 'checksum_mismatch' if exp is None else 'valid_other_entropy'
            key = '%s|%s|%d|%s' % (lang, case['ent'], pos, kind)
            sites = ['to_entropy']
            if not case.get('light') or kind in ('next', 'other_list', 'non_word'):
                sites.append('to_seed')
            if lang == 'english':
                sites.append('HDKey.from_passphrase')
            for site in sites:
                rec.n += 1
                try:
                    if site == 'to_entropy':
                        got = m.to_entropy(s)
                    elif site == 'to_seed':
                        got = m.to_seed(s, 'pw')
                    else:
                        k = HDKey.from_passphrase(s, 'pw')
                        got = (k.private_byte, k.chain)
                except Exception as e:
                    if exp is None and site == 'to_entropy' or exp_any is None:
                        rec.o('rejected_%s' % cls)
                        rec.nt.add(key + '|' + site)
                    else:
                        rec.dev('%s|valid_sentence_refused|%s' % (site, type(e).__name__),
                                {'lang': lang, 'sentence': s, 'exc': repr(e)[:200]})
                    continue
                rec.nt.add(key + '|' + site)
                if site != 'to_entropy' and exp is None and exp_any is not None:
                    sd = bip39.seed(s, 'pw')
                    I = hmac.new(b'Bitcoin seed', sd, hashlib.sha512).digest()
                    if got == (sd if site == 'to_seed' else (I[:32], I[32:])):
                        rec.o('valid_sentence_of_another_list_ok')
                    else:
                        rec.dev('%s|wrong_result_for_valid_sentence_of_another_list' % site, {'lang': lang, 'sentence': s})
                    continue
                if exp is None:
                    rec.dev('%s|invalid_sentence_accepted|%s|substitute=%s' % (site, cls, kind),
                            {'lang': lang, 'sentence': s, 'position': pos,
                             'got': got.hex() if isinstance(got, bytes) else repr(got)[:100]})
                    rec.o('accepted_invalid')
                    continue
                if site == 'to_entropy':
                    good = got == exp
                else:
                    sd = bip39.seed(s, 'pw')
                    if site == 'to_seed':
                        good = got == sd
                    else:
                        I = hmac.new(b'Bitcoin seed', sd, hashlib.sha512).digest()
                        good = got == (I[:32], I[32:])
                if good:
                    rec.o('valid_other_entropy_ok')
                else:
                    rec.dev('%s|wrong_result_for_valid_substituted_sentence' % site, {'lang': lang, 'sentence': s})
    return rec.result()


def sub_generate(case):
    """case = {'lang', 'ent': hex}: Mnemonic.generate with os.urandom answering this entropy."""
    from bitcoinlib.mnemonic import Mnemonic
    lang = case['lang']
    ent = bytes.fromhex(case['ent'])
    rec = Rec()
    rec.n += 1
    real = os.urandom
    asked = []

    def fake(n):
        asked.append(n)
        return ent[:n]
    os.urandom = fake
    try:
        try:
            s = Mnemonic(lang).generate(len(ent) * 8)
        finally:
            os.urandom = real
    except Exception as e:
        if not 0 < int.from_bytes(ent, 'big') < secp.N and 'secp256k1 domain' in str(e):
            rec.o('refused_off_curve_documented')
        else:
            rec.dev('generate|raises_%s' % type(e).__name__, {'lang': lang, 'entropy': case['ent'], 'exc': repr(e)[:200]})
        return rec.result()
    if asked != [len(ent)]:
        rec.dev('generate|entropy_request|asked_%s_for_%d_bytes' % ('_'.join(map(str, asked)) or 'nothing', len(ent)),
                {'asked': asked})
        return rec.result()
    rec.nt.add('%s|%s' % (lang, case['ent']))
    if nfkd(s) == nfkd(' '.join(bip39.to_words(ent, lang))):
        rec.o('sentence_ok')
    else:
        rec.dev('generate|wrong_sentence', {'lang': lang, 'entropy': case['ent'], 'got': s})
    return rec.result()


# ----------------------------------------------------------------------------------------------------------
# sub-space: histories on ONE Mnemonic object (the object must stay a pure function of its language)
HIST_OPS = ('to_mnemonic', 'to_mnemonic_hex', 'to_entropy_own', 'to_entropy_own_badsum', 'to_entropy_foreign',
            'to_entropy_foreign_badword', 'to_seed_own', 'to_seed_foreign', 'to_seed_foreign_badword',
            'sanitize_own', 'sanitize_foreign', 'detect_own', 'detect_foreign', 'generate', 'word', 'wordlist')


def _distinct_sentence(lang, other, tag):
    """A 12-word entropy whose sentence in `lang` has a word that is in no other list's overlap with `other`
    (so language detection and list membership are unambiguous), chosen deterministically."""
    oset = set(bip39.wordlist(other))
    k = 0
    while True:
        ent = hashlib.sha256(b'C14 hist %s %s %s %d' % (lang.encode(), other.encode(), tag.encode(), k)).digest()[:16]
        words = bip39.to_words(ent, lang)
        if sum(1 for w in words if w not in oset) >= 2:
            return ent, words
        k += 1


def _hist_fixture(own, foreign):
    e1, w_own = _distinct_sentence(own, foreign, 'own')
    e2, _ = _distinct_sentence(own, foreign, 'own2')
    e3, _ = _distinct_sentence(own, foreign, 'gen')
    e4, w_for = _distinct_sentence(foreign, own, 'foreign')
    wl = bip39.wordlist(own)
    bad = None
    for d in range(1, 2048):
        cand = w_own[:-1] + [wl[(wl.index(w_own[-1]) + d) % 2048]]
        if bip39.to_entropy(cand, own) is None:
            bad = cand
            break
    w_forbad = list(w_for)
    w_forbad[3] = 'zzyzx'
    return {'e1': e1, 'e2': e2, 'e3': e3, 'e4': e4, 'own': w_own, 'own_bad': bad, 'for': w_for, 'for_bad': w_forbad}


def _expected_language(words):
    counts = {l: sum(1 for w in words if w in set(bip39.wordlist(l))) for l in bip39.LANGS}
    best = max(counts.values())
    top = [l for l in counts if counts[l] == best]
    return top[0] if len(top) == 1 and best else None


def _hist_apply(m, op, own, foreign, fx):
    """Run one operation on the object; return (kind, observed, expected) with kind in value/raise."""
    def call(f):
        try:
            return ('value', f())
        except Exception as e:
            return ('raise', '%s: %s' % (type(e).__name__, str(e)[:80]))
    S = lambda ws: ' '.join(ws)
    if op == 'to_mnemonic':
        return call(lambda: nfkd(m.to_mnemonic(fx['e1']))), ('value', nfkd(S(bip39.to_words(fx['e1'], own))))
    if op == 'to_mnemonic_hex':
        return call(lambda: nfkd(m.to_mnemonic(fx['e2'].hex()))), ('value', nfkd(S(bip39.to_words(fx['e2'], own))))
    if op == 'to_entropy_own':
        return call(lambda: m.to_entropy(S(fx['own'])).hex()), ('value', fx['e1'].hex())
    if op == 'to_entropy_own_badsum':
        return call(lambda: m.to_entropy(S(fx['own_bad'])).hex()), ('raise', None)
    if op == 'to_entropy_foreign':        # a word outside the object's list: rejected (the reference agrees)
        assert bip39.to_entropy([nfkd(w) for w in fx['for']], own) is None
        return call(lambda: m.to_entropy(S(fx['for'])).hex()), ('raise', None)
    if op == 'to_entropy_foreign_badword':
        return call(lambda: m.to_entropy(S(fx['for_bad'])).hex()), ('raise', None)
    if op == 'to_seed_own':
        return call(lambda: m.to_seed(S(fx['own']), 'pw').hex()), ('value', bip39.seed(S(fx['own']), 'pw').hex())
    if op == 'to_seed_foreign':           # to_seed detects the language of the sentence
        return call(lambda: m.to_seed(S(fx['for']), 'pw').hex()), ('value', bip39.seed(S(fx['for']), 'pw').hex())
    if op == 'to_seed_foreign_badword':
        return call(lambda: m.to_seed(S(fx['for_bad']), 'pw').hex()), ('raise', None)
    if op == 'sanitize_own':
        return call(lambda: nfkd(m.sanitize_mnemonic(S(fx['own'])))), ('value', nfkd(S(fx['own'])))
    if op == 'sanitize_foreign':
        return call(lambda: nfkd(m.sanitize_mnemonic(S(fx['for'])))), ('value', nfkd(S(fx['for'])))
    if op == 'detect_own':
        return call(lambda: m.detect_language(S(fx['own']))), ('value', _expected_language([nfkd(w) for w in fx['own']]))
    if op == 'detect_foreign':
        return call(lambda: m.detect_language(S(fx['for']))), ('value', _expected_language([nfkd(w) for w in fx['for']]))
    if op == 'generate':
        real = os.urandom
        os.urandom = lambda n: fx['e3'][:n]
        try:
            r = call(lambda: nfkd(m.generate(128)))
        finally:
            os.urandom = real
        return r, ('value', nfkd(S(bip39.to_words(fx['e3'], own))))
    if op == 'word':
        wl = bip39.wordlist(own)
        return call(lambda: [m.word(0), m.word(1000), m.word(2047)]), ('value', [wl[0], wl[1000], wl[2047]])
    if op == 'wordlist':
        return call(lambda: hashlib.sha256('\n'.join(m.wordlist()).encode()).hexdigest()), \
            ('value', hashlib.sha256('\n'.join(bip39.wordlist(own)).encode()).hexdigest())
    raise ValueError(op)


def _hist_wrong_class(op, own, foreign, fx, got):
    """Name the wrong behaviour: the result that the *foreign* language would give, or unexplained."""
    kind, val = got
    if kind == 'raise':
        return 'raised'
    try:
        if op in ('to_mnemonic', 'to_mnemonic_hex', 'generate'):
            e = {'to_mnemonic': fx['e1'], 'to_mnemonic_hex': fx['e2'], 'generate': fx['e3']}[op]
            if val == nfkd(' '.join(bip39.to_words(e, foreign))):
                return 'sentence_in_foreign_language'
        if op == 'word':
            wl = bip39.wordlist(foreign)
            if val == [wl[0], wl[1000], wl[2047]]:
                return 'words_of_foreign_language'
        if op == 'wordlist' and val == hashlib.sha256('\n'.join(bip39.wordlist(foreign)).encode()).hexdigest():
            return 'wordlist_of_foreign_language'
        if op in ('to_entropy_foreign',) and val == fx['e4'].hex():
            return 'foreign_sentence_decoded_with_foreign_list'
    except Exception:
        pass
    return 'accepted' if op.endswith(('badsum', 'badword', 'to_entropy_foreign')) else 'wrong_value'


def sub_hist(case):
    """case = {'own', 'foreign', 'first': op, 'depth': d}: every operation sequence of length <= d that starts
    with `first`, each on a fresh Mnemonic(own) object; every step's result is compared with the reference."""
    from bitcoinlib.mnemonic import Mnemonic
    own, foreign, depth = case['own'], case['foreign'], case['depth']
    fx = _hist_fixture(own, foreign)
    rec = Rec()
    seqs = [[case['first']]]
    for d in range(1, depth):
        seqs += [[case['first']] + list(t) for t in itertools.product(HIST_OPS, repeat=d)]
    traces = 0
    for seq in seqs:
        m = Mnemonic(own)
        traces += 1
        for i, op in enumerate(seq):
            got, exp = _hist_apply(m, op, own, foreign, fx)
            rec.n += 1
            ok = (got[0] == 'raise') if exp[0] == 'raise' else (got[0] == 'value' and (exp[1] is None or got[1] == exp[1]))
            if ok:
                rec.o('hist_%s' % ('rejected' if exp[0] == 'raise' else 'ok'))
                continue
            cls = _hist_wrong_class(op, own, foreign, fx, got)
            fresh = 'fresh_object' if i == 0 else 'after_history'
            rec.dev('history|%s|%s|%s' % (op, cls, fresh),
                    {'object_language': own, 'foreign_language': foreign, 'history': seq[:i + 1],
                     'got': got[1] if isinstance(got[1], (str, list)) else repr(got[1]),
                     'expected': exp[1] if exp[0] == 'value' else 'an exception'})
            rec.o('hist_deviation')
        rec.nt.add('%s>%s:%s' % (own, foreign, '>'.join(seq)))
    return rec.result(traces)



SUBS = {'hist': sub_hist, 'ent': sub_ent, 'asciihex': sub_asciihex, 'seed': sub_seed, 'subst': sub_subst, 'generate': sub_generate}


# ----------------------------------------------------------------------------------------------------------
def _rows(nwords, quick=False):
    out = []
    for bg in (A5 if not quick else ('00000000', '7fffffff', 'ffffffff')):
        for pos in range(nwords):
            for a in A5:
                w = [bg] * nwords
                w[pos] = a
                out.append(''.join(w))
    return out


FULL_LANGS = ('english', 'japanese', 'chinese_traditional')


def entropies(ctx, length, lang):
    q = ctx.quick
    nw = length // 4
    ents = []
    if q:
        full = (16,) if lang in FULL_LANGS else ()
    else:
        full = (16, 20, 24) if lang in FULL_LANGS else (16, 20)
    if length in full:
        ents += [''.join(c) for c in itertools.product(A5, repeat=nw)]
    else:
        ents += _rows(nw, q)
    top = (1 << (8 * length)) - 1
    small = 32 if q else 256
    ents += ['%0*x' % (2 * length, i) for i in range(0, small)]
    ents += ['%0*x' % (2 * length, top - i) for i in range(0, 9)]
    # single set bit at every byte boundary (leading-zero runs of every length)
    ents += ['%0*x' % (2 * length, 1 << (8 * k)) for k in range(length)]
    if not q:
        ents += ['%0*x' % (2 * length, 0x80 << (8 * k)) for k in range(length)]
    if length == 32:
        ents += ['%064x' % (secp.N + d) for d in range(-3, 4)]
        ents += ['%064x' % (secp.N // 2 + d) for d in (0, 1)]
    w = 16 if q else 256
    base = int.from_bytes(hashlib.sha256(b'C14 window %d %d' % (ctx.seed, length)).digest() * 2, 'big') >> (512 - 8 * length)
    base = min(base, top - w)
    ents += ['%0*x' % (2 * length, base + i) for i in range(w)]
    seen = set()
    out = []
    for e in ents:
        if e not in seen:
            seen.add(e)
            out.append(e)
    return out


def run(ctx):
    q = ctx.quick
    only = getattr(ctx, 'only', None)

    def want(name):
        return not only or name in only

    # the library's bundled lists must be exactly the nine reference lists
    import bitcoinlib
    d = os.path.join(os.path.dirname(bitcoinlib.__file__), 'wordlist')
    bundled = sorted(f[:-4] for f in os.listdir(d) if f.endswith('.txt'))
    if bundled != bip39.LANGS:
        ctx.cap('bundled word lists %s differ from the nine reference lists' % bundled)
    langs = [l for l in bip39.LANGS if l in bundled]
    counts = {}
    if want('ent'):
        cases = []
        for length in LENGTHS:
            for lang in langs:
                ents = entropies(ctx, length, lang)
                counts['%s/%d' % (lang, length)] = len(ents)
                for i in range(0, len(ents), 24):
                    cases.append({'lang': lang, 'ents': ents[i:i + 24]})
        ctx.pmap('ent', cases, chunk=1)
    if want('asciihex'):
        ah = [b'0' * 16, b'0123456789abcdef', b'ABCDEFabcdef0099', b'f' * 20, b'00000000000000000000000000000001',
              b'deadbeef' * 4, b'7' * 24, b'A' * 28]
        ctx.pmap('asciihex', [{'lang': lang, 'ent': e.hex()} for e in ah for lang in
                              (langs if not q else ['english', 'japanese', 'spanish'])])
    sample = {}
    for length in LENGTHS:
        nw = length // 4
        s = [(A5[2] + A5[4] + A5[1] + A5[3] + A5[0] + A5[2] + A5[4] + A5[1])[:8 * nw],
             ('%0*x' % (2 * length, 1))]
        if not q:
            s += [(A5[3] * nw), hashlib.sha512(b'C14 sample %d' % length).hexdigest()[:2 * length]]
        # one seed-chosen filler sentence per length
        s.append(hashlib.sha512(b'C14 filler %d %d' % (ctx.seed, length)).hexdigest()[:2 * length])
        sample[length] = s
    if want('seed'):
        cases = []
        allp = list(range(len(PASSPHRASES)))
        for lang in langs:
            for length in LENGTHS:
                for j, e in enumerate(sample[length]):
                    pws = allp if (j == 0 or not q) else [0, 1, 3] if j == len(sample[length]) - 1 else []
                    for i in range(0, len(pws), 4):
                        cases.append({'lang': lang, 'ent': e, 'pws': pws[i:i + 4]})
        ctx.pmap('seed', cases, chunk=1)
    if want('subst'):
        cases = []
        for lang in langs:
            for length in LENGTHS:
                if q and length in (20, 24, 28) and lang not in ('english', 'japanese'):
                    continue
                nwords = length * 3 // 4
                for e in (sample[length][:1] if q else sample[length]):
                    for p in range(0, nwords, 3):
                        cases.append({'lang': lang, 'ent': e, 'pos': list(range(p, min(p + 3, nwords))), 'light': q})
        ctx.pmap('subst', cases, chunk=1)
    if want('generate'):
        cases = []
        for lang in langs:
            for length in LENGTHS:
                for e in sample[length][:2] + ['00' * length, 'ff' * length]:
                    cases.append({'lang': lang, 'ent': e})
        ctx.pmap('generate', cases)
    if want('hist'):
        pairs = [('english', 'spanish'), ('italian', 'english'), ('french', 'japanese'),
                 ('chinese_simplified', 'chinese_traditional')]
        if not q:
            pairs += [('japanese', 'chinese_simplified'), ('spanish', 'french'), ('chinese_traditional', 'english'),
                      ('dutch', 'portuguese'), ('portuguese', 'italian')]
        depth = 2 if q else 3
        cases = [{'own': o, 'foreign': f, 'first': op, 'depth': depth} for o, f in pairs
                 if o in langs and f in langs for op in HIST_OPS]
        rets = ctx.pmap('hist', cases, chunk=1)
        ctx.note('histories', {'object/foreign language pairs': pairs, 'max_length': depth, 'operations': list(HIST_OPS),
                               'histories_executed_on_fresh_objects': sum(r or 0 for r in rets)})
    ctx.note('bounds', {'tier': ctx.tier, 'languages': langs, 'entropies_by_language/length': counts,
                        'full_product_lengths': ({l: [16] if l in FULL_LANGS else [] for l in langs} if q else
                                                 {l: [16, 20, 24] if l in FULL_LANGS else [16, 20] for l in langs}),
                        'passphrases': [p for p, _ in PASSPHRASES], 'substitutes': list(SUBSTITUTES),
                        'sentences_substituted_per_language_and_length': ('1 (12 and 24 words; all five lengths for english and japanese)' if q else len(sample[16]))})
