"""C06 Transaction and block serialisation round-trips byte-for-byte; ids are exact.

E1 input-space enumeration: every case is a *specification* (version, inputs, outputs, witness stacks, locktime /
header fields) from explicitly listed alphabets; the REFERENCE serialiser (vf/ref/tx.py and the block serialiser
below, written from the protocol definition) produces the bytes, the library parses / re-serialises / builds them,
the reference parser reads the library's bytes back.  Two call-history sub-spaces: operation histories on one
Transaction object (vf/txhist.py) and reader histories on one Block object (cursor model in this module).
"""
import hashlib
import json
from io import BytesIO

from vf.ref import codec, secp
from vf.ref import tx as RT

ID = 'C06'
LEVEL = 'exploration'
RULE = ('specs are the full products of the listed alphabets per sub-space: every one-byte value 00..ff (and 81 '
        'two-byte values) as output script / scriptSig / witness item; script and witness-item lengths {0,1,2,3,20,32,'
        '33,63,64,65,66,69,71,72,74,75,76,77,252,253,255,256,520, 65535,65536 [T: more]} x content fills {00,51,61,'
        'ff,ascii-hex,valid pushes, first byte 02/04/30}; key-/signature-looking contents (valid and invalid) bare, '
        'pushed, pushed+CHECKSIG; multisig-shaped scripts with (in)consistent counts; 24 standard spend forms x 3 '
        'push/sighash variants; input/output counts {1,2,3,252,253 [T: 65535,65536]} x {legacy,segwit}; witness item '
        'counts {0,1,2,3,252,253,2000 [T: 8000]}; version x locktime x sequence x value x prev-txid alphabets; coinbase '
        'forms; witness stack shapes x neighbours; seed-positioned filler.  Laws per spec: parse(raw).raw()==raw '
        'through six entry points (strict and non-strict), txid == reference txid, parsed fields == spec, API-built '
        'transaction -> raw() -> reference parser == spec.  Blocks = header alphabets (version, bits incl. exponent '
        '<3 and >32, nonce, time) x 16 transaction sets of 1..3 transactions, read through seven readers, per law '
        '(header/hash/target, txids, serialize, rawtx).  Block reader histories: on ONE Block object every call '
        'sequence of length <= 3 [T: 4] over {parse_transaction(), parse_transactions(), parse_transactions(limit=1), '
        'parse_transactions(2), parse_transactions_dict(), parse_transaction_dict(), serialize()} from every initial '
        'parse {no transactions, parse_transactions=True with limit absent/0/1/2/n-1/n/n+1, limit given without '
        'parse_transactions} x blocks of 1,3,6 [T: 2,4] distinct transactions (and a 253-transaction block, 3-byte '
        'count prefix, depth 1 [T: 2]), entry points parse_bytes [T: parse, parse_bytesio fully]; every call is judged '
        'against a cursor model of the block (answer, transactions held, header) and every history is finished with '
        'parse_transactions()+serialize() == input.  A case is non-trivial when the library parsed or built the '
        'object and its bytes were compared (distinct by spec; histories: distinct by block, initial parse and '
        'call prefix)')
ASSUMPTIONS = [
    'reference transaction serialiser/parser (vf/ref/tx.py) is validated on the BIP143/BIP144 examples and the '
    'genesis coinbase in its self-test; the block header / compact-target reference in this module is validated on '
    'the genesis block and on the arith_uint256 SetCompact test values of Bitcoin Core',
    'well-formed = what Bitcoin Core deserialises: at least one input and one output (a transaction without outputs '
    'or inputs is not demanded), a witness marker only with at least one non-empty stack (the all-empty marker form '
    'is enumerated but a refusal is accepted)',
    'scripts and witness items are opaque byte strings at this level: a script that does not tokenise is still '
    'part of a well-formed transaction',
    'the internal representation of an empty witness item is not demanded (the library keeps b"\\0" for it); only '
    'the bytes written back and the ids are',
    'API law: compared with the spec the caller supplied, except the documented version 1 -> 2 upgrade when a '
    'relative-locktime sequence is added; a constructor that refuses a spec builds nothing and is not a deviation',
    'block reader histories: the two readers share one position in the transaction stream (the model: cursor + '
    'list of held transactions); parse_transactions_dict() lists the transactions from the cursor to the end and '
    'leaves the cursor where it was (on a block whose transactions are all held it lists nothing), '
    'parse_transaction_dict() reads one transaction and advances the cursor without adding an object; a call that '
    'would read past the last transaction (possible only after parse_transaction_dict() steps) is not demanded and '
    'ends the history; serialize() of a block that does not hold all its transactions must be refused (ValueError)',
    'compact target: sign bit set is excluded (no target is defined); for an exponent below 3 the integer '
    'mantissa >> 8*(3-exponent) of Bitcoin Core is demanded only when the library value is not numerically equal',
]

HEXCH = set(b'0123456789abcdefABCDEF')
WS = set(b' \t\n\r\x0b\x0c')


def selftest():
    codec.selftest()
    secp.selftest()
    RT.selftest()
    # genesis block
    hdr = bytes.fromhex('01000000' + '00' * 32 + '3ba3edfd7a7b12b27ac72c3e67768f617fc81bc3888a51323a9fb8aa4b1e5e4a'
                        '29ab5f49ffff001d1dac2b7c')
    h = parse_header(hdr)
    assert h == {'version': 1, 'prev': bytes(32),
                 'merkle': bytes.fromhex('4a5e1e4baab89f3a32518a88c31bc87f618f76673e2cc77ab2127b7afdeda33b')[::-1],
                 'time': 1231006505, 'bits': 0x1d00ffff, 'nonce': 2083236893}
    assert ser_header(h) == hdr
    assert block_hash(hdr) == '000000000019d6689c085ae165831e934ff763ae46a2a6c172b3f1b60a8ce26f'
    assert compact_target(0x1d00ffff) == 0xffff << 208
    # arith_uint256 tests of Bitcoin Core (bignum_SetCompact)
    for bits, want in ((0, 0), (0x00123456, 0), (0x01003456, 0), (0x02000056, 0), (0x03000000, 0), (0x04000000, 0),
                       (0x00923456, 0), (0x01123456, 0x12), (0x02123456, 0x1234), (0x03123456, 0x123456),
                       (0x04123456, 0x12345600), (0x05009234, 0x92340000), (0x20123456, 0x123456 << 232)):
        assert compact_target(bits) == want, hex(bits)
    genesis_tx = RT.parse(bytes.fromhex(
        '01000000010000000000000000000000000000000000000000000000000000000000000000ffffffff4d04ffff00'
        '1d0104455468652054696d65732030332f4a616e2f32303039204368616e63656c6c6f72206f6e206272696e6b20'
        '6f66207365636f6e64206261696c6f757420666f722062616e6b73ffffffff0100f2052a01000000434104678afd'
        'b0fe5548271967f1a67130b7105cd6a828e03909a67962e0ea1f61deb649f6bc3f4cef38c4f35504e51ec112de5c'
        '384df7ba0b8d578a4c702b6bf11d5fac00000000'))
    assert merkle_root([RT.txid(genesis_tx)]) == h['merkle']
    # spec round trip of the generators
    for sp in (_spec_std('p2pkh', 0), _spec_std('p2wpkh', 0), _spec_std('p2sh_p2wpkh', 0)):
        assert RT.serialize(RT.parse(_ser(sp)), force_marker=True) == _ser(sp)


# ------------------------------------------------------------------ block reference (protocol definition)
def parse_header(b):
    assert len(b) == 80
    return {'version': int.from_bytes(b[0:4], 'little'), 'prev': b[4:36], 'merkle': b[36:68],
            'time': int.from_bytes(b[68:72], 'little'), 'bits': int.from_bytes(b[72:76], 'little'),
            'nonce': int.from_bytes(b[76:80], 'little')}


def ser_header(h):
    return h['version'].to_bytes(4, 'little') + h['prev'] + h['merkle'] + h['time'].to_bytes(4, 'little') + \
        h['bits'].to_bytes(4, 'little') + h['nonce'].to_bytes(4, 'little')


def block_hash(hdr80):
    return codec.dsha256(hdr80)[::-1].hex()


def compact_target(bits):
    """arith_uint256::SetCompact (value only; sign bit must be clear)."""
    size = bits >> 24
    word = bits & 0x007fffff
    if size <= 3:
        return word >> (8 * (3 - size))
    return word << (8 * (size - 3))


def merkle_root(txids_hex):
    layer = [bytes.fromhex(t)[::-1] for t in txids_hex]
    while len(layer) > 1:
        if len(layer) % 2:
            layer.append(layer[-1])
        layer = [codec.dsha256(layer[i] + layer[i + 1]) for i in range(0, len(layer), 2)]
    return layer[0]


def ser_block(h, raws):
    return ser_header(h) + codec.cs_encode(len(raws)) + b''.join(raws)


# ------------------------------------------------------------------------------------ spec helpers
def _b(desc):
    """script / item descriptor -> bytes.  str = hex; ['f', byte, n]; ['ax', n]; ['push', byte, n]"""
    if isinstance(desc, str):
        return bytes.fromhex(desc)
    k = desc[0]
    if k == 'f':
        return bytes([desc[1]]) * desc[2]
    if k == 'ax':
        return (b'0123456789abcdefABCDEF' * (desc[1] // 22 + 1))[:desc[1]]
    if k == 'push':      # a script made of well-formed pushes, total length exactly n (n >= 2)
        n = desc[2]
        out = b''
        while n - len(out) > 77:
            out += codec.push(bytes([desc[1]]) * 75)
        rest = n - len(out)
        if rest == 1:
            out += b'\x51'
        elif rest == 77:
            out += codec.push(bytes([desc[1]]) * 37) + codec.push(bytes([desc[1]]) * 38)
        elif rest >= 2:
            out += codec.push(bytes([desc[1]]) * (rest - 1)) if rest - 1 < 0x4c else \
                b'\x4c' + bytes([rest - 2]) + bytes([desc[1]]) * (rest - 2)
        assert len(out) == desc[2], (desc, len(out))
        return out
    raise ValueError(desc)


def _txid(sel):
    """prev txid in wire order from a selector"""
    if isinstance(sel, str):
        return bytes.fromhex(sel)
    return hashlib.sha256(b'C06|prev|%d' % sel).digest()


def _spec(vin, vout, wit=None, version=1, locktime=0):
    """vin: [[txidsel, n, scriptdesc, seq]], vout: [[value, scriptdesc]], wit: None | [[itemdesc]]"""
    return {'version': version, 'locktime': locktime, 'vin': vin, 'vout': vout, 'wit': wit}


def _rtx(sp):
    vin = [{'txid': _txid(t), 'vout': n, 'script': _b(s), 'seq': q} for t, n, s, q in sp['vin']]
    vout = [{'value': v, 'script': _b(s)} for v, s in sp['vout']]
    wit = None if sp['wit'] is None else [[_b(i) for i in st] for st in sp['wit']]
    return RT.RTx(sp['version'], vin, vout, sp['locktime'], wit)


def _ser(sp):
    return RT.serialize(_rtx(sp), force_marker=True)


def _is_coinbase(r):
    return len(r.vin) >= 1 and r.vin[0]['txid'] == bytes(32)


def _hexlike(b):
    """bytes that encoding.to_bytes() takes for a hex string: ASCII hex digits (even count) and ASCII whitespace"""
    if not b or any(c not in HEXCH and c not in WS for c in b):
        return False
    return sum(1 for c in b if c in HEXCH) % 2 == 0


def _unhex(b):
    return bytes.fromhex(b.decode())


def _tokens(b):
    try:
        return codec.script_tokens(b)
    except ValueError:
        return None


def _items(b):
    t = _tokens(b)
    if t is None:
        return None
    return [op if (d is None or op == 0) else bytes(d) for op, d in t]


def _minimal(items):
    return b''.join(bytes([i]) if isinstance(i, int) else codec.push(i) for i in items)


P1 = secp.ser(secp.pub(1))
P2 = secp.ser(secp.pub(2))
P3 = secp.ser(secp.pub(3))
P1U = secp.ser(secp.pub(1), False)
H1 = codec.hash160(P1)


def _der(r, s, ht=1):
    return secp.der_encode(r, s) + bytes([ht])


def _sized(rbytes, sbytes, rhigh=False, shigh=False):
    r = (1 << (8 * rbytes - 1)) - 5 if not rhigh else (1 << (8 * rbytes)) - 5
    s = (1 << (8 * sbytes - 1)) - 9 if not shigh else (1 << (8 * sbytes)) - 9
    return _der(r % secp.N or 1, s % secp.N or 1)


SIG_SIZES = {73: _sized(32, 31, True, False) + b'', 70: _sized(31, 32), 69: _sized(31, 31), 68: _sized(30, 31)}
SIG_SIZES[73] = _der((1 << 255) + 11, (secp.N - 7))          # r and s with the high bit set (high S, still strict DER)
SIG_A = _der(secp.pub(7)[0] % secp.N, 0x1234567890abcdef1234567890abcdef1234567890abcdef1234567890abcdef)
SIG_B = _der(secp.pub(9)[0] % secp.N, 0x0f00000000000000000000000000000000000000000000000000000000000001)
P2PKH = b'\x76\xa9\x14' + H1 + b'\x88\xac'


def _spec_std(kind, variant):
    """Standard spends.  variant 0 = canonical pushes, 1 = OP_PUSHDATA1 pushes in scriptSig, 2 = other sighash byte"""
    sig = SIG_A if variant != 2 else SIG_A[:-1] + b'\x83'
    if variant in SIG_SIZES:
        # the size classes of a strictly DER encoded signature (with its hash-type byte): 73 = r and s with the high
        # bit set, 72 / 71 the usual ones, 70 / 69 / 68 = leading zero bytes in r and/or s
        sig = SIG_SIZES[variant]
    def P(d):
        return codec.push(d) if variant != 1 else b'\x4c' + bytes([len(d)]) + d
    out = [[50000, P2PKH.hex()], [0, '6a04deadbeef']]
    ms = b'\x52' + codec.push(P1) + codec.push(P2) + codec.push(P3) + b'\x53\xae'
    if kind == 'p2pkh':
        return _spec([[1, 0, (P(sig) + P(P1)).hex(), 0xffffffff]], out)
    if kind == 'p2pkh_uncompressed':
        return _spec([[1, 0, (P(sig) + P(P1U)).hex(), 0xffffffff]], out)
    if kind == 'p2pk':
        return _spec([[1, 0, P(sig).hex(), 0xffffffff]], out)
    if kind == 'p2sh_multisig':
        return _spec([[1, 0, (b'\x00' + P(sig) + P(SIG_B) + P(ms)).hex(), 0xffffffff]], out)
    if kind == 'bare_multisig_out':
        return _spec([[1, 0, (P(sig) + P(P1)).hex(), 0xffffffff]], [[1000, ms.hex()], [2000, (codec.push(P1) + b'\xac').hex()]])
    if kind == 'p2wpkh':
        return _spec([[1, 0, '', 0xfffffffd]], out, wit=[[sig.hex(), P1.hex()]], version=2)
    if kind == 'p2sh_p2wpkh':
        return _spec([[1, 0, codec.push(b'\x00\x14' + H1).hex(), 0xffffffff]], out, wit=[[sig.hex(), P1.hex()]])
    if kind == 'p2wsh_multisig':
        return _spec([[1, 0, '', 0xffffffff]], out, wit=[['', sig.hex(), SIG_B.hex(), ms.hex()]])
    if kind == 'p2sh_p2wsh_multisig':
        return _spec([[1, 0, codec.push(b'\x00\x20' + codec.sha256(ms)).hex(), 0xffffffff]], out,
                     wit=[['', sig.hex(), SIG_B.hex(), ms.hex()]])
    if kind == 'p2sh_multisig_partially_signed':
        return _spec([[1, 0, (b'\x00' + P(sig) + P(ms)).hex(), 0xffffffff]], out)
    if kind == 'p2wsh_multisig_partially_signed':
        return _spec([[1, 0, '', 0xffffffff]], out, wit=[['', sig.hex(), ms.hex()]])
    if kind == 'p2sh_p2wsh_multisig_partially_signed':
        return _spec([[1, 0, codec.push(b'\x00\x20' + codec.sha256(ms)).hex(), 0xffffffff]], out,
                     wit=[['', sig.hex(), ms.hex()]])
    if kind.startswith('ms_slots:'):
        # incompletely signed 2-of-3 inputs as other software hands them around: one slot per key, each holding a
        # signature, an empty placeholder, or nothing
        _, carrier, layout = kind.split(':')
        sigs3 = [sig, SIG_B, SIG_A[:-1] + b'\x01' if variant == 2 else SIG_B[:6] + b'\x55' + SIG_B[7:]]
        slots = [sigs3[i] if ch == 's' else b'' for i, ch in enumerate(layout) if ch != '-']
        if carrier == 'p2sh':
            body = b'\x00' + b''.join(P(x) if x else b'\x00' for x in slots) + P(ms)
            return _spec([[1, 0, body.hex(), 0xffffffff]], out)
        stack = [''] + [x.hex() for x in slots] + [ms.hex()]
        if carrier == 'p2wsh':
            return _spec([[1, 0, '', 0xffffffff]], out, wit=[stack])
        return _spec([[1, 0, codec.push(b'\x00\x20' + codec.sha256(ms)).hex(), 0xffffffff]], out, wit=[stack])
    p2pk = codec.push(P1) + b'\xac'
    htlc = b'\x63\xa8\x20' + b'\x33' * 32 + b'\x88' + codec.push(P1) + b'\x67\x02\x90\x00\xb2\x75' + codec.push(P2) + \
        b'\x68\xac'
    if kind == 'p2wsh_p2pk':
        return _spec([[1, 0, '', 0xffffffff]], out, wit=[[sig.hex(), p2pk.hex()]])
    if kind == 'p2sh_p2wsh_p2pk':
        return _spec([[1, 0, codec.push(b'\x00\x20' + codec.sha256(p2pk)).hex(), 0xffffffff]], out,
                     wit=[[sig.hex(), p2pk.hex()]])
    if kind == 'p2wsh_htlc_claim':
        return _spec([[1, 0, '', 0xffffffff]], out, wit=[[sig.hex(), (b'\x44' * 32).hex(), '01', htlc.hex()]])
    if kind == 'p2wsh_htlc_timeout':
        return _spec([[1, 0, '', 0x90]], out, wit=[[sig.hex(), '', htlc.hex()]], version=2)
    if kind == 'p2sh_custom_script':
        rs = b'\x63\xa8\x20' + b'\x33' * 32 + b'\x88\x68' + codec.push(P1) + b'\xac'
        return _spec([[1, 0, (P(sig) + P(b'\x44' * 32) + b'\x51' + P(rs)).hex(), 0xffffffff]], out)
    if kind == 'p2tr_keypath':
        return _spec([[1, 0, '', 0xffffffff]], out, wit=[[(b'\x11' * 64).hex()]])
    if kind == 'p2tr_keypath_sighash':
        return _spec([[1, 0, '', 0xffffffff]], out, wit=[[(b'\x11' * 64 + b'\x01').hex()]])
    if kind == 'p2tr_scriptpath':
        leaf = codec.push(P1[1:]) + b'\xac'
        return _spec([[1, 0, '', 0xffffffff]], out, wit=[[(b'\x22' * 64).hex(), leaf.hex(), (b'\xc0' + P2[1:]).hex()]])
    if kind == 'mixed_legacy_and_segwit_inputs':
        return _spec([[1, 0, (P(sig) + P(P1)).hex(), 0xffffffff], [2, 1, '', 0xffffffff]], out,
                     wit=[[], [sig.hex(), P1.hex()]])
    if kind == 'p2wpkh_two_inputs':
        return _spec([[1, 0, '', 0xffffffff], [2, 1, '', 0xfffffffe]], out,
                     wit=[[sig.hex(), P1.hex()], [SIG_B.hex(), P2.hex()]], locktime=500000)
    if kind == 'coinbase_legacy':
        return _spec([['00' * 32, 0xffffffff, '03a0bb0d04deadbeef', 0xffffffff]], out)
    if kind == 'coinbase_segwit':
        return _spec([['00' * 32, 0xffffffff, '03a0bb0d04deadbeef', 0xffffffff]],
                     out + [[0, '6a24aa21a9ed' + '00' * 32]], wit=[['00' * 32]])
    raise ValueError(kind)


STD_KINDS = ['p2pkh', 'p2pkh_uncompressed', 'p2pk', 'p2sh_multisig', 'bare_multisig_out', 'p2wpkh', 'p2sh_p2wpkh',
             'p2wsh_multisig', 'p2sh_p2wsh_multisig', 'p2sh_multisig_partially_signed',
             'p2wsh_multisig_partially_signed', 'p2sh_p2wsh_multisig_partially_signed', 'p2wsh_p2pk', 'p2sh_p2wsh_p2pk',
             'p2wsh_htlc_claim', 'p2wsh_htlc_timeout', 'p2sh_custom_script', 'p2tr_keypath', 'p2tr_keypath_sighash', 'p2tr_scriptpath',
             'mixed_legacy_and_segwit_inputs', 'p2wpkh_two_inputs', 'coinbase_legacy', 'coinbase_segwit']
STD_KINDS += ['ms_slots:%s:%s' % (c, ''.join(l)) for c in ('p2wsh', 'p2sh_p2wsh', 'p2sh')
              for l in __import__('itertools').product('se-', repeat=3)]


# ---------------------------------------------------------------------------- deviation classifiers
class _Acc:
    def __init__(self):
        self.devs = []
        self.seen = set()
        self.n = 0
        self.compared = 0
        self.out = {}

    def dev(self, sig, detail):
        self.out['dev'] = self.out.get('dev', 0) + 1
        if sig not in self.seen:
            self.seen.add(sig)
            self.devs.append({'sig': sig, 'detail': detail})

    def label(self, lab):
        self.out[lab] = self.out.get(lab, 0) + 1

    def result(self):
        return {'devs': self.devs, 'n': self.n, 'nt': True if self.compared else [], 'out': self.out}


def _script_diff(pos, want, got):
    """pos = 'scriptsig' | 'output_script'; list of classes that together explain want -> got exactly"""
    if pos == 'output_script' and want == b'\x00' and got == b'':
        return ['output_script_00_written_as_empty_script']
    if _hexlike(want):
        u = _unhex(want)
        if got == u:
            return ['%s_of_ascii_hex_or_whitespace_bytes_unhexlified' % pos]
        if pos == 'output_script' and u == b'\x00' and got == b'':
            return ['%s_of_ascii_hex_or_whitespace_bytes_unhexlified' % pos, 'output_script_00_written_as_empty_script']
    if pos == 'coinbase_scriptsig':
        return ['coinbase_scriptsig_00_written_as_empty_script'] if (want == b'\x00' and got == b'') else \
            ['coinbase_scriptsig_unexplained']
    if pos == 'scriptsig' and want == b'\x00' and got == b'':
        return ['scriptsig_00_written_as_empty_script']
    if pos == 'scriptsig':
        it = _items(want)
        if it is not None and want != _minimal(it) and got == _minimal(it):
            return ['scriptsig_pushes_reencoded_minimally']
        git = _items(got)
        if it is not None and git is not None and len(it) == len(git) and len(it) >= 2 and it[0] == 0 and \
                it[:-1] == git[:-1] and isinstance(it[-1], bytes) and isinstance(git[-1], bytes) and \
                it[-1][1:] == git[-1][1:] and it[-1][-1:] == b'\xae':
            return ['p2sh_multisig_scriptsig_rebuilt_with_other_required_signatures_opcode']
    return ['%s_unexplained' % pos]


def _p2sh_p2wsh_without_ms(r, k):
    """input k has the P2SH-P2WSH scriptSig form (push of 00 20 <32 bytes>) but its witness does not end in a
    multisig script"""
    sc = r.vin[k]['script']
    if len(sc) != 35 or sc[:3] != b'\x22\x00\x20' or r.wit is None:
        return False
    return _ms_m_n_sigs(r.wit[k]) is None


def _p2sh_segwit_form(sc):
    return (len(sc) == 23 and sc[:3] == b'\x16\x00\x14') or (len(sc) == 35 and sc[:3] == b'\x22\x00\x20')


def _ms_m_n_sigs(stack_or_items):
    """(m, number of signature-like items) when the last element is a multisig-shaped script, else None"""
    if not stack_or_items or not isinstance(stack_or_items[-1], bytes):
        return None
    it = _items(stack_or_items[-1])
    if not it or it[-1] != 0xae or len(it) < 4 or not isinstance(it[0], int) or not (0x51 <= it[0] <= 0x60):
        return None
    return it[0] - 0x50, sum(1 for x in stack_or_items[:-1] if isinstance(x, bytes) and _siglike(x))


def _model_raw(r):
    """Bytes predicted by applying every known byte-losing rewrite; (bytes, applied rule names)"""
    rules = []
    vin = []
    for i in r.vin:
        t = i['txid']
        if _hexlike(t[::-1]):
            t = _unhex(t[::-1])[::-1]
            rules.append('prev_txid_of_ascii_hex_digits_unhexlified')
        sc = i['script']
        pre = b''
        if i['txid'] == bytes(32) and sc == b'\x00':
            sc = b''
            rules.append('coinbase_scriptsig_00_written_as_empty_script')
        if i['txid'] != bytes(32):
            if _hexlike(sc):
                sc = _unhex(sc)
                rules.append('scriptsig_of_ascii_hex_or_whitespace_bytes_unhexlified')
            if sc[:1] == b'\x00' and len(sc) > 1 and _tokens(sc) is None and _items_prefix(sc) == [0]:
                pre = b'\x01'
                rules.append('extra_byte_01_written_before_scriptsig_starting_with_00')
        vin.append((t, i['vout'], pre, sc, i['seq']))
    vout = []
    for o in r.vout:
        sc = o['script']
        if _hexlike(sc):
            sc = _unhex(sc)
            rules.append('output_script_of_ascii_hex_or_whitespace_bytes_unhexlified')
        body = codec.cs_encode(len(sc)) + sc
        if sc == b'\x00':
            body = b'\x00'
            rules.append('output_script_00_written_as_empty_script')
        vout.append(o['value'].to_bytes(8, 'little') + body)

    def ser(with_wit):
        out = r.version.to_bytes(4, 'little')
        if with_wit:
            out += b'\x00\x01'
        out += codec.cs_encode(len(vin))
        for t, n, pre, sc, q in vin:
            out += t + n.to_bytes(4, 'little') + pre + codec.cs_encode(len(sc)) + sc + q.to_bytes(4, 'little')
        out += codec.cs_encode(len(vout)) + b''.join(vout)
        if with_wit:
            for st in r.wit:
                out += codec.cs_encode(len(st))
                for it in st:
                    if it == b'\x00':
                        out += b'\x00'
                        rules.append('witness_item_00_written_as_empty_item')
                    else:
                        out += codec.cs_encode(len(it)) + it
        return out + r.locktime.to_bytes(4, 'little')
    stripped = ser(False)
    full = ser(True) if r.wit is not None else stripped
    return full, stripped, list(dict.fromkeys(rules))


def _items_prefix(sc):
    """items of the longest well-formed prefix of a script (what a tolerant tokeniser keeps)"""
    out = []
    i = 0
    n = len(sc)
    while i < n:
        op = sc[i]
        i += 1
        if 1 <= op <= 0x4e:
            if op < 0x4c:
                ln = op
            else:
                w = {0x4c: 1, 0x4d: 2, 0x4e: 4}[op]
                if i + w > n:
                    break
                ln = int.from_bytes(sc[i:i + w], 'little')
                i += w
            if i + ln > n:
                break
            out.append(sc[i:i + ln])
            i += ln
        else:
            out.append(op)
    return out


def _diff_classes(r, got_raw):
    """Field-wise comparison of the reference transaction r with the bytes the library wrote."""
    full, stripped, rules = _model_raw(r)
    if rules and got_raw == full:
        return rules
    try:
        g = RT.parse(got_raw)
    except Exception:
        return ['written_bytes_not_parseable_by_reference']
    C = []
    if g.version != r.version:
        C.append('version_differs')
    if g.locktime != r.locktime:
        C.append('locktime_differs')
    if len(g.vin) != len(r.vin) or len(g.vout) != len(r.vout):
        return C + ['input_or_output_count_differs']
    for a, b in zip(r.vin, g.vin):
        if a['txid'] != b['txid'] or a['vout'] != b['vout']:
            C.append('outpoint_differs')
        if a['seq'] != b['seq']:
            C.append('sequence_differs')
        if a['script'] != b['script']:
            if a['txid'] == bytes(32):
                C += _script_diff('coinbase_scriptsig', a['script'], b['script'])
            elif _p2sh_p2wsh_without_ms(r, r.vin.index(a)):
                C.append('p2sh_p2wsh_shaped_input_without_multisig_witness_script_rewritten')
            else:
                C += _script_diff('scriptsig', a['script'], b['script'])
    for a, b in zip(r.vout, g.vout):
        if a['value'] != b['value']:
            C.append('value_differs')
        if a['script'] != b['script']:
            C += _script_diff('output_script', a['script'], b['script'])
    rw = r.wit if r.wit is not None else None
    gw = g.wit
    if (rw is None) != (gw is None):
        if rw is not None and not any(rw) and gw is None:
            C.append('superfluous_marker_removed')
        else:
            C.append('segwit_marker_differs')
    elif rw is not None:
        for k, (a, b) in enumerate(zip(rw, gw)):
            if _p2sh_p2wsh_without_ms(r, k) and a != b:
                C.append('p2sh_p2wsh_shaped_input_without_multisig_witness_script_rewritten')
                continue
            if len(a) != len(b):
                ms = _ms_m_n_sigs(a)
                if a and not b and r.vin[k]['txid'] == bytes(32):
                    C.append('witness_stack_of_coinbase_input_dropped')
                elif a and not b and ms and ms[1] < ms[0] and \
                        (not r.vin[k]['script'] or _p2sh_segwit_form(r.vin[k]['script'])):
                    C.append('witness_stack_of_multisig_input_with_fewer_signatures_than_required_dropped')
                elif a and not b and r.vin[k]['script']:
                    C.append('witness_stack_of_input_with_nonempty_scriptsig_dropped')
                else:
                    C.append('witness_item_count_differs')
                continue
            for x, y in zip(a, b):
                if x != y:
                    C.append('witness_item_00_written_as_empty_item' if (x == b'\x00' and y == b'')
                             else 'witness_item_unexplained')
    if not C and got_raw != RT.serialize(r, force_marker=True):
        C.append('noncanonical_length_prefix_or_layout')
    return list(dict.fromkeys(C))


def _all_scripts(r):
    for i in r.vin:
        if i['txid'] != bytes(32):
            yield 'scriptsig', i['script']
    for o in r.vout:
        yield 'output_script', o['script']


def _datas(r):
    """every byte string the library may look at as 'data': whole scripts, witness items, and (two levels deep,
    the library parses unrecognised data as a sub-script) the pushes of the longest well-formed prefix"""
    def walk(pos, b, depth):
        yield pos, b
        if depth < 3:
            for it in _items_prefix(b):
                if isinstance(it, bytes) and it:
                    for x in walk(pos + '_push', it, depth + 1):
                        yield x
    for pos, s in _all_scripts(r):
        for x in walk(pos, s, 0):
            yield x
    for st in (r.wit or []):
        for it in st:
            for x in walk('witness_item', it, 0):
                yield x


def _keylike(d):
    return (len(d) == 33 and d[0] in (2, 3)) or (len(d) == 65 and d[0] == 4)


def _siglike(d):
    return len(d) >= 1 and d[0] == 0x30 and 69 <= len(d) <= 74


def _exc_class(r, e):
    """Name the cause of a refusal to parse, from the exception and a reference predicate on the spec."""
    name = type(e).__name__
    msg = str(e)
    if name == 'ScriptError' and msg.startswith('Malformed script, not enough data'):
        for pos, s in _all_scripts(r):
            # (a tree that still unhexlifies hex-looking script bytes parses the shortened script instead)
            if _tokens(s) is None or (_hexlike(s) and _tokens(_unhex(s)) is None):
                return 'refuses_%s_with_truncated_push' % pos
        for st in (r.wit or []):
            for it in st:
                if _tokens(it) is None:
                    return 'refuses_witness_item_that_does_not_tokenise_as_a_script'
        for pos, d in _datas(r):
            if _tokens(d) is None:
                return 'refuses_pushed_data_that_does_not_tokenise_as_a_script'
        return 'raises_ScriptError_unexplained'
    if name == 'TransactionError' and msg.startswith('Please specify address, lock_script') and \
            any(o['script'] == b'' or (_hexlike(o['script']) and _unhex(o['script']) == b'') for o in r.vout):
        return 'refuses_empty_output_script'
    if name == 'TransactionError' and msg.startswith('Unknown unlocking script type '):
        t = msg.split()[4]
        known = ('p2tr_unlock', 'signature_multisig', 'locktime_cltv', 'locktime_csv', 'multisig_redeemscript',
                 'p2sh_multisig_2?', 'p2sh_multisig_3?')
        return 'refuses_scriptsig_it_classifies_as_%s' % (t if t in known else 'other')
    if name == 'ScriptError' and ('signatures required' in msg or 'keys expected' in msg):
        return 'refuses_multisig_shaped_script_with_inconsistent_counts'
    bad_key = [d for _, d in _datas(r) if _keylike(d) and secp.decode_pub(d) is None]
    bad_sig = [d for _, d in _datas(r) if _siglike(d) and not secp.is_strict_der(d[:-1])]
    if bad_key and name in ('BKeyError', 'ValueError', 'EncodingError', 'TypeError'):
        return 'refuses_key_shaped_data_that_is_not_a_curve_point'
    if bad_sig and name in ('ScriptError', 'BKeyError', 'ValueError', 'EncodingError', 'TypeError', 'IndexError'):
        return 'refuses_signature_shaped_data_that_is_not_der'
    return 'raises_%s_unexplained' % name


# ----------------------------------------------------------------------------------- the tx laws
def _lib_fields(T):
    vin = []
    for i in T.inputs:
        vin.append({'txid': bytes(i.prev_txid)[::-1], 'vout': i.output_n_int, 'script': bytes(i.unlocking_script),
                    'seq': i.sequence,
                    'wit': [b'' if w == b'\x00' else bytes(w) for w in (i.witnesses or [])]})
    vout = [{'value': o.value, 'script': bytes(o.lock_script)} for o in T.outputs]
    return vin, vout


def _field_classes(r, T):
    C = []
    if T.version_int != r.version or bytes(T.version) != r.version.to_bytes(4, 'big'):
        C.append('field_version')
    if T.locktime != r.locktime:
        C.append('field_locktime')
    vin, vout = _lib_fields(T)
    if len(vin) != len(r.vin) or len(vout) != len(r.vout):
        return C + ['field_counts']
    for k, (a, b) in enumerate(zip(r.vin, vin)):
        if a['txid'] != b['txid'] or a['vout'] != b['vout']:
            C.append('prev_txid_of_ascii_hex_digits_unhexlified' if _hexlike(a['txid'][::-1]) and
                     b['txid'][::-1] == _unhex(a['txid'][::-1]) else 'field_outpoint')
        if a['seq'] != b['seq']:
            C.append('field_sequence')
        if a['script'] != b['script']:
            if a['txid'] == bytes(32):
                C += _script_diff('coinbase_scriptsig', a['script'], b['script'])
            elif _p2sh_p2wsh_without_ms(r, k):
                C.append('p2sh_p2wsh_shaped_input_without_multisig_witness_script_rewritten')
            else:
                C += _script_diff('scriptsig', a['script'], b['script'])
        want = [] if r.wit is None else [b'' if w == b'\x00' else w for w in r.wit[k]]
        # (for an input without witness the attribute is the library's scratch space: not demanded)
        if want and want != b['wit']:
            ms = _ms_m_n_sigs(want)
            if _p2sh_p2wsh_without_ms(r, k):
                C.append('p2sh_p2wsh_shaped_input_without_multisig_witness_script_rewritten')
            elif want and not b['wit'] and ms and ms[1] < ms[0] and \
                    (not a['script'] or _p2sh_segwit_form(a['script'])):
                C.append('witness_stack_of_multisig_input_with_fewer_signatures_than_required_dropped')
            elif a['script'] and a['txid'] != bytes(32) and not _p2sh_segwit_form(a['script']):
                C.append('witness_stack_of_input_with_nonempty_scriptsig_dropped')
            else:
                C.append('field_witnesses')
    for a, b in zip(r.vout, vout):
        if a['value'] != b['value']:
            C.append('field_value')
        if a['script'] != b['script']:
            C += _script_diff('output_script', a['script'], b['script'])
    if bool(T.coinbase) != _is_coinbase(r):
        C.append('field_coinbase_flag')
    if (T.witness_type == 'segwit') != (r.wit is not None):
        C.append('field_witness_type')
    return list(dict.fromkeys(C))


STRICT_ENTRIES = ('parse(bytes)', 'parse(hexstr)', 'parse_hex', 'parse_bytes', 'parse_bytesio')
ENTRIES = STRICT_ENTRIES + ('parse(bytes,strict=False)',)


def _parse_entry(entry, raw):
    from bitcoinlib.transactions import Transaction
    if entry == 'parse(bytes)':
        return Transaction.parse(raw)
    if entry == 'parse(hexstr)':
        return Transaction.parse(raw.hex())
    if entry == 'parse_hex':
        return Transaction.parse_hex(raw.hex())
    if entry == 'parse_bytes':
        return Transaction.parse_bytes(raw)
    if entry == 'parse_bytesio':
        s = BytesIO(b'\xee\xee' + raw + b'\xdd\xdd\xdd\xdd\xdd')   # embedded in a longer stream, like in a block
        s.read(2)
        T = Transaction.parse_bytesio(s)
        T._vf_consumed = s.tell() - 2
        return T
    if entry == 'parse(bytes,strict=False)':
        return Transaction.parse(raw, strict=False)
    raise ValueError(entry)


def _laws_one_entry(r, raw, want_txid, entry, superfluous):
    """-> (list of (sig suffix, detail), label or None, compared)"""
    D = []
    try:
        T = _parse_entry(entry, raw)
    except Exception as e:
        if superfluous:
            return [], 'superfluous_marker_refused', False
        return [('|' + _exc_class(r, e), {'exc': repr(e)[:200]})], None, False
    try:
        back = T.raw()
    except Exception as e:
        back = None
        D.append(('.raw()|raises_%s' % type(e).__name__, {'exc': repr(e)[:200]}))
    rawC = []
    label = None
    if back is not None and back != raw:
        rawC = _diff_classes(r, back)
        if superfluous and rawC == ['superfluous_marker_removed']:
            rawC = []
            label = 'superfluous_marker_normalised'
        for c in rawC:
            D.append(('.raw()|' + c, {'got': back.hex() if len(back) <= 400 else back[:200].hex() + '...'}))
    if T.txid != want_txid:
        full, stripped, rules = _model_raw(r)
        lossy = [codec.dsha256(stripped)[::-1].hex()] if rules else []
        if back is not None:
            try:
                lossy.append(RT.txid(RT.parse(back)))
            except Exception:
                pass
        if rawC and r.wit is not None and T.txid in lossy and all('unexplained' not in c for c in rawC):
            D.append(('.txid|segwit_id_is_hash_of_the_lossy_reserialisation', {'want': want_txid, 'got': T.txid,
                                                                            'rules': rules}))
        else:
            D.append(('.txid|unexplained', {'want': want_txid, 'got': T.txid}))
    for c in _field_classes(r, T):
        if c not in rawC:
            D.append(('.fields|' + c, {}))
    if getattr(T, 'size', None) != len(raw):
        D.append(('.fields|size', {'got': getattr(T, 'size', None)}))
    if entry == 'parse_bytesio' and getattr(T, '_vf_consumed', len(raw)) != len(raw):
        D.append(('|stream_position_after_parse_differs', {'got': T._vf_consumed}))
    if not D and label is None:
        label = 'ok_segwit' if r.wit is not None else 'ok_legacy'
    return D, label, True


def check_tx(acc, sp, entries=ENTRIES):
    """All parse-side laws for one spec through every entry point.  The five strict entry points are thin
    wrappers of one parser: when they agree exactly they are reported once as 'Transaction.parse*', otherwise
    each one under its own name (which no known finding matches)."""
    r = _rtx(sp)
    raw = RT.serialize(r, force_marker=True)
    want_txid = RT.txid(r)
    superfluous = r.wit is not None and not any(r.wit)
    det0 = {'raw': raw.hex() if len(raw) <= 400 else raw[:200].hex() + '...', 'raw_len': len(raw)}
    res = {}
    for entry in entries:
        acc.n += 1
        D, label, compared = _laws_one_entry(r, raw, want_txid, entry, superfluous)
        res[entry] = D
        if compared:
            acc.compared += 1
        if label:
            acc.label(label)
    strict = [e for e in entries if e in STRICT_ENTRIES]
    same = len({tuple(x[0] for x in res[e]) for e in strict}) <= 1
    lax = 'parse(bytes,strict=False)'
    lax_same = same and lax in res and strict and \
        tuple(x[0] for x in res[lax]) == tuple(x[0] for x in res[strict[0]])
    for entry in entries:
        if entry in STRICT_ENTRIES:
            if same and entry != strict[0]:
                if res[entry]:
                    acc.out['dev'] = acc.out.get('dev', 0) + len(res[entry])
                continue
            site = 'Transaction.parse*' if same else 'Transaction.' + entry
        else:
            if lax_same:
                continue        # identical to the strict entry points: already reported under parse*
            site = 'Transaction.parse(strict=False)'
        for suffix, det in res[entry]:
            acc.dev(site + suffix, dict(det0, **det))
    return r


def check_api(acc, sp):
    """Build the spec through Transaction()/add_input()/add_output(), write it, read it back with the reference."""
    from bitcoinlib.transactions import Transaction
    r = _rtx(sp)
    if r.version == 0:
        return      # version=0 means "default version" in the constructor: cannot be requested
    forms = ['list'] + (['bytes'] if r.wit is not None and any(r.wit) else [])
    for wform in forms:
        _check_api_form(acc, sp, r, wform)


def _check_api_form(acc, sp, r, wform):
    """wform: the witness stack handed to add_input as a list of items, or as the serialized stack (item count and
    length-prefixed items) - the form the wallet database and the transaction cache hand back."""
    from bitcoinlib.transactions import Transaction
    site = 'api' if wform == 'list' else 'api(witnesses=serialized_stack)'
    acc.n += 1
    det0 = {'spec_raw': RT.serialize(r, force_marker=True).hex()[:400]}
    try:
        t = Transaction(version=r.version, locktime=r.locktime, network='bitcoin',
                        witness_type='segwit' if r.has_witness() else 'legacy')
        for k, i in enumerate(r.vin):
            kw = {}
            if r.wit is not None and r.wit[k]:
                if wform == 'list':
                    kw['witnesses'] = list(r.wit[k])
                else:
                    kw['witnesses'] = codec.cs_encode(len(r.wit[k])) + b''.join(codec.cs_encode(len(w)) + w for w in r.wit[k])
            t.add_input(prev_txid=i['txid'][::-1], output_n=i['vout'], unlocking_script=i['script'],
                        sequence=i['seq'], **kw)
        for o in r.vout:
            t.add_output(o['value'], lock_script=o['script'])
    except Exception as e:
        acc.label('%s_refused_%s' % (site, type(e).__name__))
        return
    try:
        back = t.raw()
    except Exception as e:
        acc.dev('%s.raw()|raises_%s' % (site, type(e).__name__), dict(det0, exc=repr(e)[:200]))
        return
    acc.compared += 1
    want = r
    upgraded = r.version == 1 and any(0 < i['seq'] < 0x80000000 for i in r.vin)
    if upgraded:
        want = RT.RTx(2, r.vin, r.vout, r.locktime, r.wit)
    if r.wit is not None and not r.has_witness():
        want = RT.RTx(want.version, r.vin, r.vout, r.locktime, None)
    C = [] if back == RT.serialize(want) else _diff_classes(want, back)
    for c in C:
        acc.dev('%s.raw()|%s' % (site, c), dict(det0, got=back.hex()[:400]))
    if not C:
        acc.label('%s_ok_v2_upgrade' % site if upgraded else '%s_ok' % site)


# -------------------------------------------------------------------------------------- subs (tx)
def sub_tx(case):
    """case = {'spec': spec, 'api': bool}"""
    acc = _Acc()
    check_tx(acc, case['spec'])
    if case.get('api'):
        check_api(acc, case['spec'])
    return acc.result()


def sub_big(case):
    """case = ['nout'|'nin'|'nitems'|'script', n, segwit]: large counts / lengths, one entry point each way"""
    kind, n, seg = case
    acc = _Acc()
    if kind == 'nout':
        sp = _spec([[1, 0, NEUTRAL_SS, 0xffffffff] if not seg else [1, 0, '', 0xffffffff]],
                   [[k % 7, '51'] for k in range(n)], wit=[['51']] if seg else None)
    elif kind == 'nin':
        sp = _spec([[k, k, '', 0xffffffff] if seg else [k, k, NEUTRAL_SS, 0xffffffff] for k in range(n)],
                   [[1, P2PKH.hex()]], wit=[['51']] + [[] for _ in range(n - 1)] if seg else None)
    elif kind == 'nitems':
        sp = _spec([[1, 0, '', 0xffffffff]], [[1, P2PKH.hex()]], wit=[['51'] * n])
    else:
        sp = _spec([[1, 0, '' if seg else ['push', 0x07, n], 0xffffffff]], [[1, ['f', 0x51, n]]],
                   wit=[[['f', 0x51, n]]] if seg else None)
    check_tx(acc, sp, entries=('parse(bytes)', 'parse_bytesio'))
    return acc.result()


# ------------------------------------------------------------------------------------ sub: blocks
def _header(hsel, txids):
    ver, prev, tm, bits, nonce = hsel
    return {'version': ver, 'prev': bytes.fromhex(prev), 'merkle': merkle_root(txids), 'time': tm, 'bits': bits,
            'nonce': nonce}


def sub_block(case):
    """case = {'hdr': [version, prev hex (wire), time, bits, nonce], 'txs': [spec, ...]}

    Every reader is run on the same bytes; per law (header, txids, serialize, rawtx) the readers that agree
    exactly are reported once under 'Block.*', a reader that behaves differently under its own name."""
    from bitcoinlib.blocks import Block
    acc = _Acc()
    rs = [_rtx(sp) for sp in case['txs']]
    raws = [RT.serialize(r, force_marker=True) for r in rs]
    ids = [RT.txid(r) for r in rs]
    h = _header(case['hdr'], ids)
    hdr = ser_header(h)
    raw = ser_block(h, raws)
    want_hash = block_hash(hdr)
    det0 = {'header': hdr.hex(), 'n_tx': len(rs), 'block_len': len(raw),
            'txs': [x.hex()[:300] for x in raws]}
    hdr_hexlike = any(_hexlike(x) for x in (h['version'].to_bytes(4, 'big'), h['bits'].to_bytes(4, 'big'),
                                            h['nonce'].to_bytes(4, 'big'), h['prev'][::-1], h['merkle'][::-1]))

    def header_laws(B):
        C = []
        if bytes(B.block_hash)[::-1] != codec.dsha256(hdr) or B.block_hash.hex() != want_hash:
            C.append('block_hash')
        got = {'version': B.version_int, 'prev': bytes(B.prev_block)[::-1], 'merkle': bytes(B.merkle_root)[::-1],
               'time': B.time, 'bits': B.bits_int, 'nonce': B.nonce_int}
        for k in ('version', 'prev', 'merkle', 'time', 'bits', 'nonce'):
            if got[k] != h[k]:
                wire = {'version': h['version'].to_bytes(4, 'big'), 'bits': h['bits'].to_bytes(4, 'big'),
                        'nonce': h['nonce'].to_bytes(4, 'big'), 'prev': h['prev'][::-1], 'merkle': h['merkle'][::-1]
                        }.get(k)
                if wire is not None and _hexlike(wire):
                    C.append('header_field_of_ascii_hex_digits_unhexlified')
                else:
                    C.append('header_%s' % k)
        if B.tx_count != len(rs):
            C.append('tx_count')
        if not (h['bits'] & 0x00800000):
            try:
                tg = B.target
            except Exception as e:
                tg = None
                C.append('target_raises_%s' % type(e).__name__)
            want_t = compact_target(h['bits'])
            if tg is not None and tg != want_t:
                if (h['bits'] >> 24) < 3 and got['bits'] == h['bits'] and isinstance(tg, float):
                    C.append('target_exponent_below_3_not_truncated_to_integer')
                elif _hexlike(h['bits'].to_bytes(4, 'big')):
                    C.append('header_field_of_ascii_hex_digits_unhexlified')
                else:
                    C.append('target')
        return list(dict.fromkeys(C))

    def ids_law(got_ids):
        if got_ids == ids:
            return []
        expl = len(got_ids) == len(ids) and all(
            g == w or _lossy_id_explained(r, g) for g, w, r in zip(got_ids, ids, rs))
        return ['segwit_txid_is_hash_of_the_lossy_reserialisation' if expl else 'txids_differ']

    def ser_law(B):
        try:
            back = B.serialize()
        except Exception as e:
            if hdr_hexlike and isinstance(e, ValueError) and 'incorrect length' in str(e):
                return ['header_field_of_ascii_hex_digits_unhexlified']
            return ['raises_%s' % type(e).__name__]
        if back == raw:
            return []
        C = []
        if back[:80] != hdr:
            C.append('header_field_of_ascii_hex_digits_unhexlified' if hdr_hexlike else 'header_bytes_differ')
        else:
            pos = 80 + len(codec.cs_encode(len(rs)))
            if back[80:pos] != codec.cs_encode(len(rs)):
                C.append('tx_count_prefix_differs')
            else:
                rest = back[pos:]
                for r, w in zip(rs, raws):
                    if rest.startswith(w):
                        rest = rest[len(w):]
                        continue
                    cut = _cut_tx(rest)
                    if cut is None:
                        C.append('transaction_bytes_unexplained')
                        break
                    C += ['tx:' + c for c in _diff_classes(r, rest[:cut])]
                    rest = rest[cut:]
                else:
                    if rest:
                        C.append('trailing_bytes')
        return list(dict.fromkeys(C)) or ['bytes_differ_unexplained']

    def refusal(e):
        cls = None
        for r in rs:
            cls = cls or _tx_parse_refused_class(r, e)
        return [cls or 'raises_%s_unexplained' % type(e).__name__]

    # ---- the readers: each returns {law: [classes]}
    def reader_parse_time(f):
        def run():
            B = f()
            return {'header': header_laws(B), 'txids': ids_law([t.txid for t in B.transactions]),
                    'serialize': ser_law(B)}
        return run

    def reader_parse_transactions():
        B = Block.parse_bytes(raw)
        res = {'header': header_laws(B)}
        if B.transactions:
            res['header'].append('transactions_present_without_parse_transactions')
        B.parse_transactions()
        res['txids'] = ids_law([t.txid for t in B.transactions])
        res['serialize'] = ser_law(B)
        return res

    def reader_one_by_one():
        B = Block.parse_bytes(raw)
        got = []
        while True:
            t = B.parse_transaction()
            if t is False or len(got) > len(rs) + 1:
                break
            got.append(t.txid)
        return {'txids': ids_law(got), 'serialize': ser_law(B)}

    def reader_dict():
        B = Block.parse_bytes(raw)
        ds = B.parse_transactions_dict()
        res = {'txids': ids_law([d['txid'].hex() if isinstance(d['txid'], bytes) else d['txid'] for d in ds]),
               'rawtx': [] if [bytes(d['rawtx']) for d in ds] == raws else ['differs']}
        # the object readers still work afterwards (the stream is restored)
        B.parse_transactions()
        res['txids_after_dict'] = ids_law([t.txid for t in B.transactions])
        return res

    def reader_limit1():
        B = Block.parse_bytes(raw, parse_transactions=True, limit=1)
        res = {'txids': ids_law([t.txid for t in B.transactions] + ids[1:])}
        if B.tx_count != len(rs):
            res['txids'].append('tx_count')
        return res

    readers = [
        ('parse_bytes(parse_transactions=True)', reader_parse_time(lambda: Block.parse_bytes(raw, parse_transactions=True))),
        ('parse(bytes,parse_transactions=True)', reader_parse_time(lambda: Block.parse(raw, parse_transactions=True))),
        ('parse_bytesio(parse_transactions=True)',
         reader_parse_time(lambda: Block.parse_bytesio(BytesIO(raw), parse_transactions=True))),
        ('parse_bytes+parse_transactions()', reader_parse_transactions),
        ('parse_bytes+parse_transaction()', reader_one_by_one),
        ('parse_bytes+parse_transactions_dict()', reader_dict),
    ]
    if len(rs) > 1:
        readers.append(('parse_bytes(parse_transactions=True,limit=1)', reader_limit1))
    results = {}
    for name, f in readers:
        acc.n += 1
        try:
            results[name] = f()
            acc.compared += 1
        except Exception as e:
            results[name] = {'refused': refusal(e)}
            det0.setdefault('exc', {})[name] = repr(e)[:200]
        if not any(results[name].values()):
            acc.label('ok_' + name.split('(')[0].split('+')[-1])
    laws = []
    for res in results.values():
        for law in res:
            if law not in laws:
                laws.append(law)
    family = {'parse_bytes+parse_transactions_dict()': 'dict_reader',
              'parse_bytes(parse_transactions=True,limit=1)': 'limit_1'}
    for law in laws:
        for fam in ('object_readers', 'dict_reader', 'limit_1'):
            per = {name: tuple(res[law]) for name, res in results.items()
                   if law in res and family.get(name, 'object_readers') == fam}
            if not per:
                continue
            same = len(set(per.values())) <= 1
            done = False
            for name, classes in per.items():
                if same and done:
                    continue
                done = True
                for c in classes:
                    acc.dev('Block.%s.%s|%s' % (fam if same else name, law, c), dict(det0, readers=list(per)))
    return acc.result()


def _cut_tx(stream):
    """length of the first reference-parseable transaction at the start of stream (tries the natural lengths)"""
    r = RT._R(stream)
    try:
        ver = r.u(4)
        n_in = r.cs()
        seg = False
        if n_in == 0:
            if r.u(1) != 1:
                return None
            seg = True
            n_in = r.cs()
        for _ in range(n_in):
            r.take(36)
            r.take(r.cs())
            r.take(4)
        for _ in range(r.cs()):
            r.take(8)
            r.take(r.cs())
        if seg:
            for _ in range(n_in):
                for _ in range(r.cs()):
                    r.take(r.cs())
        r.take(4)
        return r.p
    except Exception:
        return None


def _lossy_id_explained(r, got_id):
    """got_id is the id of r after the known lossy rewrites of non-witness parts (00 output script, unhexlify)"""
    if r.wit is None:
        return False
    full, stripped, rules = _model_raw(r)
    return bool(rules) and codec.dsha256(stripped)[::-1].hex() == got_id


def _tx_parse_refused_class(r, e=None):
    """class of refusal the non-strict block readers can hit for this transaction (None if none is predicted)"""
    if e is None:
        e = Exception()
    c = _exc_class(r, e)
    return None if c.endswith('unexplained') else 'tx:' + c


def sub_hist(case):
    from vf import txhist
    return txhist.sub_hist(case, txhist.check_ids_and_bytes)


# ------------------------------------------------------------ sub: reader histories on ONE Block object
# A Block keeps the unread transaction bytes in a stream and a list of the Transaction objects read so far; both
# readers (object reader parse_transaction / parse_transactions(limit), dictionary reader parse_transactions_dict /
# parse_transaction_dict) and the parse-time options (parse_transactions=True, limit=k) move or must restore the
# position in that stream.  What a call returns therefore depends on the calls made before it on the same
# object.  All call sequences up to a depth are executed on fresh objects and every call is judged against a
# model that is written from the protocol layout only: the block is the list t0..t(n-1); the model state is
# (cursor = index of the next transaction in the stream, held = indices of the Transaction objects in the block).
BH_TXSETS = {
    'n1': ['coinbase_legacy'],
    'n2': ['coinbase_legacy', 'p2wpkh'],
    'n3': ['coinbase_legacy', 'p2wpkh', 'p2pkh'],
    'n4': ['coinbase_legacy', 'p2pkh', 'p2pkh_uncompressed', 'p2pk'],
    'n6': ['coinbase_legacy', 'p2sh_p2wpkh', 'p2pkh', 'p2wsh_multisig', 'p2tr_keypath', 'p2wpkh_two_inputs'],
    'n253': None,        # transaction count with a 3-byte CompactSize prefix (minimal transactions)
}
BH_OPS = ('one', 'all', 'lim1', 'lim2', 'dict', 'dict1', 'ser')
BH_OPNAME = {'init': 'parse', 'one': 'parse_transaction()', 'all': 'parse_transactions()',
             'lim1': 'parse_transactions(limit=1)', 'lim2': 'parse_transactions(limit=2)',
             'dict': 'parse_transactions_dict()', 'dict1': 'parse_transaction_dict()', 'ser': 'serialize()',
             'drain': 'finally_parse_transactions()+serialize()'}
BH_ENTRIES = ('parse_bytes', 'parse(bytes)', 'parse_bytesio')
_BH_CACHE = {}


def _bh_block(name, seed):
    key = (name, seed)
    if key not in _BH_CACHE:
        if BH_TXSETS[name] is None:
            sps = [_spec_std('coinbase_legacy', 0)]
            for k in range(1, 253):
                if k % 2:
                    sps.append(_spec([[k, k, '', 0xffffffff - k]], [[k, '51']], wit=[['51', '%04x' % k]], version=2))
                else:
                    sps.append(_spec([[k, k, '51', 0xffffffff - k]], [[k, '51'], [k + 1, '6a']], locktime=k))
        else:
            sps = [_spec_std(k, 0) for k in BH_TXSETS[name]]
            for idx, sp in enumerate(sps):      # distinct outpoints and values: every id names one position
                for j, i in enumerate(sp['vin']):
                    if i[0] != '00' * 32:
                        i[0] = 100 + 4 * idx + j
                sp['vout'][0][0] += idx
        rs = [_rtx(sp) for sp in sps]
        raws = [RT.serialize(r, force_marker=True) for r in rs]
        ids = [RT.txid(r) for r in rs]
        assert len(set(ids)) == len(ids) and len(set(raws)) == len(raws)
        h = _header([0x20000000, _seedbytes(seed, 'bhprev', 32).hex(), 1600000000, 0x170b3ce9, 12345], ids)
        _BH_CACHE[key] = (h, ser_header(h), raws, ids, ser_block(h, raws))
    return _BH_CACHE[key]


def _bh_construct(entry, pt, limit, raw):
    from bitcoinlib.blocks import Block
    kw = {}
    if pt is not None:
        kw['parse_transactions'] = pt
    if limit is not None:
        kw['limit'] = limit
    if entry == 'parse_bytes':
        return Block.parse_bytes(raw, **kw)
    if entry == 'parse(bytes)':
        return Block.parse(raw, **kw)
    if entry == 'parse_bytesio':
        return Block.parse_bytesio(BytesIO(raw), **kw)
    raise ValueError(entry)


def _bh_index_class(got, want):
    """got / want: lists of block positions (None = not a transaction of the block).  Names how got differs."""
    if got == want:
        return None
    if any(g is None for g in got):
        return 'contains_something_that_is_no_transaction_of_the_block'
    if len(set(got)) < len(got):
        return 'transaction_read_again'
    if got == want[:len(got)]:
        return 'transactions_missing_at_the_end'
    if want == got[:len(want)]:
        return 'more_transactions_than_expected'
    if all(a < b for a, b in zip(got, got[1:])):
        return 'transactions_skipped'
    return 'order_differs'


def _bh_one_class(got, want):
    """a single returned transaction: position got where position want was expected"""
    if got == want:
        return None
    if got is None:
        return 'returns_something_that_is_no_transaction_of_the_block'
    return 'returns_transaction_read_before' if got < want else 'returns_later_transaction_skipping_one'


class _BHModel:
    def __init__(self, n, held):
        self.n = n
        self.c = held
        self.L = list(range(held))

    def complete(self):
        return len(self.L) >= self.n

    def step(self, op):
        """-> ('undefined',) when the call would read past the end of the block (nothing is demanded then), else
        the expected answer: ('tx', i) | ('false',) | ('none',) | ('dicts', [i..]) | ('dict', i) | ('bytes',) |
        ('refused',)"""
        n = self.n
        if op == 'one':
            if self.complete():
                return ('false',)
            if self.c >= n:
                return ('undefined',)
            self.L.append(self.c)
            self.c += 1
            return ('tx', self.c - 1)
        if op in ('all', 'lim1', 'lim2'):
            lim = {'all': 0, 'lim1': 1, 'lim2': 2}[op]
            need = n - len(self.L)
            if lim:
                need = min(need, lim)
            if self.c + need > n:
                return ('undefined',)
            self.L += list(range(self.c, self.c + need))
            self.c += need
            return ('none',)
        if op == 'dict':
            return ('dicts', [] if self.complete() else list(range(self.c, n)))
        if op == 'dict1':
            if self.complete() or self.c >= n:
                return ('false',)
            self.c += 1
            return ('dict', self.c - 1)
        if op == 'ser':
            return ('bytes',) if self.complete() else ('refused',)
        raise ValueError(op)


def _bh_call(B, op):
    if op == 'one':
        return B.parse_transaction()
    if op == 'all':
        return B.parse_transactions()
    if op == 'lim1':
        return B.parse_transactions(limit=1)
    if op == 'lim2':
        return B.parse_transactions(2)
    if op == 'dict':
        return B.parse_transactions_dict()
    if op == 'dict1':
        return B.parse_transaction_dict()
    if op == 'ser':
        return B.serialize()
    raise ValueError(op)


def _bh_serialized_class(back, blk):
    h, hdr, raws, ids, raw = blk
    if back == raw:
        return None
    if not isinstance(back, (bytes, bytearray)):
        return 'returns_no_bytes'
    if back[:80] != hdr:
        return 'header_bytes_differ'
    for n in range(len(raws) * 2 + 2):
        pre = codec.cs_encode(n)
        if back[80:80 + len(pre)] != pre:
            continue
        rest = back[80 + len(pre):]
        got = []
        while rest and len(got) <= n:
            cut = _cut_tx(rest)
            if cut is None:
                break
            got.append(raws.index(rest[:cut]) if rest[:cut] in raws else None)
            rest = rest[cut:]
        if rest or len(got) != n:
            continue
        return _bh_index_class(got, list(range(len(raws)))) or 'count_prefix_differs'
    return 'bytes_differ_unexplained'


def _bh_judge(B, op, exp, ret, exc, model, blk, D):
    """Compare one executed call (its answer and the state of the object afterwards) with the model.
    D collects (law, class, detail)."""
    h, hdr, raws, ids, raw = blk

    def pos(txid):
        return ids.index(txid) if txid in ids else None
    kind = exp[0]
    if exc is not None:
        if not (kind == 'refused' and isinstance(exc, ValueError)):
            D.append(('returned', 'raises_%s' % type(exc).__name__, {'exc': repr(exc)[:200]}))
    elif kind == 'refused':
        c = _bh_serialized_class(ret, blk)
        D.append(('returned', 'partially_read_block_serialized_' + ('as_the_whole_block' if c is None else c), {}))
    elif kind == 'false':
        if ret is not False:
            D.append(('returned', 'answers_although_every_transaction_is_held', {'got': repr(ret)[:100]}))
    elif kind == 'none':
        pass
    elif kind == 'tx':
        got = pos(getattr(ret, 'txid', None))
        c = _bh_one_class(got, exp[1])
        if c:
            D.append(('returned', c, {'want_index': exp[1], 'got_index': got}))
    elif kind == 'dict':
        if not isinstance(ret, dict):
            D.append(('returned', 'no_dictionary_although_transactions_remain', {'got': repr(ret)[:100]}))
        else:
            got = pos(ret['txid'].hex() if isinstance(ret['txid'], bytes) else ret['txid'])
            c = _bh_one_class(got, exp[1])
            if c is None and bytes(ret['rawtx']) != raws[exp[1]]:
                c = 'rawtx_differs'
            if c:
                D.append(('returned', c, {'want_index': exp[1], 'got_index': got}))
    elif kind == 'dicts':
        if not isinstance(ret, list):
            D.append(('returned', 'no_list', {'got': repr(ret)[:100]}))
        else:
            got = [pos(d['txid'].hex() if isinstance(d['txid'], bytes) else d['txid']) for d in ret]
            c = _bh_index_class(got, exp[1])
            if c is None and [bytes(d['rawtx']) for d in ret] != [raws[i] for i in exp[1]]:
                c = 'rawtx_differs'
            if c:
                D.append(('returned', c, {'want_index': exp[1], 'got_index': got[:12]}))
    elif kind == 'bytes':
        c = _bh_serialized_class(ret, blk)
        if c:
            D.append(('returned', c, {'got_len': len(ret) if hasattr(ret, '__len__') else None}))
    # ---- the object after the call
    got = [pos(t.txid) for t in B.transactions]
    c = _bh_index_class(got, model.L)
    if c:
        D.append(('transactions', c, {'want_index': model.L[:12], 'got_index': got[:12]}))
    hd = (B.block_hash.hex(), B.version_int, bytes(B.prev_block)[::-1], bytes(B.merkle_root)[::-1], B.time,
          B.bits_int, B.nonce_int, B.tx_count)
    if hd != (block_hash(hdr), h['version'], h['prev'], h['merkle'], h['time'], h['bits'], h['nonce'], len(raws)):
        D.append(('header', 'header_field_hash_or_tx_count_differs', {}))


def sub_blockhist(case):
    """case = {'block': name, 'seed': int, 'init': [entry, parse_transactions|None, limit|None], 'first': op,
               'depth': d}: every call sequence of exactly d operations starting with `first` is executed on a
    fresh Block object; each call is judged (once per distinct prefix); after the last call the object reader is
    run to the end and the block is serialised (this shows a stream position that an earlier call left wrong)."""
    import itertools
    acc = _Acc()
    blk = _bh_block(case['block'], case['seed'])
    h, hdr, raws, ids, raw = blk
    n = len(raws)
    entry, pt, limit = case['init']
    held0 = 0 if not pt else (n if not limit else min(limit, n))
    det0 = {'block': case['block'], 'n_tx': n, 'init': case['init']}
    judged = set()
    diverged = set()

    def report(op, D, hist):
        for law, c, det in D:
            acc.dev('Block.history.%s.%s|%s' % (BH_OPNAME[op], law, c), dict(det0, history=hist, **det))

    for tail in itertools.product(BH_OPS, repeat=case['depth'] - 1):
        seq = (case['first'],) + tail
        model = _BHModel(n, held0)
        try:
            B = _bh_construct(entry, pt, limit, raw)
        except Exception as e:
            if 'init' not in judged:
                judged.add('init')
                acc.n += 1
                report('init', [('returned', 'raises_%s' % type(e).__name__, {'exc': repr(e)[:200]})], [])
            break
        if 'init' not in judged:
            judged.add('init')
            acc.n += 1
            acc.compared += 1
            D = []
            _bh_judge(B, 'init', ('none',), None, None, model, blk, D)
            report('init', D, [])
        alive = True
        for k, op in enumerate(seq):
            exp = model.step(op)
            key = ','.join(seq[:k + 1])
            if exp[0] == 'undefined':
                if key not in judged:
                    judged.add(key)
                    acc.label('reads_past_the_end_not_demanded')
                alive = False
                break
            ret = exc = None
            try:
                ret = _bh_call(B, op)
            except Exception as e:
                exc = e
            if key not in judged:
                judged.add(key)
                acc.n += 1
                acc.compared += 1
                D = []
                _bh_judge(B, op, exp, ret, exc, model, blk, D)
                report(op, D, list(seq[:k + 1]))
                acc.label('answer_' + exp[0])
                if D:
                    diverged.add(key)
            if key in diverged or (exc is not None and exp[0] != 'refused'):
                alive = False       # object and model differ from here on: only the first difference is reported
                break
        if not alive:
            continue
        # ---- epilogue: read the rest with the object reader, then the block must serialise to the input
        exp = model.step('all')
        if exp[0] == 'undefined':
            acc.label('final_state_cursor_ahead_of_held_transactions')
            continue
        acc.n += 1
        D = []
        try:
            B.parse_transactions()
            _bh_judge(B, 'drain', ('none',), None, None, model, blk, D)
            if not D:
                back = B.serialize()
                c = _bh_serialized_class(back, blk)
                if c:
                    D.append(('serialize', c, {}))
        except Exception as e:
            D.append(('returned', 'raises_%s' % type(e).__name__, {'exc': repr(e)[:200]}))
        report('drain', D, list(seq))
        acc.label('final_block_complete_and_byte_identical' if not D else 'final_block_differs')
    res = acc.result()
    res['nt'] = ['%s|%s|%s' % (case['block'], case['init'], k) for k in sorted(judged)]
    return res


def _blockhist_cases(seed, quick):
    """(block, initial parse, first operation, depth): the product is complete per block."""
    C = []

    def inits(n, entries_full):
        out = []
        for e in BH_ENTRIES:
            ks = [[None, None], [False, 1], [True, None], [True, 0]] + [[True, k] for k in (1, 2, n - 1, n, n + 1)
                                                                       if 1 <= k]
            if e not in entries_full:
                ks = [[None, None], [True, 1]]
            seen = []
            for pt, lim in ks:
                if [pt, lim] not in seen:
                    seen.append([pt, lim])
                    out.append([e, pt, lim])
        return out
    plan = [('n1', 2, 2), ('n2', 3, 3), ('n3', 3, 4), ('n4', 3, 4), ('n6', 3, 4), ('n253', 1, 2)]
    for name, dq, dt in plan:
        n = 253 if BH_TXSETS[name] is None else len(BH_TXSETS[name])
        if quick and name in ('n2', 'n4'):
            continue
        full = BH_ENTRIES if not quick else ('parse_bytes',)
        ini = inits(n, full)
        if name == 'n253':
            ini = [i for i in ini if i[0] == 'parse_bytes' and i[1:] in ([None, None], [True, 1], [True, 2], [True, 252])]
        for i in ini:
            for op in BH_OPS:
                C.append({'block': name, 'seed': seed % 1000, 'init': i, 'first': op, 'depth': dq if quick else dt})
    return C


SUBS = {'tx': sub_tx, 'big': sub_big, 'block': sub_block, 'hist': sub_hist, 'blockhist': sub_blockhist}


# ------------------------------------------------------------------------------------- enumeration
NEUTRAL_SS = (codec.push(SIG_A) + codec.push(P1)).hex()   # scriptSig of a P2PKH spend
NEUTRAL_IN = [1, 0, NEUTRAL_SS, 0xffffffff]
NEUTRAL_OUT = [1000, P2PKH.hex()]


def _fills(n):
    """content alphabet for a script / item of length n (descriptors)"""
    F = [['f', 0x00, n], ['f', 0x51, n], ['f', 0x61, n], ['f', 0xff, n], ['ax', n]]
    if n >= 2:
        F.append(['push', 0x07, n])
    if n >= 1:
        for first in (0x02, 0x04, 0x30):     # key / signature looking first byte, neutral rest
            F.append((bytes([first]) + b'\x51' * (n - 1)).hex() if n <= 600 else None)
    return [f for f in F if f is not None]


def _seedbytes(seed, tag, n):
    out = b''
    c = 0
    while len(out) < n:
        out += hashlib.sha256(('C06|%d|%s|%d' % (seed, tag, c)).encode()).digest()
        c += 1
    return out[:n]


def _seed_specs(seed, count):
    out = []
    for k in range(count):
        n = 1 + _seedbytes(seed, 'len%d' % k, 2)[0] % 120
        d = _seedbytes(seed, 'fill%d' % k, n)
        ps = codec.push(d)
        lock = (ps + b'\x75\x51').hex()          # <data> OP_DROP OP_1
        out.append(_spec([[k, k, '', 0xffffffff - k]], [[k, lock]], wit=[[d.hex(), ps.hex()]], version=2, locktime=k))
        out.append(_spec([[k, k, NEUTRAL_SS, 0xffffffff - k]], [[k, lock]], version=1, locktime=k))
    return out


def _tx_cases(seed, quick):
    C = []

    def add(sp, api=True):
        C.append({'spec': sp, 'api': api})
    # --- A. every one-byte value at each position
    for b in range(256):
        hx = '%02x' % b
        add(_spec([NEUTRAL_IN], [[1000, hx]]))
        add(_spec([[1, 0, hx, 0xffffffff]], [NEUTRAL_OUT]))
        add(_spec([[1, 0, '', 0xffffffff]], [NEUTRAL_OUT], wit=[[hx]]))
    # two-byte scripts / items over the interesting bytes
    two = [0x00, 0x01, 0x20, 0x30, 0x4c, 0x51, 0x61, 0x6a, 0xff]
    for a in two:
        for b in two:
            hx = '%02x%02x' % (a, b)
            add(_spec([NEUTRAL_IN], [[1000, hx]]), api=False)
            add(_spec([[1, 0, hx, 0xffffffff]], [NEUTRAL_OUT]), api=False)
            add(_spec([[1, 0, '', 0xffffffff]], [NEUTRAL_OUT], wit=[[hx]]), api=False)
    # --- B. lengths x fills at each position
    lens = [0, 1, 2, 3, 20, 32, 33, 63, 64, 65, 66, 69, 71, 72, 74, 75, 76, 77, 252, 253, 255, 256, 520]
    if not quick:
        lens += [4, 16, 34, 68, 70, 73, 78, 254, 257, 519, 521, 1000, 10000]
    for n in lens:
        for f in (_fills(n) if n else ['']):
            add(_spec([NEUTRAL_IN], [[1000, f]]))
            add(_spec([[1, 0, f, 0xffffffff]], [NEUTRAL_OUT]))
            add(_spec([[1, 0, '', 0xffffffff]], [NEUTRAL_OUT], wit=[[f]]))
            add(_spec([[1, 0, f, 0xffffffff]], [[1000, f]], wit=[[f, f]]), api=False)
    # --- C. key / signature looking contents (valid and invalid), alone and pushed
    x_bad = None
    for x in range(1, 50):
        if secp.lift_x(x, 0) is None:
            x_bad = x
            break
    keys = {'key33_valid': P1, 'key33_invalid_x': b'\x02' + x_bad.to_bytes(32, 'big'), 'key65_valid': P1U,
            'key65_invalid': b'\x04' + b'\x51' * 64, 'data64': b'\x11' * 64,
            'sig71_valid': SIG_A if len(SIG_A) == 71 else SIG_B, 'sig_valid_b': SIG_B,
            'sig72_notder': b'\x30' + b'\x51' * 71, 'sig70_truncated_der': b'\x30\x44\x02\x20' + b'\x11' * 66}
    for name, d in keys.items():
        for form in ('bare', 'pushed', 'pushed_checksig'):
            s = d if form == 'bare' else codec.push(d) + (b'\xac' if form == 'pushed_checksig' else b'')
            add(_spec([NEUTRAL_IN], [[1000, s.hex()]]))
            add(_spec([[1, 0, s.hex(), 0xffffffff]], [NEUTRAL_OUT]))
            add(_spec([[1, 0, '', 0xffffffff]], [NEUTRAL_OUT], wit=[[s.hex()]]))
    # multisig-shaped scripts with inconsistent counts
    for m, ks, n in ((2, [P1], 1), (1, [P1, P2], 3), (3, [P1, P2], 2), (0, [P1], 1), (1, [P1], 1), (2, [P1, P2, P3], 3)):
        s = bytes([0x50 + m if m else 0]) + b''.join(codec.push(k) for k in ks) + bytes([0x50 + n]) + b'\xae'
        add(_spec([NEUTRAL_IN], [[1000, s.hex()]]))
        add(_spec([[1, 0, (b'\x00' + codec.push(SIG_A) + codec.push(s)).hex(), 0xffffffff]], [NEUTRAL_OUT]))
        add(_spec([[1, 0, '', 0xffffffff]], [NEUTRAL_OUT], wit=[['', SIG_A.hex(), s.hex()]]))
    # --- D. standard spends
    for k in STD_KINDS:
        for v in (0, 1, 2):
            add(_spec_std(k, v))
        for v in sorted(SIG_SIZES):
            add(_spec_std(k, v))
    # --- E. counts
    small = [1, 2, 3]
    edge = [252, 253]
    for nin in small + edge:
        for nout in small + edge:
            if nin in edge and nout in edge and quick and nin != nout:
                continue
            for seg in (0, 1):
                vin = [[k, k, '' if seg else NEUTRAL_SS, 0xffffffff] for k in range(nin)]
                wit = [['51', '0102'] if k % 2 == 0 else [] for k in range(nin)] if seg else None
                add(_spec(vin, [[k, '51' if k % 2 else P2PKH.hex()] for k in range(nout)], wit=wit),
                    api=(nin <= 3 and nout <= 3))
    for nitems in (0, 1, 2, 3, 252, 253):
        add(_spec([[1, 0, '', 0xffffffff], [2, 0, '', 0xffffffff]], [NEUTRAL_OUT],
                  wit=[['51'] * nitems, ['52']]), api=nitems <= 3)
    # --- F. field alphabets
    versions = [0, 1, 2, 3, 0x7fffffff, 0x80000000, 0xffffffff, 0x30303030, 0x61626364]
    locktimes = [0, 1, 499999999, 500000000, 0x7fffffff, 0xfffffffe, 0xffffffff, 0x20202020]
    seqs = [0, 1, 0xffff, 0x400000, 0x7fffffff, 0x80000000, 0xfffffffd, 0xfffffffe, 0xffffffff]
    values = [0, 1, 546, 2100000000000000, 0x7fffffffffffffff, 0x3030303030303030]
    for v in versions:
        for lt in locktimes:
            for seg in (0, 1):
                add(_spec([[1, 0, '' if seg else NEUTRAL_SS, 0xfffffffe]], [NEUTRAL_OUT], wit=[['51']] if seg else None,
                          version=v, locktime=lt))
    for q in seqs:
        for v in (1, 2):
            for seg in (0, 1):
                add(_spec([[1, 0, '' if seg else NEUTRAL_SS, q], [2, 1, '' if seg else NEUTRAL_SS, 0xffffffff]], [NEUTRAL_OUT],
                          wit=[['51'], []] if seg else None, version=v))
    for val in values:
        add(_spec([NEUTRAL_IN], [[val, P2PKH.hex()], [0, '6a']]))
    txids = ['00' * 31 + '01', '01' + '00' * 31, 'ff' * 32, bytes(range(32)).hex(), _seedbytes(seed, 't', 32).hex(),
             (b'0123456789abcdef' * 2).hex(), '20' * 32]
    for t in txids:
        for n in (0, 1, 0xfffffffe, 0xffffffff):
            for seg in (0, 1):
                add(_spec([[t, n, '' if seg else NEUTRAL_SS, 0xffffffff]], [NEUTRAL_OUT], wit=[['51']] if seg else None))
    # coinbase forms
    for scr in ('', '00', '51', '03a0bb0d', ['f', 0x61, 100], ['f', 0x00, 2], '04ffff001d0104'):
        for seg in (0, 1):
            add(_spec([['00' * 32, 0xffffffff, scr, 0xffffffff]], [[5000000000, P2PKH.hex()]],
                      wit=[['00' * 32]] if seg else None))
    add(_spec([['00' * 32, 0xffffffff, '51', 0xffffffff], [1, 0, NEUTRAL_SS, 0xffffffff]], [NEUTRAL_OUT]), api=False)
    add(_spec([['00' * 32, 0, NEUTRAL_SS, 0xffffffff]], [NEUTRAL_OUT]), api=False)
    # --- G. witness stack shapes
    stacks = [[], [''], ['00'], ['01'], ['', '51'], ['51', ''], ['', ''], ['00', '00'], ['', '00', '51'], ['0000'],
              ['80'], ['6a'], [['f', 0x00, 32]], [['f', 0x51, 75]], [['f', 0x51, 76]], [['f', 0x51, 252]],
              [['f', 0x51, 253]], [['f', 0x51, 520]], [['ax', 32]], [['ax', 64]], ['20'], ['2020']]
    for a in stacks:
        add(_spec([[1, 0, '', 0xffffffff]], [NEUTRAL_OUT], wit=[a]))
        for b in ([], ['51'], ['']):
            add(_spec([[1, 0, '', 0xffffffff], [2, 1, '', 0xffffffff]], [NEUTRAL_OUT], wit=[a, b]), api=False)
            add(_spec([[1, 0, '', 0xffffffff], [2, 1, '', 0xffffffff]], [NEUTRAL_OUT], wit=[b, a]), api=False)
    # non-empty scriptSig together with a witness stack
    for ss in (NEUTRAL_SS, '51', codec.push(b'\x00\x14' + H1).hex(), codec.push(b'\x00\x20' + b'\x11' * 32).hex(),
               (codec.push(SIG_A) + codec.push(P1)).hex(), '00'):
        for a in (['51'], [SIG_A.hex(), P1.hex()], ['', '51']):
            # (not through the API: a caller who passes both an unlocking script and a witness stack that do
            #  not belong together asks for no particular transaction)
            add(_spec([[1, 0, ss, 0xffffffff]], [NEUTRAL_OUT], wit=[a]), api=False)
    # --- H. seed-positioned filler: items of seed-derived bytes at seed-derived lengths (pushed inside an output
    # script, raw and pushed inside a witness stack)
    for sp in _seed_specs(seed, 8 if quick else 64):
        add(sp)
    return C


def _block_cases(seed, quick):
    prevs = ['00' * 32, _seedbytes(seed, 'prev', 32).hex()]
    txsets = [
        [_spec_std('coinbase_legacy', 0)],
        [_spec_std('coinbase_segwit', 0), _spec_std('p2wpkh', 0)],
        [_spec_std('coinbase_legacy', 0), _spec_std('p2pkh', 0), _spec_std('p2sh_p2wpkh', 0)],
        [_spec_std('coinbase_segwit', 0), _spec_std('p2wsh_multisig', 0), _spec_std('p2tr_keypath', 0)],
        [_spec_std('coinbase_legacy', 0), _spec([NEUTRAL_IN], [[1000, '']])],
        [_spec_std('coinbase_legacy', 0), _spec([NEUTRAL_IN], [[1000, '00']])],
        [_spec_std('coinbase_segwit', 0), _spec([[1, 0, '', 0xffffffff]], [[1000, '00']], wit=[['51']])],
        [_spec_std('coinbase_segwit', 0), _spec([[1, 0, '', 0xffffffff]], [NEUTRAL_OUT], wit=[['00']])],
        [_spec_std('coinbase_segwit', 0), _spec([[1, 0, '', 0xffffffff]], [NEUTRAL_OUT], wit=[['', '51']])],
        [_spec_std('coinbase_segwit', 0), _spec([[1, 0, '', 0xffffffff]], [NEUTRAL_OUT], wit=[['01']])],
        [_spec_std('coinbase_legacy', 0), _spec([NEUTRAL_IN], [[1000, '01']])],
        [_spec_std('coinbase_legacy', 0), _spec([NEUTRAL_IN], [[1000, ['f', 0x61, 64]]])],
        [_spec_std('coinbase_legacy', 0), _spec([NEUTRAL_IN], [[1000, ['f', 0x61, 20]]])],
        [_spec_std('coinbase_segwit', 0), _spec([[1, 0, '', 0xffffffff]], [[1000, ['f', 0x61, 20]]], wit=[['51']])],
        [_spec_std('coinbase_legacy', 0), _spec([[k, k, NEUTRAL_SS, 0xffffffff] for k in range(253)],
                                               [[k, '51'] for k in range(253)])],
        [_spec_std('coinbase_legacy', 0), _spec_std('p2pkh', 1), _spec_std('mixed_legacy_and_segwit_inputs', 0)],
    ]
    versions = [1, 2, 4, 0x20000000, 0x3fffe000, 0x7fffffff, 0xffffffff, 0x30303030]
    bitss = [0x1d00ffff, 0x207fffff, 0x1b0404cb, 0x170b3ce9, 0x03123456, 0x02123456, 0x01123456, 0x00123456,
             0x02008000, 0x01003456, 0x04123456, 0x21010000, 0x22000100, 0xff000001, 0x04923456, 0x30303030]
    nonces = [0, 1, 2083236893, 0xffffffff, 0x30313233, 0x61626364, 0x20202020]
    times = [0, 1231006505, 0x7fffffff, 0xffffffff, 0x31323334]
    C = []
    # every tx set with the plain header and every header value with the first tx sets
    base = [1, prevs[1], 1231006505, 0x1d00ffff, 2083236893]
    for ts in txsets:
        C.append({'hdr': base, 'txs': ts})
        C.append({'hdr': [0x20000000, prevs[0], 1600000000, 0x170b3ce9, 0x61626364], 'txs': ts})
    for field, alphabet in ((0, versions), (3, bitss), (4, nonces), (2, times)):
        for val in alphabet:
            for ts in txsets[:2] if quick else txsets[:4]:
                hsel = list(base)
                hsel[field] = val
                C.append({'hdr': hsel, 'txs': ts})
    if not quick:
        for v in versions:
            for b in bitss:
                for n in nonces:
                    C.append({'hdr': [v, prevs[1], 1231006505, b, n], 'txs': txsets[1]})
    return C


def run(ctx):
    q = ctx.quick
    only = getattr(ctx, 'only', None)

    def want(name):
        return not only or name in only
    if want('tx'):
        cases = _tx_cases(ctx.seed, q)
        ctx.pmap('tx', cases)
        ctx.note('tx_specs', len(cases))
    if want('big'):
        # (the library's witness loop is quadratic in the number of items of one stack: 8000 items take ~13 s,
        #  so the 0xffff item-count boundary is outside the stated space; 252/253 are covered in 'tx')
        big = [['script', 65535, 0], ['script', 65535, 1], ['script', 65536, 0], ['script', 65536, 1],
               ['nitems', 2000, 1]]
        if not q:
            big += [['nout', 65535, 0], ['nout', 65536, 0], ['nout', 65536, 1], ['nin', 65535, 0], ['nin', 65536, 1],
                    ['nitems', 8000, 1], ['script', 100000, 0], ['script', 100000, 1]]
        ctx.pmap('big', big, chunk=1)
    if want('block'):
        cases = _block_cases(ctx.seed, q)
        ctx.pmap('block', cases)
        ctx.note('blocks', len(cases))
    if want('hist'):
        # operation histories on one live Transaction object: after every operation that updates the object
        # (sign_and_update, set_locktime_*, bumpfee) the reported id must be the hash of the stripped
        # serialization, and in every reached state the object's own bytes must parse back to the same bytes/id
        from vf import txhist
        hcfgs = [({'kinds': k, 'seed': ctx.seed % 1000, 'events': txhist.EVENTS}, 3 if q else 4) for k in txhist.CONFIGS]
        ctx.note('history_states', ctx.bfs_multi('hist', hcfgs, max_states=4000 if q else 60000))
    if want('blockhist'):
        # call histories on one live Block object over both transaction readers and the parse-time options
        cases = _blockhist_cases(ctx.seed, q)
        ctx.pmap('blockhist', cases, chunk=1)
        ctx.note('block_histories', {
            'operations': [BH_OPNAME[o] for o in BH_OPS],
            'blocks_depth': sorted({(c['block'], c['depth']) for c in cases}),
            'initial_parses': sorted({json.dumps(c['init']) for c in cases}),
            'cases': len(cases), 'histories': sum(len(BH_OPS) ** (c['depth'] - 1) for c in cases)})
    ctx.note('bounds', {'one_byte_values': '00..ff at output script, scriptSig, witness item',
                        'counts': [1, 2, 3, 252, 253] + ([] if q else [65535, 65536]),
                        'entry_points': list(ENTRIES)})
