"""C17 Amount conversion is exact to the smallest unit.

E1 input-space enumeration on the real `bitcoinlib.values` / `bitcoinlib.transactions` code against exact
integer / rational arithmetic.  The oracle never uses binary floating point: an amount is an integer number
of smallest units `n`; its text in a denominator `10**d` is the decimal string of `n * 10**(-8-d)`.

Call sites (the first component of every deviation signature):
    value_to_satoshi(str)            value_to_satoshi(str,network)      Value(str).value_sat
    Value(num,den).value_sat         from_satoshi.value_sat             from_satoshi.str
    roundtrip(str->parse)            Output(value=str) / Input(value=str) / Output(value=Value)
    Output(value=float) / add_output(float) / Output(value=int).raw / tx.fee
"""
import math
from fractions import Fraction

from vf.ref import nets as rnets
from vf.ref import tx as rtx

ID = 'C17'
LEVEL = 'exploration'
RULE = ('every integer amount n of the stated windows/alphabets (0..2^20, the top of the supply, k*10^j +-{0,1,2}, '
        'windows around and inside every binade 2^21..2^50) is combined with every one of the 20 denominator '
        'symbols: the exact decimal text of n in that denominator is parsed by the library, n is converted by '
        'from_satoshi, formatted by Value.str (default decimals and the number of decimals one smallest unit '
        'needs) and parsed back; plus string-form, numeric-denominator, network/currency-code and transaction '
        'Input/Output alphabets (full products). Expected values are computed with Python integers/Fractions. '
        'A case is non-trivial when the library returned a value that was compared with the oracle (refusals and '
        'formats with too few decimals to show one unit are counted as evaluations only). distinct_nontrivial is '
        'counted conservatively: one per distinct (sub-space, denominator, block of 64 consecutive amounts) for '
        'the integer windows and one per distinct case elsewhere; the number of distinct (denominator, amount) '
        'pairs compared is reported separately as coverage.distinct_den_amount_pairs (windows are made disjoint '
        'by interval union before they are dispatched, so that number is a count, not an estimate).')
ASSUMPTIONS = [
    'trusted base: Python int/Fraction arithmetic, str<->int conversion; the table of 20 denominator symbols and '
    'their powers of ten is written down here from the SI prefixes and the Bitcoin unit names (sat, fin, msat, '
    'µsat), not read from the library; currency codes come from the pinned golden network table',
    'the smallest unit is 1e-8 of the main unit on all eleven networks (checked against the golden table)',
    'amounts are bounded by 21e14 smallest units on every network (the quantifier of the property)',
    'the round-trip law and the exactness of formatted text are only demanded when the formatted string has enough '
    'decimals to show the amount (otherwise counted as not_demanded); text with more decimals than one smallest '
    'unit (msat, µsat, n) only has to be within half a unit, i.e. has to read back as the same integer',
    'strings that denote a fraction of the smallest unit only have to convert to an integer less than one unit '
    'away (the rounding direction is not demanded)',
    'refusals (exceptions) are accepted for negative, non-finite and non-integral numbers on the way into a '
    'serialised transaction; refusing a supported denominator symbol or the network\'s own currency code is a '
    'deviation because the formatted text of an amount can then not be parsed back',
    'only documented argument types are demanded: Transaction.add_output(Value|str) (documented type int) and '
    'unknown unit words such as "SAT" are observed and reported as outcome labels, not judged',
    'Value.str(\'\') refuses the empty symbol although Value(x, \'\') accepts it; the check uses the numeric '
    'denominator 1 for the main unit when formatting',
    'Transaction(inputs, outputs) must refuse outputs that exceed the inputs; the sign of Transaction.fee for '
    'transactions assembled step by step (add_input/add_output/update_totals) is left to C07',
]

# ----------------------------------------------------------------------------------------------------------
# independent oracle
DEN_EXP = [('µsat', -14), ('msat', -11), ('n', -9), ('sat', -8), ('fin', -7), ('µ', -6), ('m', -3), ('c', -2),
           ('d', -1), ('', 0), ('da', 1), ('h', 2), ('k', 3), ('M', 6), ('G', 9), ('T', 12), ('P', 15), ('E', 18),
           ('Z', 21), ('Y', 24)]
DEN = dict(DEN_EXP)
SYMS = [s for s, _ in DEN_EXP]
UNIT = 8                     # decimals of the main unit on every network
SUPPLY = 21 * 10 ** 14
TOP = 1 << 50                # amounts >= 2^50 sat: neighbouring doubles are 0.25 sat apart


def den_class(sym):
    """unit: factor 1.0; smallest: the network denominator itself (factors cancel); scaled: everything else."""
    if sym in ('', 1, 1.0):
        return 'unit'
    if sym in ('sat', None):
        return 'smallest'
    return 'scaled'


def shift_of(sym):
    return DEN[sym] + UNIT if sym is not None else 0


def exact_str(n, shift, pad=False):
    """Decimal text of n smallest units in a denominator that needs `shift` decimals for one unit."""
    a = abs(n)
    if shift <= 0:
        s = str(a * 10 ** (-shift))
    else:
        t = str(a).rjust(shift + 1, '0')
        ip, fp = t[:-shift], t[-shift:]
        if not pad:
            fp = fp.rstrip('0')
        s = ip + ('.' + fp if fp else '')
    return ('-' if n < 0 else '') + s


def text_units(num, shift):
    """(digits, e): the decimal text `num` in that denominator is exactly digits * 10**e smallest units."""
    neg = num.startswith('-')
    s = num.lstrip('+-')
    ip, _, fp = s.partition('.')
    digits = int((ip + fp) or '0')
    return (-digits if neg else digits), shift - len(fp)


def text_check(num, shift, n):
    """None when the text has too few decimals to show n; else the text read as (nearest) integer of units."""
    digits, e = text_units(num, shift)
    if e > 0:
        if n % (10 ** e):
            return None
        return digits * 10 ** e
    if e == 0:
        return digits
    p = 10 ** (-e)
    q, r = divmod(digits, p)
    if 2 * r > p or (2 * r == p and q % 2):
        q += 1
    return q


def unit_text(sym, cur):
    return sym + cur


def numeric_den(sym):
    d = DEN[sym]
    return 10 ** d if d >= 0 else float('1e%d' % d)


CODES = {n: rnets.NETS[n]['currency_code'] for n in rnets.NAMES}


def nets_of_code(code):
    return [n for n in rnets.NAMES if CODES[n] == code]


def collides_with_code(sym, cur):
    """The unit text sym+cur is, ignoring case, the currency code of some network (TBTC ~ tBTC, TDOGE ~ tDOGE)."""
    if not sym:
        return False
    u = (sym + cur).upper()
    return any(c.upper() == u for c in CODES.values())


def selftest():
    rnets.selftest()
    rtx.selftest()
    assert len(DEN) == 20
    for n in rnets.NAMES:
        assert rnets.NETS[n]['denominator'] == 1e-08, n
    assert exact_str(1, 8) == '0.00000001' and exact_str(123456789, 8) == '1.23456789'
    assert exact_str(100000000, 8) == '1' and exact_str(100000000, 8, pad=True) == '1.00000000'
    assert exact_str(5, 0) == '5' and exact_str(5, -3) == '5000' and exact_str(12, 1) == '1.2'
    assert exact_str(-15, 1) == '-1.5' and exact_str(0, 8) == '0' and exact_str(1200000, 5) == '12'
    assert exact_str(SUPPLY, 32) == '0.000000000000000021'
    assert text_units('12.00000', 5) == (1200000, 0) and text_check('12.00000', 5, 1200000) == 1200000
    assert text_check('0.00012000', 8, 12000) == 12000
    assert text_check('0.12712750', 20, 12712750 * 10 ** 12) == 12712750 * 10 ** 12
    assert text_check('0.12712750', 20, 12712750 * 10 ** 12 + 1) is None
    assert text_check('12300', -3, 12) == 12 and text_check('12500', -3, 12) == 12 and text_check('13500', -3, 14) == 14
    assert text_check('2099999999999999488', -3, SUPPLY - 1) == SUPPLY - 1
    # cross-check the string oracle against Fractions on a grid
    for sym, d in DEN_EXP:
        for n in (0, 1, 7, 10, 12345, 10 ** 8, 10 ** 12 + 1, SUPPLY - 1, SUPPLY):
            s = exact_str(n, d + UNIT)
            assert Fraction(s) * Fraction(10) ** d * 10 ** UNIT == n, (sym, n, s)
            assert text_check(exact_str(n, d + UNIT, pad=True), d + UNIT, n) == n
    assert collides_with_code('T', 'BTC') and collides_with_code('T', 'DOGE') and not collides_with_code('T', 'LTC')
    assert not collides_with_code('m', 'BTC') and nets_of_code('tBTC') == ['testnet', 'testnet4']
    assert den_class('') == 'unit' and den_class('sat') == 'smallest' and den_class('m') == 'scaled'


# ----------------------------------------------------------------------------------------------------------
# deviation classifiers (the complete, finite set of signatures is produced here)
class Rec:
    def __init__(self):
        self.devs = {}
        self.out = {}
        self.n = 0
        self.nt = set()

    def dev(self, sig, detail):
        d = self.devs.get(sig)
        if d is None:
            self.devs[sig] = {'sig': sig, 'detail': dict(detail, count_in_case=1)}
        else:
            d['detail']['count_in_case'] += 1

    def o(self, label, k=1):
        self.out[label] = self.out.get(label, 0) + k

    def result(self, ret=None):
        return {'devs': list(self.devs.values()), 'n': self.n, 'nt': sorted(self.nt), 'out': self.out, 'ret': ret}


def cls_int(site, sym, n, got):
    """A wrong integer.  The only explained class is the binary-float one: exactly one unit, amount >= 2^50."""
    mag = 'n>=2^50' if abs(n) >= TOP else 'n<2^50'
    err = 'off_by_1' if abs(got - n) == 1 else 'err_other'
    return '%s|den=%s|%s|%s' % (site, den_class(sym), mag, err)


def judge_parse(rec, site, sym, cur, n, s, fn, shift, netarg=None):
    """Run a parsing call site on text s (exactly n units in denominator sym) and classify."""
    rec.n += 1
    try:
        got = fn()
    except Exception as e:
        msg = str(e)
        if sym == 'da' and isinstance(e, ValueError) and 'Currency symbol not recognised' in msg:
            rec.dev('%s|den=da|refused_symbol_not_recognised' % site, {'text': s, 'exc': repr(e)})
            rec.o('refused_da')
        elif netarg and collides_with_code(sym, cur) and isinstance(e, ValueError) and 'different network' in msg:
            rec.dev('%s|den=%s|prefix+code_read_as_other_currency_then_refused' % (site, sym),
                    {'text': s, 'network': netarg, 'exc': repr(e)})
            rec.o('refused_prefix_code_collision')
        elif netarg and own_code_on_alias(netarg, cur) and isinstance(e, ValueError) and \
                'different network' in msg:
            rec.dev('%s|own_currency_code_refused|network_shares_code' % site,
                    {'text': s, 'network': netarg, 'exc': repr(e)})
            rec.o('refused_own_code_alias_network')
        else:
            rec.dev('%s|den=%s|raises_%s' % (site, den_class(sym), type(e).__name__), {'text': s, 'exc': repr(e)})
            rec.o('raised')
        return None
    if type(got) is not int:
        rec.dev('%s|den=%s|returns_%s' % (site, den_class(sym), type(got).__name__), {'text': s, 'got': repr(got)})
        rec.o('non_int')
        return got
    if got == n:
        rec.o('exact')
        return got
    if collides_with_code(sym, cur) and not netarg:
        # the numeric part was read in the main unit of the *other* network (and rounded to its smallest unit)
        digits, e = text_units(s.split(' ')[0], UNIT)
        if abs(got - Fraction(digits) * Fraction(10) ** e) < 1:
            rec.dev('%s|den=%s|prefix+code_read_as_other_currency' % (site, sym),
                    {'text': s, 'expected': n, 'got': got})
            rec.o('misread_prefix_code_collision')
            return got
    sig = cls_int(site, sym, n, got)
    rec.dev(sig, {'text': s, 'expected': n, 'got': got})
    rec.o('float_off_by_1_top_binade' if sig.endswith('n>=2^50|off_by_1') else 'wrong')
    return got


def own_code_on_alias(net, cur):
    """cur is the currency code of `net` (or no code is given, which means the same) and an earlier network
    of the table has the same code."""
    own = CODES.get(net)
    return cur in (own, '') and nets_of_code(own)[0] != net


# ----------------------------------------------------------------------------------------------------------
# sub-space: integer windows x denominator
def _amounts(case):
    if 'pts' in case:
        return case['pts']
    return range(case['lo'], case['hi'])


def sub_win(case):
    """case = {'den': sym, 'lo','hi' | 'pts': [...]} ; default network, currency code BTC.

    For every amount n: parse the exact text; from_satoshi(n, sym).value_sat; .str(sym) with default decimals
    and with the needed decimals; parse the formatted text back."""
    from bitcoinlib.values import Value, value_to_satoshi
    sym = case['den']
    shift = shift_of(sym)
    cur = 'BTC'
    ut = unit_text(sym, cur)
    strden = sym if sym else 1
    rec = Rec()
    pairs = 0
    for n in _amounts(case):
        s = exact_str(n, shift) + ' ' + ut
        got = judge_parse(rec, 'value_to_satoshi(str)', sym, cur, n, s, lambda: value_to_satoshi(s), shift)
        compared = got is not None
        # ---- from_satoshi
        rec.n += 1
        try:
            v = Value.from_satoshi(n, sym)
            vs = v.value_sat
        except Exception as e:
            rec.dev('from_satoshi.value_sat|den=%s|raises_%s' % (den_class(sym), type(e).__name__),
                    {'n': n, 'den': sym, 'exc': repr(e)})
            rec.o('raised')
            continue
        compared = True
        if vs == n and type(vs) is int:
            rec.o('exact')
        else:
            sig = cls_int('from_satoshi.value_sat', sym, n, vs) if type(vs) is int else \
                'from_satoshi.value_sat|den=%s|returns_%s' % (den_class(sym), type(vs).__name__)
            rec.dev(sig, {'n': n, 'den': sym, 'got': repr(vs)})
            rec.o('float_off_by_1_top_binade' if sig.endswith('n>=2^50|off_by_1') else 'wrong')
        # ---- format (default decimals; and exactly the decimals one unit needs when the default is fewer)
        for decimals in (None, shift):
            if decimals is not None and (shift <= 8):
                continue      # default already shows min(shift, 8) decimals
            rec.n += 1
            try:
                txt = v.str(strden) if decimals is None else v.str(strden, decimals=decimals)
                num, _, unit = txt.partition(' ')
                t = text_check(num, shift, n)
            except Exception as e:
                rec.dev('from_satoshi.str|den=%s|raises_%s' % (den_class(sym), type(e).__name__),
                        {'n': n, 'den': sym, 'decimals': decimals, 'exc': repr(e)})
                rec.o('raised')
                continue
            if t is None:
                rec.o('not_demanded_too_few_decimals')
                continue
            if t == n:
                rec.o('exact')
            else:
                sig = cls_int('from_satoshi.str', sym, n, t)
                rec.dev(sig, {'n': n, 'den': sym, 'decimals': decimals, 'text': txt})
                rec.o('float_off_by_1_top_binade' if sig.endswith('n>=2^50|off_by_1') else 'wrong')
            # ---- round trip of the library's own text
            judge_parse(rec, 'roundtrip(str->parse)', sym, cur, n, txt, lambda: value_to_satoshi(txt), shift)
        if compared:
            pairs += 1
            rec.nt.add('%s:%d' % (sym, n >> 6))
    return rec.result(pairs)


# ----------------------------------------------------------------------------------------------------------
# sub-space: textual forms (<= 3 significant digits at every position of the frame)
FORMS = ('minimal', 'padded', 'plus_leading_zeros', 'no_leading_zero')


def _form(n_num, n_exp, shift, form):
    """text of k*10^j units (k=n_num, j=n_exp; j<0 = fraction of a unit) in the denominator, in a given form."""
    # value in denominator = k * 10^(j - shift)
    e = n_exp - shift
    if e >= 0:
        ip, fp = str(n_num * 10 ** e), ''
    else:
        t = str(n_num).rjust(-e + 1, '0')
        ip, fp = t[:e], t[e:]
    if form == 'minimal':
        fp = fp.rstrip('0')
    elif form == 'padded':
        fp = fp.ljust(max(shift, 0) + (3 if n_exp < 0 else 0), '0')
    elif form == 'plus_leading_zeros':
        fp = fp.rstrip('0')
        ip = '+00' + ip
    elif form == 'no_leading_zero':
        fp = fp.rstrip('0')
        if ip == '0' and fp:
            ip = ''
    return ip + ('.' + fp if fp else '')


def sub_forms(case):
    """case = {'den': sym, 'cur': code|'' , 'net': network name, 'ks': [k...], 'jmin': j, 'lower': bool}."""
    from bitcoinlib.values import Value, value_to_satoshi
    sym = case['den']
    cur = case['cur']
    net = case['net']
    shift = shift_of(sym)
    rec = Rec()
    code = cur.lower() if case.get('lower') else cur
    ut = unit_text(sym, code)
    for k in case['ks']:
        for j in range(case['jmin'], 16):
            if j >= 0 and k * 10 ** j > SUPPLY:
                break
            for form in case.get('forms', FORMS):
                num = _form(k, j, shift, form)
                s = num + (' ' + ut if ut else '')
                if j >= 0:
                    n = k * 10 ** j
                    key = '%s|%s|%s|%d|%s|%d' % (sym, code, net, n, form, 0)
                    a = judge_parse(rec, 'value_to_satoshi(str,network)', sym, cur, n, s,
                                    lambda: value_to_satoshi(s, network=net), shift, netarg=net)
                    b = judge_parse(rec, 'Value(str).value_sat', sym, cur, n, s,
                                    lambda: Value(s, network=net).value_sat, shift)
                    if net == 'bitcoin' or cur:
                        c = judge_parse(rec, 'value_to_satoshi(str)', sym, cur, n, s,
                                        lambda: value_to_satoshi(s), shift)
                    else:
                        c = None
                    if a is not None or b is not None or c is not None:
                        rec.nt.add(key)
                else:
                    # a fraction of the smallest unit: any integer less than one unit away is accepted
                    ex = Fraction(k, 10 ** (-j))
                    rec.n += 1
                    try:
                        got = Value(s, network=net).value_sat
                    except Exception as e:
                        if sym == 'da' or collides_with_code(sym, cur):
                            rec.o('refused_da' if sym == 'da' else 'refused_prefix_code_collision')
                        else:
                            rec.dev('Value(str).value_sat|subunit|raises_%s' % type(e).__name__,
                                    {'text': s, 'exc': repr(e)})
                        continue
                    if collides_with_code(sym, cur):
                        rec.o('misread_prefix_code_collision')
                        continue
                    if type(got) is int and abs(got - ex) < 1:
                        rec.o('subunit_rounded_%s' % ('down' if got < ex else 'up' if got > ex else 'exact'))
                        rec.nt.add('%s|%s|%s|%d/%d|%s' % (sym, code, net, k, -j, form))
                    else:
                        rec.dev('Value(str).value_sat|subunit|off_by_ge_1_or_non_int', {'text': s, 'got': repr(got)})
    return rec.result()


# ----------------------------------------------------------------------------------------------------------
# sub-space: numeric values with symbolic and numeric denominators
def sub_numeric(case):
    """case = {'den': sym, 'pts': [n...]} : Value(k, den) for integer k (and the float nearest to the decimal)
    in units of den, den given as symbol and as number; from_satoshi with the numeric denominator."""
    from bitcoinlib.values import Value
    sym = case['den']
    shift = shift_of(sym)
    nd = numeric_den(sym)
    rec = Rec()
    for n in case['pts']:
        did = False
        # integer count of den units, when n is a whole number of them
        if shift <= 0:
            k = n * 10 ** (-shift)
        elif n % 10 ** shift == 0:
            k = n // 10 ** shift
        else:
            k = None
        cands = []
        if k is not None:
            cands.append(('int', k))
        cands.append(('float', float(exact_str(n, shift))))
        for kind, kv in cands:
            for dform, dv in (('symbol', sym), ('number', nd)):
                rec.n += 1
                try:
                    got = Value(kv, dv).value_sat
                except Exception as e:
                    rec.dev('Value(num,den).value_sat|den=%s|raises_%s' % (den_class(sym), type(e).__name__),
                            {'value': repr(kv), 'den': repr(dv), 'exc': repr(e)})
                    rec.o('raised')
                    continue
                did = True
                if got == n and type(got) is int:
                    rec.o('exact')
                else:
                    sig = cls_int('Value(num,den).value_sat', sym, n, got) if type(got) is int else \
                        'Value(num,den).value_sat|den=%s|returns_%s' % (den_class(sym), type(got).__name__)
                    rec.dev(sig, {'value': repr(kv), 'den': repr(dv), 'expected': n, 'got': repr(got)})
                    rec.o('float_off_by_1_top_binade' if sig.endswith('n>=2^50|off_by_1') else 'wrong')
        # from_satoshi with a numeric denominator, formatted with the numeric denominator
        rec.n += 1
        try:
            v = Value.from_satoshi(n, nd)
            got = v.value_sat
            txt = v.str(nd, decimals=max(shift, 0))
            t = text_check(txt.split(' ')[0], shift, n)
        except Exception as e:
            rec.dev('from_satoshi.value_sat|den=%s|raises_%s' % (den_class(sym), type(e).__name__),
                    {'n': n, 'den': repr(nd), 'exc': repr(e)})
            rec.o('raised')
            continue
        did = True
        if got == n and type(got) is int:
            rec.o('exact')
        else:
            sig = cls_int('from_satoshi.value_sat', sym, n, got)
            rec.dev(sig, {'n': n, 'den': repr(nd), 'got': repr(got)})
            rec.o('float_off_by_1_top_binade' if sig.endswith('n>=2^50|off_by_1') else 'wrong')
        rec.n += 1
        if t == n:
            rec.o('exact')
        else:
            sig = cls_int('from_satoshi.str', sym, n, t)
            rec.dev(sig, {'n': n, 'den': repr(nd), 'text': txt})
            rec.o('float_off_by_1_top_binade' if sig.endswith('n>=2^50|off_by_1') else 'wrong')
        if did:
            rec.nt.add('%s:%d' % (sym, n))
    return rec.result()


# ----------------------------------------------------------------------------------------------------------
# sub-space: networks and currency codes
def sub_nets(case):
    """case = {'net': name, 'den': sym, 'pts': [...]}: format on the network, parse without and with network."""
    from bitcoinlib.values import Value, value_to_satoshi
    net = case['net']
    sym = case['den']
    cur = CODES[net]
    shift = shift_of(sym)
    strden = sym if sym else 1
    rec = Rec()
    for n in case['pts']:
        did = False
        rec.n += 1
        try:
            v = Value.from_satoshi(n, sym, network=net)
            txt = v.str(strden, decimals=max(shift, 0))
        except Exception as e:
            rec.dev('from_satoshi.str|den=%s|raises_%s' % (den_class(sym), type(e).__name__),
                    {'n': n, 'den': sym, 'network': net, 'exc': repr(e)})
            continue
        t = text_check(txt.split(' ')[0], shift, n)
        if t == n:
            rec.o('exact')
        else:
            sig = cls_int('from_satoshi.str', sym, n, t)
            rec.dev(sig, {'n': n, 'den': sym, 'network': net, 'text': txt})
            rec.o('float_off_by_1_top_binade' if sig.endswith('n>=2^50|off_by_1') else 'wrong')
        texts = [('own', txt), ('exact', exact_str(n, shift) + ' ' + unit_text(sym, cur))]
        if t != n:
            texts = texts[1:]       # the library's own text is already wrong; judged above
        for kind, s in texts:
            # without a network argument the currency code selects the network
            site_a = 'roundtrip(str->parse)' if kind == 'own' else 'Value(str).value_sat'
            site_b = 'roundtrip(str->parse)' if kind == 'own' else 'value_to_satoshi(str,network)'
            rec.n += 1
            try:
                vv = Value(s)
                got = vv.value_sat
                gnet = vv.network.name
            except Exception as e:
                judge_parse(rec, site_a, sym, cur, n, s, lambda: Value(s).value_sat, shift)
                rec.n -= 1
            else:
                did = True
                if got == n and gnet in nets_of_code(cur):
                    rec.o('exact')
                elif got == n:
                    rec.dev('Value(str).network|code_of_%s_selected_other_currency' % (
                        'prefix+code_collision' if collides_with_code(sym, cur) else 'plain'),
                        {'text': s, 'network': gnet, 'expected_one_of': nets_of_code(cur)})
                else:
                    judge_parse(rec, site_a, sym, cur, n, s, lambda: Value(s).value_sat, shift)
                    rec.n -= 1
            # with the network argument (what Input/Output do)
            a = judge_parse(rec, site_b, sym, cur, n, s,
                            lambda: value_to_satoshi(s, network=net), shift, netarg=net)
            did = did or a is not None
        if did:
            rec.nt.add('%s|%s|%d' % (net, sym, n))
    return rec.result()


# ----------------------------------------------------------------------------------------------------------
# sub-space: amounts into transactions
_LS = bytes.fromhex('76a914' + '11' * 20 + '88ac')
_PREV = 'aa' * 32


def _mkval(spec):
    """spec -> (python value handed to the library, exact Fraction or None (=not a number), kind)."""
    from bitcoinlib.values import Value
    kind = spec[0]
    if kind == 'int':
        return spec[1], Fraction(spec[1]), kind
    if kind == 'float':
        f = float(spec[1])
        return f, (Fraction(f) if math.isfinite(f) else None), kind
    if kind == 'str':                      # ['str', n, sym, cur]
        n, sym, cur = spec[1], spec[2], spec[3]
        s = exact_str(n, shift_of(sym)) + ((' ' + unit_text(sym, cur)) if (sym or cur) else '')
        return s, Fraction(n), kind
    if kind == 'substr':                   # ['substr', k, sym]  k tenths of a smallest unit
        s = exact_str(spec[1], shift_of(spec[2]) + 1) + ' ' + unit_text(spec[2], 'BTC')
        return s, Fraction(spec[1], 10), kind
    if kind == 'Value':                    # ['Value', n, sym]
        return Value(exact_str(spec[1], shift_of(spec[2])) + ' ' + unit_text(spec[2], 'BTC')), Fraction(spec[1]), kind
    if kind == 'Value.from_satoshi':
        return Value.from_satoshi(spec[1]), Fraction(spec[1]), kind
    raise ValueError(kind)


def sub_txout(case):
    """case = {'spec': [...], 'net': name}.  The amount goes into Output(), Input() and Transaction.add_output();
    the transaction is serialised and the 8-byte amount is read back with the reference parser."""
    from bitcoinlib.transactions import Output, Input, Transaction
    spec = case['spec']
    net = case.get('net', 'bitcoin')
    rec = Rec()
    val, ex, kind = _mkval(spec)
    sym = spec[2] if kind in ('str', 'substr', 'Value') else ('sat' if kind in ('int', 'Value.from_satoshi') else None)
    cur = spec[3] if kind == 'str' else 'BTC'
    integral = ex is not None and ex.denominator == 1
    ok_amount = integral and 0 <= ex < (1 << 64)
    n = int(ex) if integral else None
    site0 = 'Output(value=%s)' % kind
    documented = kind in ('int', 'str', 'Value', 'Value.from_satoshi', 'substr')

    def in_output(site, mk):
        """mk() -> Transaction with one output.  Classify what ends up in the output / on the wire."""
        rec.n += 1
        stage = 'construct'
        try:
            t = mk()
            stage = 'raw'
            oval = t.outputs[0].value
            raw = t.raw()
            wire = rtx.parse(raw).vout[0]['value']
        except Exception as e:
            msg = str(e)
            if not ok_amount:
                rec.o('refused_bad_amount_at_%s' % stage)
                return
            if kind in ('str', 'Value') and sym == 'da' and 'Currency symbol not recognised' in msg:
                rec.dev('%s|den=da|refused_symbol_not_recognised' % site, {'value': repr(val), 'exc': repr(e)})
                rec.o('refused_da')
            elif kind == 'str' and collides_with_code(sym, cur) and 'different network' in msg:
                rec.dev('%s|den=%s|prefix+code_read_as_other_currency_then_refused' % (site, sym),
                        {'value': repr(val), 'exc': repr(e)})
                rec.o('refused_prefix_code_collision')
            elif kind == 'str' and own_code_on_alias(net, cur) and 'different network' in msg:
                rec.dev('%s|own_currency_code_refused|network_shares_code' % site,
                        {'value': repr(val), 'network': net, 'exc': repr(e)})
                rec.o('refused_own_code_alias_network')
            else:
                rec.dev('%s|valid_amount_refused_at_%s|%s' % (site, stage, type(e).__name__),
                        {'value': repr(val), 'exc': repr(e)})
            return
        rec.nt.add('%s|%s|%r' % (site, net, spec))
        if not ok_amount:
            if kind == 'substr':
                # a fraction of a unit given as text: rounding to a neighbour integer is accepted
                if type(oval) is int and oval == wire and abs(oval - ex) < 1 and wire >= 0:
                    rec.o('subunit_text_rounded')
                else:
                    rec.dev('%s|subunit_text|off_by_ge_1_or_non_int' % site, {'value': repr(val), 'output_value': repr(oval), 'wire': wire})
                return
            cl = 'negative' if (ex is not None and ex < 0) else 'non_integer' if ex is not None else 'non_finite'
            if ex is not None and ex >= (1 << 64):
                cl = 'too_large'
            rec.dev('%s|%s_amount_serialised|output_value_kept_as_given' % (site, cl),
                    {'value': repr(val), 'output_value': repr(oval), 'wire': wire})
            rec.o('bad_amount_serialised')
            return
        if oval == n and wire == n:
            rec.o('exact')
            return
        if type(oval) is int and oval == wire:
            if kind in ('str', 'Value'):
                sig = cls_int(site, sym, n, oval)
            else:
                sig = '%s|wrong_amount|%s' % (site, 'off_by_1' if abs(oval - n) == 1 else 'err_other')
        else:
            sig = '%s|output_value_and_wire_differ' % site
        rec.dev(sig, {'value': repr(val), 'expected': n, 'output_value': repr(oval), 'wire': wire})
        rec.o('float_off_by_1_top_binade' if sig.endswith('n>=2^50|off_by_1') else 'wrong')

    def mk_output():
        o = Output(val, lock_script=_LS, network=net)
        t = Transaction(outputs=[o], network=net, witness_type='legacy')
        t.add_input(_PREV, 0)
        return t

    def mk_add_output():
        t = Transaction(network=net, witness_type='legacy')
        t.add_input(_PREV, 0)
        t.add_output(val, lock_script=_LS)
        return t

    if documented or kind == 'float':
        in_output(site0, mk_output)
    if kind in ('int', 'float'):
        in_output('add_output(%s)' % kind, mk_add_output)
    else:
        # documented type of add_output is int: observed only
        rec.n += 1
        try:
            t = mk_add_output()
            rec.o('add_output(%s)_undocumented_type:%s' % (kind, 'exact' if t.outputs[0].value == n else 'other_amount'))
        except Exception:
            rec.o('add_output(%s)_undocumented_type:refused' % kind)
    # ---- Input(value=...)
    if documented:
        rec.n += 1
        site = 'Input(value=%s)' % kind
        try:
            i = Input(_PREV, 0, value=val, network=net)
            got = i.value
        except Exception as e:
            msg = str(e)
            if kind in ('str', 'Value') and sym == 'da' and 'Currency symbol not recognised' in msg:
                rec.dev('%s|den=da|refused_symbol_not_recognised' % site, {'value': repr(val), 'exc': repr(e)})
            elif kind == 'str' and collides_with_code(sym, cur) and 'different network' in msg:
                rec.dev('%s|den=%s|prefix+code_read_as_other_currency_then_refused' % (site, sym),
                        {'value': repr(val), 'exc': repr(e)})
            elif kind == 'str' and own_code_on_alias(net, cur) and 'different network' in msg:
                rec.dev('%s|own_currency_code_refused|network_shares_code' % site,
                        {'value': repr(val), 'network': net, 'exc': repr(e)})
            elif integral:
                rec.dev('%s|valid_amount_refused|%s' % (site, type(e).__name__), {'value': repr(val), 'exc': repr(e)})
            else:
                rec.o('input_refused')
        else:
            rec.nt.add('%s|%s|%r' % (site, net, spec))
            if integral:
                if got == n and type(got) is int:
                    rec.o('exact')
                else:
                    sig = cls_int(site, sym, n, got) if type(got) is int and kind in ('str', 'Value') else \
                        '%s|wrong_amount' % site
                    rec.dev(sig, {'value': repr(val), 'expected': n, 'got': repr(got)})
                    rec.o('float_off_by_1_top_binade' if sig.endswith('n>=2^50|off_by_1') else 'wrong')
            elif kind == 'substr':
                if type(got) is int and abs(got - ex) < 1:
                    rec.o('subunit_text_rounded')
                else:
                    rec.dev('%s|subunit_text|off_by_ge_1_or_non_int' % site, {'value': repr(val), 'got': repr(got)})
    return rec.result()


def sub_txflags(case):
    """case = {'path': Output|add_output|Input|add_input, 'strict': bool, 'flag': bool, 'wt': witness type,
    'spec': amount spec}: constructor / flag variants.  Whatever the flags, an amount that reaches a transaction
    is stored as an int (or the call raises), raw() carries the stored value, totals and fee are ints."""
    from bitcoinlib.transactions import Output, Input, Transaction
    path, strict, flag, wt, spec = case['path'], case['strict'], case['flag'], case['wt'], case['spec']
    rec = Rec()
    val, ex, kind = _mkval(spec)
    integral = ex is not None and ex.denominator == 1
    n = int(ex) if integral else None
    site = '%s(value=%s)' % (path, kind)
    out_side = path in ('Output', 'add_output')
    other = 1000 if not out_side else 3 * 10 ** 16          # the int amount on the other side of the transaction
    rec.n += 1
    stage = 'construct'
    try:
        t = Transaction(witness_type=wt)
        if path == 'Output':
            t.outputs.append(Output(val, lock_script=_LS, strict=strict, spent=flag, change=flag))
        elif path == 'add_output':
            t.add_output(val, lock_script=_LS, strict=strict, spent=flag, change=flag)
        elif path == 'Input':
            t.inputs.append(Input(_PREV, 0, value=val, strict=strict, double_spend=flag, witness_type=wt))
        else:
            t.add_input(_PREV, 0, value=val, strict=strict, double_spend=flag)
        if out_side:
            t.add_input(_PREV, 0, value=other)
        else:
            t.add_output(other, lock_script=_LS)
        stored = t.outputs[0].value if out_side else t.inputs[0].value
        stage = 'raw'
        t.update_totals()
        wire = rtx.parse(t.raw()).vout[0]['value']
    except Exception as e:
        valid = integral and 0 <= n < (1 << 64)
        undocumented = path in ('add_output',) and kind not in ('int', 'float')
        if valid and not undocumented:
            rec.dev('%s|valid_amount_refused_at_%s|%s' % (site, stage, type(e).__name__),
                    {'case': case, 'exc': repr(e)[:200]})
        else:
            rec.o('refused_at_%s%s' % (stage, '_undocumented_type' if (valid and undocumented) else ''))
        return rec.result()
    rec.nt.add(repr(case))
    if path == 'add_output' and kind not in ('int', 'float'):
        rec.o('add_output_undocumented_type_accepted')       # documented type is int: observed only
        return rec.result()
    det = {'case': case, 'stored': repr(stored), 'wire_output': wire, 'input_total': repr(t.input_total),
           'output_total': repr(t.output_total), 'fee': repr(t.fee)}
    if not out_side and ex is not None and ex < 0:
        rec.o('negative_input_value_kept')                    # inputs are not outputs or fees: observed only
        return rec.result()
    bad = []
    if type(stored) is not int:
        bad.append('stored_%s_%s' % ('integral' if integral else 'non_integral', type(stored).__name__))
    elif kind == 'substr':
        if abs(stored - ex) >= 1:
            bad.append('subunit_text_off_by_ge_1')
    elif not integral or stored != n:
        bad.append('stored_int_differs_from_amount')
    if out_side:
        if type(stored) is int and stored < 0:
            bad.append('negative_amount_serialised')
        if wire != stored:
            bad.append('raw_differs_from_stored_value')
    for name, tot in (('input_total', t.input_total), ('output_total', t.output_total), ('fee', t.fee)):
        if tot is not None and type(tot) is not int:
            bad.append('%s_not_int' % name)
    if type(stored) is int and type(t.input_total) is int and type(t.output_total) is int and t.input_total and \
            type(t.fee) is int and t.fee != t.input_total - t.output_total:
        bad.append('fee_differs_from_totals')
    if bad:
        # the first item names the root (what is stored); consequences (totals, fee) go into the detail
        det['all'] = bad
        rec.dev('%s|%s' % (site, bad[0]), det)
        rec.o('bad_amount_in_transaction')
    else:
        rec.o('int_amount_stored_and_serialised')
    return rec.result()


def sub_fee(case):
    """case = {'ins': [specs], 'outs': [specs]}: totals and fee of a transaction are exact integers."""
    from bitcoinlib.transactions import Output, Input, Transaction
    rec = Rec()
    ins = [_mkval(s) for s in case['ins']]
    outs = [_mkval(s) for s in case['outs']]
    ti = sum(int(e) for _, e, _ in ins)
    to = sum(int(e) for _, e, _ in outs)
    rec.n += 1
    try:
        t = Transaction(inputs=[Input(_PREV, k, value=v, index_n=k) for k, (v, _, _) in enumerate(ins)],
                        outputs=[Output(v, lock_script=_LS) for v, _, _ in outs], witness_type='legacy')
    except Exception as e:
        if ti < to or (ti == to):
            rec.o('overspend_or_zero_fee_refused')
        else:
            rec.dev('tx.fee|valid_totals_refused|%s' % type(e).__name__, {'case': case, 'exc': repr(e)})
        return rec.result()
    rec.nt.add(repr(case))
    t.update_totals()
    ok = (t.input_total == ti and t.output_total == to and type(t.input_total) is int and type(t.output_total) is int)
    if ti and to and ti >= to:
        ok = ok and t.fee == ti - to and type(t.fee) is int
    elif ti and to:
        rec.dev('tx.fee|overspend_accepted', {'case': case, 'fee': repr(t.fee)})
    if ok:
        rec.o('exact')
        wire = [o['value'] for o in rtx.parse(t.raw()).vout]
        if wire != [int(e) for _, e, _ in outs]:
            rec.dev('tx.raw|output_amounts_differ', {'case': case, 'wire': wire})
    else:
        rec.dev('tx.fee|totals_or_fee_wrong', {'case': case, 'input_total': repr(t.input_total),
                                                'output_total': repr(t.output_total), 'fee': repr(t.fee)})
    return rec.result()


def sub_words(case):
    """Observation only: unit words that are not supported denominators/currency codes (not judged)."""
    from bitcoinlib.values import Value
    rec = Rec()
    rec.n += 1
    try:
        got = Value('1 ' + case).value_sat
        rec.o('unknown_unit_word_accepted_as_main_unit' if got == 10 ** 8 else 'unknown_unit_word_other')
    except Exception:
        rec.o('unknown_unit_word_refused')
    return {'n': rec.n, 'out': rec.out, 'nt': []}


SUBS = {'txflags': sub_txflags, 'win': sub_win, 'forms': sub_forms, 'numeric': sub_numeric, 'nets': sub_nets, 'txout': sub_txout,
        'fee': sub_fee, 'words': sub_words}


# ----------------------------------------------------------------------------------------------------------
def _union(intervals):
    """Disjoint sorted union of [lo, hi) intervals clipped to [0, SUPPLY]."""
    iv = sorted((max(0, a), min(b, SUPPLY + 1)) for a, b in intervals)
    out = []
    for a, b in iv:
        if a >= b:
            continue
        if out and a <= out[-1][1]:
            out[-1][1] = max(out[-1][1], b)
        else:
            out.append([a, b])
    return out


def _outside(pts, iv):
    """The sorted points that are in none of the disjoint sorted intervals."""
    import bisect
    los = [a for a, _ in iv]
    out = []
    for p in pts:
        i = bisect.bisect_right(los, p) - 1
        if i < 0 or p >= iv[i][1]:
            out.append(p)
    return out


def _split(iv, step):
    out = []
    for a, b in iv:
        for x in range(a, b, step):
            out.append([x, min(x + step, b)])
    return out


def _k10(kmax):
    pts = set()
    for k in range(1, kmax + 1):
        for j in range(0, 16):
            c = k * 10 ** j
            for dlt in (-2, -1, 0, 1, 2):
                if 0 <= c + dlt <= SUPPLY:
                    pts.add(c + dlt)
    return pts


def run(ctx):
    q = ctx.quick
    seed = ctx.seed
    only = getattr(ctx, 'only', None)

    def want(name):
        return not only or name in only

    # ------------------------------------------------------------------ integer windows per denominator
    def windows(sym):
        cl = den_class(sym)
        main = cl in ('unit', 'smallest')
        iv = []
        if q:
            iv.append((0, 1 << (18 if main else 13)))
            iv.append((SUPPLY - (1 << (14 if main else 11)), SUPPLY + 1))
        else:
            iv.append((0, 1 << 20))
            iv.append((SUPPLY - (1 << 16), SUPPLY + 1))
        w = 32 if q else 512
        ws = 256 if q else 8192
        for k in range(21, 51):
            c = 1 << k
            iv.append((c - w, c + w))
            # seed-positioned window inside the binade [2^k, 2^(k+1))
            span = min(2 * c, SUPPLY) - c - ws
            base = c + (seed * 2654435761 + k * 40503 + SYMS.index(sym) * 7919) % span
            iv.append((base, base + ws))
        # 2^24 main units (the float holding the amount in main units changes binade here)
        c = (1 << 24) * 10 ** 8
        iv.append((c - (w * 4), c + (w * 4)))
        return iv

    total_pairs = 0
    if want('win'):
        cases = []
        pts_small = _k10(99 if q else 999)
        pts_main = _k10(999)
        for sym in SYMS:
            iv = _union(windows(sym))
            for a, b in _split(iv, 2048):
                cases.append({'den': sym, 'lo': a, 'hi': b})
            src = pts_main if den_class(sym) != 'scaled' or not q else pts_small
            pts = _outside(sorted(src), iv)
            for i in range(0, len(pts), 1024):
                cases.append({'den': sym, 'pts': pts[i:i + 1024]})
        # simplest first: by lowest amount, then denominator
        cases.sort(key=lambda c: (c.get('lo', c.get('pts', [0])[0]), SYMS.index(c['den'])))
        rets = ctx.pmap('win', cases, chunk=1)
        total_pairs += sum(r or 0 for r in rets)
        ctx.note('distinct_den_amount_pairs', total_pairs)

    # ------------------------------------------------------------------ textual forms
    if want('forms'):
        ks = list(range(1, 1000))
        cases = []
        for sym in SYMS:
            for cur, net, lower in (('BTC', 'bitcoin', False), ('', 'bitcoin', False), ('btc', 'bitcoin', True),
                                    ('LTC', 'litecoin', False), ('', 'dogecoin', False)):
                if lower:
                    if sym not in ('', 'm', 'sat', 'µ', 'k'):
                        continue
                    cur = 'BTC'
                if q and net != 'bitcoin' and sym not in ('', 'm', 'sat', 'T', 'da', 'msat'):
                    continue
                full = not q or (net == 'bitcoin' and not lower and cur)
                plan = [(ks if full else ks[:99], ['minimal'])]
                plan.append((ks if not q else ks[:99] if full else ks[:9], [f for f in FORMS if f != 'minimal']))
                for kk, forms in plan:
                    for i in range(0, len(kk), 111):
                        cases.append({'den': sym, 'cur': cur, 'net': net, 'ks': kk[i:i + 111], 'jmin': -3,
                                      'lower': lower, 'forms': forms})
        ctx.pmap('forms', cases, chunk=1)

    # ------------------------------------------------------------------ numeric denominators
    if want('numeric'):
        base = sorted(_k10(99) | set(range(0, 2048)) | set(range(SUPPLY - 2048, SUPPLY + 1)) |
                      set(range(TOP - 256, TOP + 256)))
        if not q:
            base = sorted(set(base) | _k10(999) | set(range(SUPPLY - 16384, SUPPLY + 1)))
        cases = []
        for sym in SYMS:
            for i in range(0, len(base), 1024):
                cases.append({'den': sym, 'pts': base[i:i + 1024]})
        ctx.pmap('numeric', cases, chunk=1)

    # ------------------------------------------------------------------ networks / currency codes
    if want('nets'):
        pts = sorted(set([0, 1, 2, 9, 10, 99, 546, 1000, 12345, 99999999, 10 ** 8, 10 ** 8 + 1, 123456789,
                          10 ** 12, 10 ** 12 + 1, 2 * 10 ** 12, 5 * 10 ** 14, TOP - 1, SUPPLY] +
                         [10 ** j for j in range(0, 16)] + [3 * 10 ** j for j in range(0, 15)] +
                         list(range(SUPPLY - (64 if q else 1024), SUPPLY))))
        cases = [{'net': net, 'den': sym, 'pts': pts} for net in rnets.NAMES for sym in SYMS]
        ctx.pmap('nets', cases, chunk=1)

    # ------------------------------------------------------------------ amounts into transactions
    if want('txout'):
        specs = []
        ints = [0, 1, 2, 545, 546, 10 ** 8, 2 ** 31 - 1, 2 ** 31, 2 ** 32 - 1, 2 ** 32, 2 ** 53 - 1, 2 ** 53,
                2 ** 53 + 1, SUPPLY - 1, SUPPLY, SUPPLY + 1, 2 ** 63 - 1, 2 ** 63, 2 ** 64 - 1, 2 ** 64, 2 ** 64 + 1,
                -1, -2, -546, -10 ** 8, -2 ** 63, -2 ** 64]
        specs += [['int', i] for i in ints]
        specs += [['float', f] for f in ('0.0', '1.0', '2.0', '546.0', '1e8', '9007199254740992.0', '2.1e15',
                                         '0.5', '1.5', '0.1', '1e-8', '0.29e8', '28999999.999999996',
                                         '545.9999999', '-1.0', '-0.5', '-1e-9', 'nan', 'inf', '-inf', '1e20')]
        amts = [0, 1, 546, 10 ** 8, 123456789, 10 ** 12, 10 ** 15, SUPPLY]
        for sym in SYMS:
            for n in amts:
                specs.append(['str', n, sym, 'BTC'])
            specs.append(['str', -1, sym, 'BTC'])
            if sym not in ('da', 'T'):      # Value(text) itself is refused / misread for these (judged as 'str')
                specs.append(['Value', 123456789000, sym])
            for k in (1, 5, 9, 15, 25, 123456785):
                specs.append(['substr', k, sym])
        for n in amts:
            specs.append(['str', n, '', ''])
            specs.append(['Value.from_satoshi', n])
        # the top binade through the Input/Output call sites (where the float deviations are)
        wtop = 256 if q else 4096
        for sym in ('', 'sat', 'm', 'fin', 'n', 'µ', 'msat', 'd', 'k'):
            for n in range(SUPPLY - wtop, SUPPLY):
                specs.append(['str', n, sym, 'BTC'])
        cases = [{'spec': s, 'net': 'bitcoin'} for s in specs]
        for net in rnets.NAMES:
            if net == 'bitcoin':
                continue
            for sym in ('', 'm', 'sat', 'T', 'k'):
                for n in (1, 10 ** 8, 10 ** 12):
                    cases.append({'spec': ['str', n, sym, CODES[net]], 'net': net})
                    cases.append({'spec': ['str', n, sym, ''], 'net': net})
            cases.append({'spec': ['int', 12345], 'net': net})
        ctx.pmap('txout', cases)
    if want('txflags'):
        kinds = [['int', 0], ['int', 1], ['int', 546], ['int', 90000], ['int', SUPPLY], ['int', 2 ** 64 - 1],
                 ['int', -1], ['int', -90000],
                 ['float', '0.0'], ['float', '1.0'], ['float', '90000.0'], ['float', '2099999997690000.0'],
                 ['float', '1.5'], ['float', '0.1'], ['float', '89999.99'], ['float', '28999999.999999996'],
                 ['float', '-1.0'], ['float', '-0.5'], ['float', 'nan'], ['float', 'inf'],
                 ['str', 1, 'sat', ''], ['str', 90000, '', 'BTC'], ['str', 123456789, 'm', 'BTC'],
                 ['str', SUPPLY, '', ''], ['str', -1, 'sat', ''],
                 ['substr', 15, 'sat'], ['substr', 5, ''], ['substr', 899999, 'm'],
                 ['Value', 90000, 'sat'], ['Value', 123456789, 'm'], ['Value.from_satoshi', 90000]]
        cases = [{'path': pth, 'strict': st, 'flag': fl, 'wt': wt, 'spec': k}
                 for pth in ('Output', 'add_output', 'Input', 'add_input') for st in (True, False)
                 for fl in (False, True) for wt in ('legacy', 'segwit') for k in kinds]
        ctx.pmap('txflags', cases)
    if want('fee'):
        fa = [['int', 0], ['int', 1], ['int', 1000], ['str', 10 ** 8, '', 'BTC'], ['str', 1000, 'sat', ''],
              ['str', 150000, 'm', 'BTC'], ['int', SUPPLY], ['Value', 5 * 10 ** 7, 'm']]
        fcases = []
        for a in fa:
            for b in fa:
                for c in fa:
                    fcases.append({'ins': [a, b], 'outs': [c]})
                    fcases.append({'ins': [a], 'outs': [b, c]})
        ctx.pmap('fee', fcases)
    if want('words'):
        ctx.pmap('words', ['SAT', 'Sat', 'XYZ', 'bitcoin', 'satoshi', 'BTCX', 'mXYZ', 'Msat', 'ksat', 'Da'])

    ctx.note('bounds', {
        'tier': ctx.tier,
        'windows_main_dens': '[0,2^%d) + top 2^%d of the supply' % ((18, 14) if q else (20, 16)),
        'windows_scaled_dens': '[0,2^%d) + top 2^%d of the supply' % ((13, 11) if q else (20, 16)),
        'binade_windows': '2^k +- %d and a seed-positioned window of %d inside [2^k,2^(k+1)) for k=21..50, '
                          'plus 2^24 main units +- %d' % ((32, 256, 128) if q else (512, 8192, 2048)),
        'k10': 'k*10^j +-{0,1,2}, j<=15, k<=999 (quick: k<=99 for scaled denominators)',
        'denominators': SYMS, 'networks': rnets.NAMES,
        'forms': list(FORMS), 'max_amount': SUPPLY})
