"""C17 Amount conversion is exact to the smallest unit.

E1 input-space enumeration on the real `bitcoinlib.values` / `bitcoinlib.transactions` code against exact
integer / rational arithmetic.  The oracle never uses binary floating point: an amount is an integer number
of smallest units `n`; its text in a denominator `10**d` is the decimal string of `n * 10**(-8-d)`.

Call sites (the first component of every deviation signature):
    value_to_satoshi(str)            value_to_satoshi(str,network)      Value(str).value_sat
    Value(num,den).value_sat         from_satoshi.value_sat             from_satoshi.str
    roundtrip(str->parse)            Output(value=str) / Input(value=str) / Output(value=Value)
    Output(value=float) / add_output(float) / Output(value=int).raw / tx.fee
    output forms of one Value object (sub-space `views`): Value.to_bytes|byteorder=.. Value.to_hex|byteorder=..
    hex(Value) index(Value) int(Value) float(Value) repr(Value) Value.value_sat str(Value)
    Value.str(own|auto|1|symbol)|currency_repr=.. Value.str_unit|currency_repr=.. Value.str_auto|currency_repr=..
"""
import math
from fractions import Fraction

from vf.ref import nets as rnets
from vf.ref import tx as rtx

ID = 'C17'
LEVEL = 'exploration'
RULE = ('every integer amount n of the stated windows/alphabets (0..2^20, the top of the supply, k*10^j +-{0,1,2}, '
        'windows around and inside every binade 2^21..2^50) is combined with every one of the 20 denominator '
        'symbols: the exact decimal text of n in that denominator is parsed by the library, n is converted by '
        'from_satoshi, formatted by Value.str (default decimals and the number of decimals one smallest unit '
        'needs) and parsed back; plus string-form, numeric-denominator, network/currency-code and transaction '
        'Input/Output alphabets (full products); plus, for Value objects made by three routes (from_satoshi, '
        'from_satoshi with a denominator, text) on every network, every output form of the object (to_bytes and '
        'to_hex with every length x byte order x calling convention, hex, index, int, float, repr, str, str_unit, '
        'str_auto, str with own/auto/unit/symbol denominator x decimals x currency_repr) and every sequence of two '
        '(thorough: three) such calls on one object. Expected values are computed with Python integers/Fractions. '
        'A case is non-trivial when the library returned a value that was compared with the oracle (refusals and '
        'formats with too few decimals to show one unit are counted as evaluations only). distinct_nontrivial is '
        'counted conservatively: one per distinct (sub-space, denominator, block of 64 consecutive amounts) for '
        'the integer windows and one per distinct case elsewhere; the number of distinct (denominator, amount) '
        'pairs compared is reported separately as coverage.distinct_den_amount_pairs (windows are made disjoint '
        'by interval union before they are dispatched, so that number is a count, not an estimate).')
ASSUMPTIONS = [
    'trusted base: Python int/Fraction arithmetic, str<->int conversion; the table of 20 denominator symbols and '
    'their powers of ten is written down here from the SI prefixes and the Bitcoin unit names (sat, fin, msat, '
    'µsat), not read from the library; currency codes come from the pinned golden network table',
    'the smallest unit is 1e-8 of the main unit on all eleven networks (checked against the golden table)',
    'amounts are bounded by 21e14 smallest units on every network (the quantifier of the property)',
    'the round-trip law and the exactness of formatted text are only demanded when the formatted string has enough '
    'decimals to show the amount (otherwise counted as not_demanded); text with more decimals than one smallest '
    'unit (msat, µsat, n) only has to be within half a unit, i.e. has to read back as the same integer',
    'strings that denote a fraction of the smallest unit only have to convert to an integer less than one unit '
    'away (the rounding direction is not demanded)',
    'refusals (exceptions) are accepted for negative, non-finite and non-integral numbers on the way into a '
    'serialised transaction; refusing a supported denominator symbol or the network\'s own currency code is a '
    'deviation because the formatted text of an amount can then not be parsed back',
    'only documented argument types are demanded: Transaction.add_output(Value|str) (documented type int) and '
    'unknown unit words such as "SAT" are observed and reported as outcome labels, not judged',
    'Value.str(\'\') refuses the empty symbol although Value(x, \'\') accepts it; the check uses the numeric '
    'denominator 1 for the main unit when formatting',
    'output forms (views): to_bytes/to_hex of an amount that does not fit the requested length (or is negative) '
    'must be refused (any exception); only even to_hex lengths are enumerated (the documented meaning of the '
    'argument is the length of the text); upper/lower case of the hexadecimal text is not demanded; int(Value) is '
    'the whole number of main units and float(Value) the double nearest to the amount in main units (both '
    'documented by example in the class docstring); the unit text of a formatted amount has to be the requested '
    'denominator symbol followed by the currency code / symbol / plural name of the golden network table, except '
    'that sat, msat and µsat on bitcoin carry no currency text (pinned by the library\'s tests); with the '
    'automatic denominator any of the 20 symbols is accepted and the number is judged in that denominator; '
    'arithmetic on Value objects (+ - * /) is not part of this property and not enumerated',
    'Transaction(inputs, outputs) must refuse outputs that exceed the inputs; the sign of Transaction.fee for '
    'transactions assembled step by step (add_input/add_output/update_totals) is left to C07',
]

# ----------------------------------------------------------------------------------------------------------
# independent oracle
DEN_EXP = [('µsat', -14), ('msat', -11), ('n', -9), ('sat', -8), ('fin', -7), ('µ', -6), ('m', -3), ('c', -2),
           ('d', -1), ('', 0), ('da', 1), ('h', 2), ('k', 3), ('M', 6), ('G', 9), ('T', 12), ('P', 15), ('E', 18),
           ('Z', 21), ('Y', 24)]
DEN = dict(DEN_EXP)
SYMS = [s for s, _ in DEN_EXP]
UNIT = 8                     # decimals of the main unit on every network
SUPPLY = 21 * 10 ** 14
TOP = 1 << 50                # amounts >= 2^50 sat: neighbouring doubles are 0.25 sat apart


def den_class(sym):
    """unit: factor 1.0; smallest: the network denominator itself (factors cancel); scaled: everything else."""
    if sym in ('', 1, 1.0):
        return 'unit'
    if sym in ('sat', None):
        return 'smallest'
    return 'scaled'


def shift_of(sym):
    return DEN[sym] + UNIT if sym is not None else 0


def exact_str(n, shift, pad=False):
    """Decimal text of n smallest units in a denominator that needs `shift` decimals for one unit."""
    a = abs(n)
    if shift <= 0:
        s = str(a * 10 ** (-shift))
    else:
        t = str(a).rjust(shift + 1, '0')
        ip, fp = t[:-shift], t[-shift:]
        if not pad:
            fp = fp.rstrip('0')
        s = ip + ('.' + fp if fp else '')
    return ('-' if n < 0 else '') + s


def text_units(num, shift):
    """(digits, e): the decimal text `num` in that denominator is exactly digits * 10**e smallest units."""
    neg = num.startswith('-')
    s = num.lstrip('+-')
    ip, _, fp = s.partition('.')
    digits = int((ip + fp) or '0')
    return (-digits if neg else digits), shift - len(fp)


def text_check(num, shift, n):
    """None when the text has too few decimals to show n; else the text read as (nearest) integer of units."""
    digits, e = text_units(num, shift)
    if e > 0:
        if n % (10 ** e):
            return None
        return digits * 10 ** e
    if e == 0:
        return digits
    p = 10 ** (-e)
    q, r = divmod(digits, p)
    if 2 * r > p or (2 * r == p and q % 2):
        q += 1
    return q


def unit_text(sym, cur):
    return sym + cur


def numeric_den(sym):
    d = DEN[sym]
    return 10 ** d if d >= 0 else float('1e%d' % d)


CODES = {n: rnets.NETS[n]['currency_code'] for n in rnets.NAMES}


def nets_of_code(code):
    return [n for n in rnets.NAMES if CODES[n] == code]


def collides_with_code(sym, cur):
    """The unit text sym+cur is, ignoring case, the currency code of some network (TBTC ~ tBTC, TDOGE ~ tDOGE)."""
    if not sym:
        return False
    u = (sym + cur).upper()
    return any(c.upper() == u for c in CODES.values())


def selftest():
    rnets.selftest()
    rtx.selftest()
    assert len(DEN) == 20
    for n in rnets.NAMES:
        assert rnets.NETS[n]['denominator'] == 1e-08, n
    assert exact_str(1, 8) == '0.00000001' and exact_str(123456789, 8) == '1.23456789'
    assert exact_str(100000000, 8) == '1' and exact_str(100000000, 8, pad=True) == '1.00000000'
    assert exact_str(5, 0) == '5' and exact_str(5, -3) == '5000' and exact_str(12, 1) == '1.2'
    assert exact_str(-15, 1) == '-1.5' and exact_str(0, 8) == '0' and exact_str(1200000, 5) == '12'
    assert exact_str(SUPPLY, 32) == '0.000000000000000021'
    assert text_units('12.00000', 5) == (1200000, 0) and text_check('12.00000', 5, 1200000) == 1200000
    assert text_check('0.00012000', 8, 12000) == 12000
    assert text_check('0.12712750', 20, 12712750 * 10 ** 12) == 12712750 * 10 ** 12
    assert text_check('0.12712750', 20, 12712750 * 10 ** 12 + 1) is None
    assert text_check('12300', -3, 12) == 12 and text_check('12500', -3, 12) == 12 and text_check('13500', -3, 14) == 14
    assert text_check('2099999999999999488', -3, SUPPLY - 1) == SUPPLY - 1
    # cross-check the string oracle against Fractions on a grid
    for sym, d in DEN_EXP:
        for n in (0, 1, 7, 10, 12345, 10 ** 8, 10 ** 12 + 1, SUPPLY - 1, SUPPLY):
            s = exact_str(n, d + UNIT)
            assert Fraction(s) * Fraction(10) ** d * 10 ** UNIT == n, (sym, n, s)
            assert text_check(exact_str(n, d + UNIT, pad=True), d + UNIT, n) == n
    assert collides_with_code('T', 'BTC') and collides_with_code('T', 'DOGE') and not collides_with_code('T', 'LTC')
    assert not collides_with_code('m', 'BTC') and nets_of_code('tBTC') == ['testnet', 'testnet4']
    assert den_class('') == 'unit' and den_class('sat') == 'smallest' and den_class('m') == 'scaled'
    # serialisation oracle against published constants: 21e6 BTC and 15 sat as 8-byte amounts, hex()
    assert ser_amount(SUPPLY, 8, 'little').hex() == '0040075af0750700'
    assert ser_amount(SUPPLY, 8, 'big').hex() == '000775f05a074000' == '%016x' % SUPPLY
    assert ser_amount(15, 8, 'little').hex() == '0f00000000000000' and ser_amount(1, 1, 'big') == b'\x01'
    assert ser_amount(256, 1, 'big') is None and ser_amount(-1, 8, 'little') is None and ser_amount(0, 0, 'big') == b''
    assert ser_amount(5000000000, 8, 'little').hex() == '00f2052a01000000'        # the 50 BTC of the genesis block
    for n in (0, 1, 255, 256, 0x3c336080, SUPPLY):
        assert '0x' + hex_digits(n) == hex(n)
        for k in (7, 8, 16):
            assert ser_amount(n, k, 'big') == n.to_bytes(k, 'big') and ser_amount(n, k, 'little') == n.to_bytes(k, 'little')
    assert hex_digits(1010000000) == '3c336080'                                    # docstring example 10.1 BTC
    for net in rnets.NAMES:
        for f in CREPR.values():
            assert isinstance(rnets.NETS[net][f], str) and rnets.NETS[net][f], (net, f)
    assert len(view_alphabet('full')) > 150 and all(v in view_alphabet(k) for v in view_alphabet('hist') for k in ('full', 'text'))
    assert all(v in view_alphabet('full') for v in view_alphabet('text'))


# ----------------------------------------------------------------------------------------------------------
# deviation classifiers (the complete, finite set of signatures is produced here)
class Rec:
    def __init__(self):
        self.devs = {}
        self.out = {}
        self.n = 0
        self.nt = set()

    def dev(self, sig, detail):
        d = self.devs.get(sig)
        if d is None:
            self.devs[sig] = {'sig': sig, 'detail': dict(detail, count_in_case=1)}
        else:
            d['detail']['count_in_case'] += 1

    def o(self, label, k=1):
        self.out[label] = self.out.get(label, 0) + k

    def result(self, ret=None):
        return {'devs': list(self.devs.values()), 'n': self.n, 'nt': sorted(self.nt), 'out': self.out, 'ret': ret}


def cls_int(site, sym, n, got):
    """A wrong integer.  The only explained class is the binary-float one: exactly one unit, amount >= 2^50."""
    mag = 'n>=2^50' if abs(n) >= TOP else 'n<2^50'
    err = 'off_by_1' if abs(got - n) == 1 else 'err_other'
    return '%s|den=%s|%s|%s' % (site, den_class(sym), mag, err)


def judge_parse(rec, site, sym, cur, n, s, fn, shift, netarg=None):
    """Run a parsing call site on text s (exactly n units in denominator sym) and classify."""
    rec.n += 1
    try:
        got = fn()
    except Exception as e:
        msg = str(e)
        if sym == 'da' and isinstance(e, ValueError) and 'Currency symbol not recognised' in msg:
            rec.dev('%s|den=da|refused_symbol_not_recognised' % site, {'text': s, 'exc': repr(e)})
            rec.o('refused_da')
        elif netarg and collides_with_code(sym, cur) and isinstance(e, ValueError) and 'different network' in msg:
            rec.dev('%s|den=%s|prefix+code_read_as_other_currency_then_refused' % (site, sym),
                    {'text': s, 'network': netarg, 'exc': repr(e)})
            rec.o('refused_prefix_code_collision')
        elif netarg and own_code_on_alias(netarg, cur) and isinstance(e, ValueError) and \
                'different network' in msg:
            rec.dev('%s|own_currency_code_refused|network_shares_code' % site,
                    {'text': s, 'network': netarg, 'exc': repr(e)})
            rec.o('refused_own_code_alias_network')
        else:
            rec.dev('%s|den=%s|raises_%s' % (site, den_class(sym), type(e).__name__), {'text': s, 'exc': repr(e)})
            rec.o('raised')
        return None
    if type(got) is not int:
        rec.dev('%s|den=%s|returns_%s' % (site, den_class(sym), type(got).__name__), {'text': s, 'got': repr(got)})
        rec.o('non_int')
        return got
    if got == n:
        rec.o('exact')
        return got
    if collides_with_code(sym, cur) and not netarg:
        # the numeric part was read in the main unit of the *other* network (and rounded to its smallest unit)
        digits, e = text_units(s.split(' ')[0], UNIT)
        if abs(got - Fraction(digits) * Fraction(10) ** e) < 1:
            rec.dev('%s|den=%s|prefix+code_read_as_other_currency' % (site, sym),
                    {'text': s, 'expected': n, 'got': got})
            rec.o('misread_prefix_code_collision')
            return got
    sig = cls_int(site, sym, n, got)
    rec.dev(sig, {'text': s, 'expected': n, 'got': got})
    rec.o('float_off_by_1_top_binade' if sig.endswith('n>=2^50|off_by_1') else 'wrong')
    return got


def own_code_on_alias(net, cur):
    """cur is the currency code of `net` (or no code is given, which means the same) and an earlier network
    of the table has the same code."""
    own = CODES.get(net)
    return cur in (own, '') and nets_of_code(own)[0] != net


# ----------------------------------------------------------------------------------------------------------
# sub-space: integer windows x denominator
def _amounts(case):
    if 'pts' in case:
        return case['pts']
    return range(case['lo'], case['hi'])


def sub_win(case):
    """case = {'den': sym, 'lo','hi' | 'pts': [...]} ; default network, currency code BTC.

    For every amount n: parse the exact text; from_satoshi(n, sym).value_sat; .str(sym) with default decimals
    and with the needed decimals; parse the formatted text back."""
    from bitcoinlib.values import Value, value_to_satoshi
    sym = case['den']
    shift = shift_of(sym)
    cur = 'BTC'
    ut = unit_text(sym, cur)
    strden = sym if sym else 1
    rec = Rec()
    pairs = 0
    for n in _amounts(case):
        s = exact_str(n, shift) + ' ' + ut
        got = judge_parse(rec, 'value_to_satoshi(str)', sym, cur, n, s, lambda: value_to_satoshi(s), shift)
        compared = got is not None
        # ---- from_satoshi
        rec.n += 1
        try:
            v = Value.from_satoshi(n, sym)
            vs = v.value_sat
        except Exception as e:
            rec.dev('from_satoshi.value_sat|den=%s|raises_%s' % (den_class(sym), type(e).__name__),
                    {'n': n, 'den': sym, 'exc': repr(e)})
            rec.o('raised')
            continue
        compared = True
        if vs == n and type(vs) is int:
            rec.o('exact')
        else:
            sig = cls_int('from_satoshi.value_sat', sym, n, vs) if type(vs) is int else \
                'from_satoshi.value_sat|den=%s|returns_%s' % (den_class(sym), type(vs).__name__)
            rec.dev(sig, {'n': n, 'den': sym, 'got': repr(vs)})
            rec.o('float_off_by_1_top_binade' if sig.endswith('n>=2^50|off_by_1') else 'wrong')
        # ---- format (default decimals; and exactly the decimals one unit needs when the default is fewer)
        for decimals in (None, shift):
            if decimals is not None and (shift <= 8):
                continue      # default already shows min(shift, 8) decimals
            rec.n += 1
            try:
                txt = v.str(strden) if decimals is None else v.str(strden, decimals=decimals)
                num, _, unit = txt.partition(' ')
                t = text_check(num, shift, n)
            except Exception as e:
                rec.dev('from_satoshi.str|den=%s|raises_%s' % (den_class(sym), type(e).__name__),
                        {'n': n, 'den': sym, 'decimals': decimals, 'exc': repr(e)})
                rec.o('raised')
                continue
            if t is None:
                rec.o('not_demanded_too_few_decimals')
                continue
            if t == n:
                rec.o('exact')
            else:
                sig = cls_int('from_satoshi.str', sym, n, t)
                rec.dev(sig, {'n': n, 'den': sym, 'decimals': decimals, 'text': txt})
                rec.o('float_off_by_1_top_binade' if sig.endswith('n>=2^50|off_by_1') else 'wrong')
            # ---- round trip of the library's own text
            judge_parse(rec, 'roundtrip(str->parse)', sym, cur, n, txt, lambda: value_to_satoshi(txt), shift)
        if compared:
            pairs += 1
            rec.nt.add('%s:%d' % (sym, n >> 6))
    return rec.result(pairs)


# ----------------------------------------------------------------------------------------------------------
# sub-space: textual forms (<= 3 significant digits at every position of the frame)
FORMS = ('minimal', 'padded', 'plus_leading_zeros', 'no_leading_zero')


def _form(n_num, n_exp, shift, form):
    """text of k*10^j units (k=n_num, j=n_exp; j<0 = fraction of a unit) in the denominator, in a given form."""
    # value in denominator = k * 10^(j - shift)
    e = n_exp - shift
    if e >= 0:
        ip, fp = str(n_num * 10 ** e), ''
    else:
        t = str(n_num).rjust(-e + 1, '0')
        ip, fp = t[:e], t[e:]
    if form == 'minimal':
        fp = fp.rstrip('0')
    elif form == 'padded':
        fp = fp.ljust(max(shift, 0) + (3 if n_exp < 0 else 0), '0')
    elif form == 'plus_leading_zeros':
        fp = fp.rstrip('0')
        ip = '+00' + ip
    elif form == 'no_leading_zero':
        fp = fp.rstrip('0')
        if ip == '0' and fp:
            ip = ''
    return ip + ('.' + fp if fp else '')


def sub_forms(case):
    """case = {'den': sym, 'cur': code|'' , 'net': network name, 'ks': [k...], 'jmin': j, 'lower': bool}."""
    from bitcoinlib.values import Value, value_to_satoshi
    sym = case['den']
    cur = case['cur']
    net = case['net']
    shift = shift_of(sym)
    rec = Rec()
    code = cur.lower() if case.get('lower') else cur
    ut = unit_text(sym, code)
    for k in case['ks']:
        for j in range(case['jmin'], 16):
            if j >= 0 and k * 10 ** j > SUPPLY:
                break
            for form in case.get('forms', FORMS):
                num = _form(k, j, shift, form)
                s = num + (' ' + ut if ut else '')
                if j >= 0:
                    n = k * 10 ** j
                    key = '%s|%s|%s|%d|%s|%d' % (sym, code, net, n, form, 0)
                    a = judge_parse(rec, 'value_to_satoshi(str,network)', sym, cur, n, s,
                                    lambda: value_to_satoshi(s, network=net), shift, netarg=net)
                    b = judge_parse(rec, 'Value(str).value_sat', sym, cur, n, s,
                                    lambda: Value(s, network=net).value_sat, shift)
                    if net == 'bitcoin' or cur:
                        c = judge_parse(rec, 'value_to_satoshi(str)', sym, cur, n, s,
                                        lambda: value_to_satoshi(s), shift)
                    else:
                        c = None
                    if a is not None or b is not None or c is not None:
                        rec.nt.add(key)
                else:
                    # a fraction of the smallest unit: any integer less than one unit away is accepted
                    ex = Fraction(k, 10 ** (-j))
                    rec.n += 1
                    try:
                        got = Value(s, network=net).value_sat
                    except Exception as e:
                        if sym == 'da' or collides_with_code(sym, cur):
                            rec.o('refused_da' if sym == 'da' else 'refused_prefix_code_collision')
                        else:
                            rec.dev('Value(str).value_sat|subunit|raises_%s' % type(e).__name__,
                                    {'text': s, 'exc': repr(e)})
                        continue
                    if collides_with_code(sym, cur):
                        rec.o('misread_prefix_code_collision')
                        continue
                    if type(got) is int and abs(got - ex) < 1:
                        rec.o('subunit_rounded_%s' % ('down' if got < ex else 'up' if got > ex else 'exact'))
                        rec.nt.add('%s|%s|%s|%d/%d|%s' % (sym, code, net, k, -j, form))
                    else:
                        rec.dev('Value(str).value_sat|subunit|off_by_ge_1_or_non_int', {'text': s, 'got': repr(got)})
    return rec.result()


# ----------------------------------------------------------------------------------------------------------
# sub-space: numeric values with symbolic and numeric denominators
def sub_numeric(case):
    """case = {'den': sym, 'pts': [n...]} : Value(k, den) for integer k (and the float nearest to the decimal)
    in units of den, den given as symbol and as number; from_satoshi with the numeric denominator."""
    from bitcoinlib.values import Value
    sym = case['den']
    shift = shift_of(sym)
    nd = numeric_den(sym)
    rec = Rec()
    for n in case['pts']:
        did = False
        # integer count of den units, when n is a whole number of them
        if shift <= 0:
            k = n * 10 ** (-shift)
        elif n % 10 ** shift == 0:
            k = n // 10 ** shift
        else:
            k = None
        cands = []
        if k is not None:
            cands.append(('int', k))
        cands.append(('float', float(exact_str(n, shift))))
        for kind, kv in cands:
            for dform, dv in (('symbol', sym), ('number', nd)):
                rec.n += 1
                try:
                    got = Value(kv, dv).value_sat
                except Exception as e:
                    rec.dev('Value(num,den).value_sat|den=%s|raises_%s' % (den_class(sym), type(e).__name__),
                            {'value': repr(kv), 'den': repr(dv), 'exc': repr(e)})
                    rec.o('raised')
                    continue
                did = True
                if got == n and type(got) is int:
                    rec.o('exact')
                else:
                    sig = cls_int('Value(num,den).value_sat', sym, n, got) if type(got) is int else \
                        'Value(num,den).value_sat|den=%s|returns_%s' % (den_class(sym), type(got).__name__)
                    rec.dev(sig, {'value': repr(kv), 'den': repr(dv), 'expected': n, 'got': repr(got)})
                    rec.o('float_off_by_1_top_binade' if sig.endswith('n>=2^50|off_by_1') else 'wrong')
        # from_satoshi with a numeric denominator, formatted with the numeric denominator
        rec.n += 1
        try:
            v = Value.from_satoshi(n, nd)
            got = v.value_sat
            txt = v.str(nd, decimals=max(shift, 0))
            t = text_check(txt.split(' ')[0], shift, n)
        except Exception as e:
            rec.dev('from_satoshi.value_sat|den=%s|raises_%s' % (den_class(sym), type(e).__name__),
                    {'n': n, 'den': repr(nd), 'exc': repr(e)})
            rec.o('raised')
            continue
        did = True
        if got == n and type(got) is int:
            rec.o('exact')
        else:
            sig = cls_int('from_satoshi.value_sat', sym, n, got)
            rec.dev(sig, {'n': n, 'den': repr(nd), 'got': repr(got)})
            rec.o('float_off_by_1_top_binade' if sig.endswith('n>=2^50|off_by_1') else 'wrong')
        rec.n += 1
        if t == n:
            rec.o('exact')
        else:
            sig = cls_int('from_satoshi.str', sym, n, t)
            rec.dev(sig, {'n': n, 'den': repr(nd), 'text': txt})
            rec.o('float_off_by_1_top_binade' if sig.endswith('n>=2^50|off_by_1') else 'wrong')
        if did:
            rec.nt.add('%s:%d' % (sym, n))
    return rec.result()


# ----------------------------------------------------------------------------------------------------------
# sub-space: networks and currency codes
def sub_nets(case):
    """case = {'net': name, 'den': sym, 'pts': [...]}: format on the network, parse without and with network."""
    from bitcoinlib.values import Value, value_to_satoshi
    net = case['net']
    sym = case['den']
    cur = CODES[net]
    shift = shift_of(sym)
    strden = sym if sym else 1
    rec = Rec()
    for n in case['pts']:
        did = False
        rec.n += 1
        try:
            v = Value.from_satoshi(n, sym, network=net)
            txt = v.str(strden, decimals=max(shift, 0))
        except Exception as e:
            rec.dev('from_satoshi.str|den=%s|raises_%s' % (den_class(sym), type(e).__name__),
                    {'n': n, 'den': sym, 'network': net, 'exc': repr(e)})
            continue
        t = text_check(txt.split(' ')[0], shift, n)
        if t == n:
            rec.o('exact')
        else:
            sig = cls_int('from_satoshi.str', sym, n, t)
            rec.dev(sig, {'n': n, 'den': sym, 'network': net, 'text': txt})
            rec.o('float_off_by_1_top_binade' if sig.endswith('n>=2^50|off_by_1') else 'wrong')
        texts = [('own', txt), ('exact', exact_str(n, shift) + ' ' + unit_text(sym, cur))]
        if t != n:
            texts = texts[1:]       # the library's own text is already wrong; judged above
        for kind, s in texts:
            # without a network argument the currency code selects the network
            site_a = 'roundtrip(str->parse)' if kind == 'own' else 'Value(str).value_sat'
            site_b = 'roundtrip(str->parse)' if kind == 'own' else 'value_to_satoshi(str,network)'
            rec.n += 1
            try:
                vv = Value(s)
                got = vv.value_sat
                gnet = vv.network.name
            except Exception as e:
                judge_parse(rec, site_a, sym, cur, n, s, lambda: Value(s).value_sat, shift)
                rec.n -= 1
            else:
                did = True
                if got == n and gnet in nets_of_code(cur):
                    rec.o('exact')
                elif got == n:
                    rec.dev('Value(str).network|code_of_%s_selected_other_currency' % (
                        'prefix+code_collision' if collides_with_code(sym, cur) else 'plain'),
                        {'text': s, 'network': gnet, 'expected_one_of': nets_of_code(cur)})
                else:
                    judge_parse(rec, site_a, sym, cur, n, s, lambda: Value(s).value_sat, shift)
                    rec.n -= 1
            # with the network argument (what Input/Output do)
            a = judge_parse(rec, site_b, sym, cur, n, s,
                            lambda: value_to_satoshi(s, network=net), shift, netarg=net)
            did = did or a is not None
        if did:
            rec.nt.add('%s|%s|%d' % (net, sym, n))
    return rec.result()


# ----------------------------------------------------------------------------------------------------------
# sub-space: amounts into transactions
_LS = bytes.fromhex('76a914' + '11' * 20 + '88ac')
_PREV = 'aa' * 32


def _mkval(spec):
    """spec -> (python value handed to the library, exact Fraction or None (=not a number), kind)."""
    from bitcoinlib.values import Value
    kind = spec[0]
    if kind == 'int':
        return spec[1], Fraction(spec[1]), kind
    if kind == 'float':
        f = float(spec[1])
        return f, (Fraction(f) if math.isfinite(f) else None), kind
    if kind == 'str':                      # ['str', n, sym, cur]
        n, sym, cur = spec[1], spec[2], spec[3]
        s = exact_str(n, shift_of(sym)) + ((' ' + unit_text(sym, cur)) if (sym or cur) else '')
        return s, Fraction(n), kind
    if kind == 'substr':                   # ['substr', k, sym]  k tenths of a smallest unit
        s = exact_str(spec[1], shift_of(spec[2]) + 1) + ' ' + unit_text(spec[2], 'BTC')
        return s, Fraction(spec[1], 10), kind
    if kind == 'Value':                    # ['Value', n, sym]
        return Value(exact_str(spec[1], shift_of(spec[2])) + ' ' + unit_text(spec[2], 'BTC')), Fraction(spec[1]), kind
    if kind == 'Value.from_satoshi':
        return Value.from_satoshi(spec[1]), Fraction(spec[1]), kind
    if kind == 'Decimal':                  # ['Decimal', text]
        from decimal import Decimal
        return Decimal(spec[1]), Fraction(spec[1]), kind
    if kind == 'Fraction':                 # ['Fraction', numerator, denominator]
        return Fraction(spec[1], spec[2]), Fraction(spec[1], spec[2]), kind
    raise ValueError(kind)


def sub_txout(case):
    """case = {'spec': [...], 'net': name}.  The amount goes into Output(), Input() and Transaction.add_output();
    the transaction is serialised and the 8-byte amount is read back with the reference parser."""
    from bitcoinlib.transactions import Output, Input, Transaction
    spec = case['spec']
    net = case.get('net', 'bitcoin')
    rec = Rec()
    val, ex, kind = _mkval(spec)
    sym = spec[2] if kind in ('str', 'substr', 'Value') else ('sat' if kind in ('int', 'Value.from_satoshi') else None)
    cur = spec[3] if kind == 'str' else 'BTC'
    integral = ex is not None and ex.denominator == 1
    ok_amount = integral and 0 <= ex < (1 << 64)
    n = int(ex) if integral else None
    site0 = 'Output(value=%s)' % kind
    documented = kind in ('int', 'str', 'Value', 'Value.from_satoshi', 'substr')

    def in_output(site, mk):
        """mk() -> Transaction with one output.  Classify what ends up in the output / on the wire."""
        rec.n += 1
        stage = 'construct'
        try:
            t = mk()
            stage = 'raw'
            oval = t.outputs[0].value
            raw = t.raw()
            wire = rtx.parse(raw).vout[0]['value']
        except Exception as e:
            msg = str(e)
            if not ok_amount:
                rec.o('refused_bad_amount_at_%s' % stage)
                return
            if kind in ('str', 'Value') and sym == 'da' and 'Currency symbol not recognised' in msg:
                rec.dev('%s|den=da|refused_symbol_not_recognised' % site, {'value': repr(val), 'exc': repr(e)})
                rec.o('refused_da')
            elif kind == 'str' and collides_with_code(sym, cur) and 'different network' in msg:
                rec.dev('%s|den=%s|prefix+code_read_as_other_currency_then_refused' % (site, sym),
                        {'value': repr(val), 'exc': repr(e)})
                rec.o('refused_prefix_code_collision')
            elif kind == 'str' and own_code_on_alias(net, cur) and 'different network' in msg:
                rec.dev('%s|own_currency_code_refused|network_shares_code' % site,
                        {'value': repr(val), 'network': net, 'exc': repr(e)})
                rec.o('refused_own_code_alias_network')
            else:
                rec.dev('%s|valid_amount_refused_at_%s|%s' % (site, stage, type(e).__name__),
                        {'value': repr(val), 'exc': repr(e)})
            return
        rec.nt.add('%s|%s|%r' % (site, net, spec))
        if not ok_amount:
            if kind == 'substr':
                # a fraction of a unit given as text: rounding to a neighbour integer is accepted
                if type(oval) is int and oval == wire and abs(oval - ex) < 1 and wire >= 0:
                    rec.o('subunit_text_rounded')
                else:
                    rec.dev('%s|subunit_text|off_by_ge_1_or_non_int' % site, {'value': repr(val), 'output_value': repr(oval), 'wire': wire})
                return
            cl = 'negative' if (ex is not None and ex < 0) else 'non_integer' if ex is not None else 'non_finite'
            if ex is not None and ex >= (1 << 64):
                cl = 'too_large'
            rec.dev('%s|%s_amount_serialised|output_value_kept_as_given' % (site, cl),
                    {'value': repr(val), 'output_value': repr(oval), 'wire': wire})
            rec.o('bad_amount_serialised')
            return
        if oval == n and wire == n:
            rec.o('exact')
            return
        if type(oval) is int and oval == wire:
            if kind in ('str', 'Value'):
                sig = cls_int(site, sym, n, oval)
            else:
                sig = '%s|wrong_amount|%s' % (site, 'off_by_1' if abs(oval - n) == 1 else 'err_other')
        else:
            sig = '%s|output_value_and_wire_differ' % site
        rec.dev(sig, {'value': repr(val), 'expected': n, 'output_value': repr(oval), 'wire': wire})
        rec.o('float_off_by_1_top_binade' if sig.endswith('n>=2^50|off_by_1') else 'wrong')

    def mk_output():
        o = Output(val, lock_script=_LS, network=net)
        t = Transaction(outputs=[o], network=net, witness_type='legacy')
        t.add_input(_PREV, 0)
        return t

    def mk_add_output():
        t = Transaction(network=net, witness_type='legacy')
        t.add_input(_PREV, 0)
        t.add_output(val, lock_script=_LS)
        return t

    if documented or kind == 'float':
        in_output(site0, mk_output)
    if kind in ('int', 'float'):
        in_output('add_output(%s)' % kind, mk_add_output)
    else:
        # documented type of add_output is int: observed only
        rec.n += 1
        try:
            t = mk_add_output()
            rec.o('add_output(%s)_undocumented_type:%s' % (kind, 'exact' if t.outputs[0].value == n else 'other_amount'))
        except Exception:
            rec.o('add_output(%s)_undocumented_type:refused' % kind)
    # ---- Input(value=...)
    if documented:
        rec.n += 1
        site = 'Input(value=%s)' % kind
        try:
            i = Input(_PREV, 0, value=val, network=net)
            got = i.value
        except Exception as e:
            msg = str(e)
            if kind in ('str', 'Value') and sym == 'da' and 'Currency symbol not recognised' in msg:
                rec.dev('%s|den=da|refused_symbol_not_recognised' % site, {'value': repr(val), 'exc': repr(e)})
            elif kind == 'str' and collides_with_code(sym, cur) and 'different network' in msg:
                rec.dev('%s|den=%s|prefix+code_read_as_other_currency_then_refused' % (site, sym),
                        {'value': repr(val), 'exc': repr(e)})
            elif kind == 'str' and own_code_on_alias(net, cur) and 'different network' in msg:
                rec.dev('%s|own_currency_code_refused|network_shares_code' % site,
                        {'value': repr(val), 'network': net, 'exc': repr(e)})
            elif integral:
                rec.dev('%s|valid_amount_refused|%s' % (site, type(e).__name__), {'value': repr(val), 'exc': repr(e)})
            else:
                rec.o('input_refused')
        else:
            rec.nt.add('%s|%s|%r' % (site, net, spec))
            if integral:
                if got == n and type(got) is int:
                    rec.o('exact')
                else:
                    sig = cls_int(site, sym, n, got) if type(got) is int and kind in ('str', 'Value') else \
                        '%s|wrong_amount' % site
                    rec.dev(sig, {'value': repr(val), 'expected': n, 'got': repr(got)})
                    rec.o('float_off_by_1_top_binade' if sig.endswith('n>=2^50|off_by_1') else 'wrong')
            elif kind == 'substr':
                if type(got) is int and abs(got - ex) < 1:
                    rec.o('subunit_text_rounded')
                else:
                    rec.dev('%s|subunit_text|off_by_ge_1_or_non_int' % site, {'value': repr(val), 'got': repr(got)})
    return rec.result()


def sub_txflags(case):
    """case = {'path': Output|add_output|Input|add_input, 'strict': bool, 'flag': bool, 'wt': witness type,
    'spec': amount spec}: constructor / flag variants.  Whatever the flags, an amount that reaches a transaction
    is stored as an int (or the call raises), raw() carries the stored value, totals and fee are ints."""
    from bitcoinlib.transactions import Output, Input, Transaction
    path, strict, flag, wt, spec = case['path'], case['strict'], case['flag'], case['wt'], case['spec']
    rec = Rec()
    val, ex, kind = _mkval(spec)
    integral = ex is not None and ex.denominator == 1
    n = int(ex) if integral else None
    site = '%s(value=%s)' % (path, kind)
    out_side = path in ('Output', 'add_output')
    other = 1000 if not out_side else 3 * 10 ** 16          # the int amount on the other side of the transaction
    rec.n += 1
    stage = 'construct'
    try:
        t = Transaction(witness_type=wt)
        if path == 'Output':
            t.outputs.append(Output(val, lock_script=_LS, strict=strict, spent=flag, change=flag))
        elif path == 'add_output':
            t.add_output(val, lock_script=_LS, strict=strict, spent=flag, change=flag)
        elif path == 'Input':
            t.inputs.append(Input(_PREV, 0, value=val, strict=strict, double_spend=flag, witness_type=wt))
        else:
            t.add_input(_PREV, 0, value=val, strict=strict, double_spend=flag)
        if out_side:
            t.add_input(_PREV, 0, value=other)
        else:
            t.add_output(other, lock_script=_LS)
        stored = t.outputs[0].value if out_side else t.inputs[0].value
        stage = 'raw'
        t.update_totals()
        wire = rtx.parse(t.raw()).vout[0]['value']
    except Exception as e:
        valid = integral and 0 <= n < (1 << 64)
        undocumented = path in ('add_output',) and kind not in ('int', 'float', 'Decimal', 'Fraction')
        if valid and not undocumented:
            rec.dev('%s|valid_amount_refused_at_%s|%s' % (site, stage, type(e).__name__),
                    {'case': case, 'exc': repr(e)[:200]})
        else:
            rec.o('refused_at_%s%s' % (stage, '_undocumented_type' if (valid and undocumented) else ''))
        return rec.result()
    rec.nt.add(repr(case))
    if path == 'add_output' and kind not in ('int', 'float', 'Decimal', 'Fraction'):
        rec.o('add_output_undocumented_type_accepted')       # documented type is int: observed only
        return rec.result()
    det = {'case': case, 'stored': repr(stored), 'wire_output': wire, 'input_total': repr(t.input_total),
           'output_total': repr(t.output_total), 'fee': repr(t.fee)}
    if not out_side and ex is not None and ex < 0:
        rec.o('negative_input_value_kept')                    # inputs are not outputs or fees: observed only
        return rec.result()
    bad = []
    if type(stored) is not int:
        bad.append('stored_%s_%s' % ('integral' if integral else 'non_integral', type(stored).__name__))
    elif kind == 'substr':
        if abs(stored - ex) >= 1:
            bad.append('subunit_text_off_by_ge_1')
    elif not integral or stored != n:
        bad.append('stored_int_differs_from_amount')
    if out_side:
        if type(stored) is int and stored < 0:
            bad.append('negative_amount_serialised')
        if wire != stored:
            bad.append('raw_differs_from_stored_value')
    for name, tot in (('input_total', t.input_total), ('output_total', t.output_total), ('fee', t.fee)):
        if tot is not None and type(tot) is not int:
            bad.append('%s_not_int' % name)
    if type(stored) is int and type(t.input_total) is int and type(t.output_total) is int and t.input_total and \
            type(t.fee) is int and t.fee != t.input_total - t.output_total:
        bad.append('fee_differs_from_totals')
    if bad:
        # the first item names the root (what is stored); consequences (totals, fee) go into the detail
        det['all'] = bad
        rec.dev('%s|%s' % (site, bad[0]), det)
        rec.o('bad_amount_in_transaction')
    else:
        rec.o('int_amount_stored_and_serialised')
    return rec.result()


def sub_fee(case):
    """case = {'ins': [specs], 'outs': [specs]}: totals and fee of a transaction are exact integers."""
    from bitcoinlib.transactions import Output, Input, Transaction
    rec = Rec()
    ins = [_mkval(s) for s in case['ins']]
    outs = [_mkval(s) for s in case['outs']]
    ti = sum(int(e) for _, e, _ in ins)
    to = sum(int(e) for _, e, _ in outs)
    rec.n += 1
    try:
        t = Transaction(inputs=[Input(_PREV, k, value=v, index_n=k) for k, (v, _, _) in enumerate(ins)],
                        outputs=[Output(v, lock_script=_LS) for v, _, _ in outs], witness_type='legacy')
    except Exception as e:
        if ti < to or (ti == to):
            rec.o('overspend_or_zero_fee_refused')
        else:
            rec.dev('tx.fee|valid_totals_refused|%s' % type(e).__name__, {'case': case, 'exc': repr(e)})
        return rec.result()
    rec.nt.add(repr(case))
    t.update_totals()
    ok = (t.input_total == ti and t.output_total == to and type(t.input_total) is int and type(t.output_total) is int)
    if ti and to and ti >= to:
        ok = ok and t.fee == ti - to and type(t.fee) is int
    elif ti and to:
        rec.dev('tx.fee|overspend_accepted', {'case': case, 'fee': repr(t.fee)})
    if ok:
        rec.o('exact')
        wire = [o['value'] for o in rtx.parse(t.raw()).vout]
        if wire != [int(e) for _, e, _ in outs]:
            rec.dev('tx.raw|output_amounts_differ', {'case': case, 'wire': wire})
    else:
        rec.dev('tx.fee|totals_or_fee_wrong', {'case': case, 'input_total': repr(t.input_total),
                                                'output_total': repr(t.output_total), 'fee': repr(t.fee)})
    return rec.result()


def sub_words(case):
    """Observation only: unit words that are not supported denominators/currency codes (not judged)."""
    from bitcoinlib.values import Value
    rec = Rec()
    rec.n += 1
    try:
        got = Value('1 ' + case).value_sat
        rec.o('unknown_unit_word_accepted_as_main_unit' if got == 10 ** 8 else 'unknown_unit_word_other')
    except Exception:
        rec.o('unknown_unit_word_refused')
    return {'n': rec.n, 'out': rec.out, 'nt': []}


# ----------------------------------------------------------------------------------------------------------
# sub-space: every output form ("view") of one Value object x every documented argument value, and call histories
SER_BO = (None, 'little', 'big')
BYTES_LEN = (None, 1, 2, 3, 4, 5, 7, 8, 9, 16)
HEX_LEN = (None, 2, 4, 6, 8, 10, 14, 16, 18, 32)            # even: the documented meaning is "length of the text"
CREPR = {'code': 'currency_code', 'symbol': 'currency_symbol', 'name': 'currency_name_plural'}
VIEW_ROUTES = ('from_satoshi', 'from_satoshi_den', 'text')


def ser_amount(n, nbytes, bo):
    """The amount as nbytes bytes in byte order bo; None when it does not fit (refusal expected)."""
    if n < 0 or nbytes < 0 or (n >> (8 * nbytes)):
        return None
    bs = [(n >> (8 * i)) & 0xff for i in range(nbytes)]
    if bo == 'big':
        bs.reverse()
    return bytes(bs)


def hex_digits(n):
    out = ''
    while True:
        n, r = divmod(n, 16)
        out = '0123456789abcdef'[r] + out
        if not n:
            return out


def view_alphabet(kind):
    """Every view call as [method, args...].  'full': all of them; 'hist': the reduced alphabet used for call
    histories; 'text': the reduced alphabet plus every formatted-text view (what depends on the network)."""
    red = [['to_bytes', None, None, 'pos'], ['to_bytes', 8, 'big', 'pos'], ['to_bytes', 4, 'little', 'kw'],
           ['to_hex', None, None, 'pos'], ['to_hex', 16, 'big', 'kw'], ['to_hex', 14, 'big', 'pos'],
           ['hex'], ['index'], ['int'], ['float'], ['repr'], ['value_sat'], ['__str__'],
           ['str', 'auto', None, None], ['str', 1, None, 'symbol'], ['str', 'm', None, 'name'],
           ['str_unit', None, None], ['str_auto', 0, 'code']]
    if kind == 'hist':
        return red
    vs = []
    if kind == 'full':
        for meth, lens in (('to_bytes', BYTES_LEN), ('to_hex', HEX_LEN)):
            for ln in lens:
                for bo in SER_BO:
                    vs.append([meth, ln, bo, 'pos'])
                    if (ln is not None or bo is not None) and ln in (None, 4, 8, 16):
                        vs.append([meth, ln, bo, 'kw'])
        vs += [['hex'], ['index'], ['int'], ['float'], ['repr'], ['value_sat'], ['__str__']]
    for crepr in (None, 'code', 'symbol', 'name'):
        for dec in (None, 0, 8):
            vs.append(['str', None, dec, crepr])
            vs.append(['str', 'auto', dec, crepr])
            vs.append(['str', 1, dec, crepr])
            vs.append(['str_unit', dec, crepr])
            vs.append(['str_auto', dec, crepr])
    for crepr in ('symbol', 'name'):
        for sym in SYMS:
            if sym:
                vs.append(['str', sym, None, crepr])
    return vs + [v for v in red if v not in vs]


def view_site(view):
    m = view[0]
    if m in ('to_bytes', 'to_hex'):
        return 'Value.%s|byteorder=%s' % (m, view[2] or 'default')
    if m == 'str':
        d = view[1]
        return 'Value.str(%s)|currency_repr=%s' % (
            'own' if d is None else 'auto' if d == 'auto' else '1' if d == 1 else 'symbol', view[3] or 'default')
    if m in ('str_unit', 'str_auto'):
        return 'Value.%s|currency_repr=%s' % (m, view[2] or 'default')
    return {'hex': 'hex(Value)', 'index': 'index(Value)', 'int': 'int(Value)', 'float': 'float(Value)',
            'repr': 'repr(Value)', 'value_sat': 'Value.value_sat', '__str__': 'str(Value)'}[m]


def _call_view(v, view):
    import operator
    m = view[0]
    if m in ('to_bytes', 'to_hex'):
        ln, bo, style = view[1], view[2], view[3]
        args, kw = [], {}
        if style == 'kw':
            if ln is not None:
                kw['length'] = ln
            if bo is not None:
                kw['byteorder'] = bo
        else:
            if ln is not None:
                args.append(ln)
            if bo is not None:
                if ln is None:
                    kw['byteorder'] = bo
                else:
                    args.append(bo)
        return getattr(v, m)(*args, **kw)
    if m in ('str', 'str_unit', 'str_auto'):
        args = [view[1]] if m == 'str' and view[1] is not None else []
        dec, crepr = view[-2], view[-1]
        kw = {}
        if dec is not None:
            kw['decimals'] = dec
        if crepr is not None:
            kw['currency_repr'] = crepr
        return getattr(v, m)(*args, **kw)
    if m == 'hex':
        return hex(v)
    if m == 'index':
        return operator.index(v)
    if m == 'int':
        return int(v)
    if m == 'float':
        return float(v)
    if m == 'repr':
        return repr(v)
    if m == 'value_sat':
        return v.value_sat
    if m == '__str__':
        return str(v)
    raise ValueError(m)


def mag_err(n, got):
    """The magnitude / error part of cls_int."""
    return '%s|%s' % ('n>=2^50' if abs(n) >= TOP else 'n<2^50', 'off_by_1' if abs(got - n) == 1 else 'err_other')


def cls_ser(exp, got, n, bo):
    """Class of a wrong serialisation (bytes) of amount n that fits: the finite set of explanations."""
    if got == exp[::-1]:
        return 'byte_order_reversed'
    if int.from_bytes(got, bo) == n:
        return 'wrong_length_same_amount'
    if len(got) == len(exp):
        return 'other_amount'
    return 'wrong_length_other_amount'


def eval_view(v, view, net, own_sym, n):
    """One view call on object v (amount n >= 0 smallest units on network net, own denominator own_sym).
    -> {'label', 'sig' (None = agrees with the oracle / not demanded), 'detail', 'got'}."""
    m = view[0]

    def res(label, cl=None, **detail):
        if cl is None:
            return {'label': label, 'sig': None, 'got': detail.get('got')}
        return {'label': label, 'sig': '%s|%s' % (view_site(view), cl),
                'detail': dict(detail, view=view, n=n, network=net, own_den=own_sym), 'got': detail.get('got')}

    try:
        got = _call_view(v, view)
        exc = None
    except Exception as e:
        got, exc = None, e
    # ---------------------------------------------------------------- bytes / hexadecimal text
    if m in ('to_bytes', 'to_hex'):
        nbytes = view[1] if view[1] is not None else (8 if m == 'to_bytes' else 16)
        if m == 'to_hex':
            nbytes //= 2
        bo = view[2] or 'little'
        exp = ser_amount(n, nbytes, bo)
        if exc is not None:
            if exp is None:
                return res('refused_amount_does_not_fit', got='refused')
            return res('raised', 'fitting_amount_refused|%s' % type(exc).__name__, got=repr(exc))
        if m == 'to_bytes':
            if type(got) is not bytes:
                return res('wrong', 'returns_%s' % type(got).__name__, got=repr(got))
            gb, shown = got, got.hex()
        else:
            if type(got) is not str:
                return res('wrong', 'returns_%s' % type(got).__name__, got=repr(got))
            try:
                gb, shown = bytes.fromhex(got), got
            except ValueError:
                return res('wrong', 'not_hexadecimal_text', got=got)
            if len(got) != 2 * len(gb):
                return res('wrong', 'not_hexadecimal_text', got=got)
        if exp is None:
            return res('wrong', 'amount_that_does_not_fit_serialised', got=shown)
        if gb == exp:
            return res('exact', got=shown)
        return res('wrong', cls_ser(exp, gb, n, bo), got=shown, expected=exp.hex(),
                   reads_back_as=int.from_bytes(gb, bo))
    # ---------------------------------------------------------------- integers / floats
    if m in ('hex', 'index', 'int', 'float', 'value_sat'):
        exp = {'hex': '0x' + hex_digits(n), 'index': n, 'value_sat': n, 'int': n // 10 ** UNIT,
               'float': n / 10 ** UNIT}[m]               # int / int: correctly rounded by Python
        if exc is not None:
            return res('raised', 'raises_%s' % type(exc).__name__, got=repr(exc))
        if type(got) is not type(exp):
            return res('wrong', 'returns_%s' % type(got).__name__, got=repr(got))
        if got == exp:
            return res('exact', got=got)
        if m in ('index', 'value_sat'):
            return res('wrong', mag_err(n, got), got=got)
        if m == 'hex':
            try:
                back = int(got, 16)
            except ValueError:
                return res('wrong', 'not_hexadecimal_text', got=got)
            return res('wrong', 'same_amount_other_text' if back == n else 'other_amount', got=got, expected=exp)
        if m == 'int':
            return res('wrong', 'not_the_whole_main_units', got=got, expected=exp)
        return res('wrong', 'not_the_double_nearest_to_the_amount_in_main_units', got=repr(got), expected=repr(exp))
    # ---------------------------------------------------------------- repr
    if m == 'repr':
        import re
        if exc is not None:
            return res('raised', 'raises_%s' % type(exc).__name__, got=repr(exc))
        mt = re.match(r"^Value\(value=(-?[0-9]+\.[0-9]+), denominator=([0-9.]+), network='([a-z0-9_]+)'\)$", str(got))
        if not mt:
            return res('wrong', 'unexplained_text', got=got)
        if mt.group(3) != net:
            return res('wrong', 'other_network', got=got)
        t = text_check(mt.group(1), UNIT, n)
        if t is None:
            return res('not_demanded_too_few_decimals', got=got)
        if t == n:
            return res('exact', got=got)
        return res('wrong', 'value_text|' + mag_err(n, t), got=got)
    # ---------------------------------------------------------------- formatted text
    if m == '__str__':
        den, crepr = None, None
    elif m == 'str':
        den, crepr = view[1], view[3]
    else:
        den, crepr = (1 if m == 'str_unit' else 'auto'), view[2]
    if exc is not None:
        if den == 'auto' and n == 0 and isinstance(exc, ValueError) and 'Denominator not found' in str(exc):
            r = res('auto_zero_refused', 'x', got=repr(exc))
            r['sig'] = 'Value.str(auto)|zero_amount|raises_ValueError_denominator_not_found'
            return r
        return res('raised', 'raises_%s' % type(exc).__name__, got=repr(exc))
    if type(got) is not str:
        return res('wrong', 'returns_%s' % type(got).__name__, got=repr(got))
    cur = rnets.NETS[net][CREPR[crepr or 'code']]
    want = SYMS if den == 'auto' else [own_sym if den is None else '' if den == 1 else den]
    num, _, unit = got.partition(' ')
    syms = [s for s in want if unit == s + ('' if ('sat' in s and net == 'bitcoin') else cur)]
    if len(syms) != 1:
        return res('wrong', 'unit_text_is_not_denominator+currency', got=got, expected_unit=want[0] + cur
                   if len(want) == 1 else 'a denominator symbol + ' + cur)
    try:
        t = text_check(num, shift_of(syms[0]), n)
    except ValueError:
        return res('wrong', 'number_text_unexplained', got=got)
    if t is None:
        return res('not_demanded_too_few_decimals', got=got)
    if t == n:
        return res('exact', got=got)
    return res('wrong', 'den=%s|%s' % (den_class(syms[0]), mag_err(n, t)), got=got)


def _mkobj(route, n, sym, net):
    from bitcoinlib.values import Value
    if route == 'from_satoshi':
        return Value.from_satoshi(n, network=net), 'sat'
    if route == 'from_satoshi_den':
        return Value.from_satoshi(n, sym, network=net), sym
    if route == 'text':
        return Value(exact_str(n, shift_of(sym)) + ' ' + unit_text(sym, CODES[net]), network=net), sym
    raise ValueError(route)


def sub_views(case):
    """case = {'net', 'route', 'den', 'pts': [n...], 'depth': 1|2|3, 'alpha': 'full'|'text'}.

    depth 1: every view of the full alphabet on a fresh object per amount.  depth 2/3: every sequence of that
    length over the reduced alphabet on ONE fresh object; every call is judged against the oracle for the
    (immutable) amount of the object, and its result is compared with the result of the same call on a fresh
    object."""
    import itertools
    net, route, sym, depth = case['net'], case['route'], case['den'], case.get('depth', 1)
    rec = Rec()
    alpha = view_alphabet(case.get('alpha', 'full') if depth == 1 else 'hist')
    for n in case['pts']:
        try:
            v, own = _mkobj(route, n, sym, net)
        except Exception as e:
            rec.n += 1
            rec.dev('Value(%s)|valid_amount_refused|%s' % (route, type(e).__name__),
                    {'case': dict(case, pts=[n]), 'exc': repr(e)})
            rec.o('object_refused')
            continue
        key = '%s|%s|%s|%d' % (net, route, sym, n)
        fresh = []
        for view in alpha:
            r = eval_view(v if depth == 1 else _mkobj(route, n, sym, net)[0], view, net, own, n)
            fresh.append(r)
            if depth == 1:
                rec.n += 1
                rec.o(r['label'])
                if r['sig']:
                    rec.dev(r['sig'], r['detail'])
                if not r['label'].startswith('not_demanded'):
                    rec.nt.add(key + '|' + view[0])
        if depth == 1:
            continue
        for seq in itertools.product(range(len(alpha)), repeat=depth):
            v = _mkobj(route, n, sym, net)[0]
            rs = [eval_view(v, alpha[i], net, own, n) for i in seq]
            rec.n += depth
            last, i = rs[-1], seq[-1]
            before = '+'.join(alpha[j][0] for j in seq[:-1])
            rec.o(last['label'])
            if last['sig'] and last['sig'] == fresh[i]['sig']:
                rec.dev(last['sig'], last['detail'])
            elif last['sig']:
                rec.dev('%s|only_after_other_calls' % last['sig'], dict(last['detail'], calls_before=before))
            elif last['got'] != fresh[i]['got']:
                rec.dev('%s|result_changes_after_other_calls' % view_site(alpha[i]),
                        {'view': alpha[i], 'n': n, 'network': net, 'own_den': own, 'got': last['got'],
                         'calls_before': before, 'fresh': fresh[i]['got']})
            rec.nt.add(key + '|' + ','.join(str(j) for j in seq))
    return rec.result()


def sub_txfee(case):
    """case = {'vin': [values], 'vout': [values], 'coinbase': bool, 'fee': None | int, 'wt': witness type}: a
    Transaction built from ready Input / Output objects; the fee the constructor derives (or is given) must be a
    non-negative int equal to inputs - outputs whenever both totals are known, for coinbase and ordinary transactions
    alike - or the construction is refused."""
    from bitcoinlib.transactions import Output, Input, Transaction
    rec = Rec()
    rec.n += 1
    tin, tout = sum(case['vin']), sum(case['vout'])
    site = 'Transaction(%s,fee=%s)' % ('coinbase' if case['coinbase'] else 'ordinary', 'given' if case['fee'] is not None else 'derived')
    try:
        ins = [Input(_PREV if not case['coinbase'] else '00' * 32, i if not case['coinbase'] else 0xffffffff, value=v,
                     witness_type=case['wt'], unlocking_script=b'\x03\xa0\xbb\x0d' if case['coinbase'] else b'')
               for i, v in enumerate(case['vin'])]
        outs = [Output(v, lock_script=_LS) for v in case['vout']]
        t = Transaction(ins, outs, coinbase=case['coinbase'], fee=case['fee'], witness_type=case['wt'])
        fee = t.fee
    except Exception as e:
        rec.o('refused_%s' % ('overspending' if tout > tin else 'balanced_or_underspending'))
        if tin > tout and case['fee'] is None and not case['coinbase']:
            rec.dev('%s|valid_transaction_refused|%s' % (site, type(e).__name__), {'case': case, 'exc': repr(e)[:200]})
        return rec.result()
    rec.nt.add(repr(case))
    rel = 'outputs_exceed_inputs' if tout > tin else 'outputs_equal_inputs' if tout == tin else 'inputs_exceed_outputs'
    if fee is None:
        rec.o('fee_left_unknown')
    elif type(fee) is not int or fee < 0:
        rec.dev('%s|fee_is_not_a_non_negative_int|%s' % (site, rel), {'case': case, 'fee': repr(fee)})
    elif case['fee'] is None and tin and tout and fee != tin - tout:
        rec.dev('%s|derived_fee_differs_from_inputs_minus_outputs|%s' % (site, rel), {'case': case, 'fee': fee})
    else:
        rec.o('fee_ok_%s' % rel)
    for name in ('input_total', 'output_total'):
        v = getattr(t, name, None)
        if v is not None and (type(v) is not int or v < 0):
            rec.dev('%s|%s_is_not_a_non_negative_int' % (site, name), {'case': case, 'value': repr(v)})
    return rec.result()


SUBS = {'txfee': sub_txfee, 'views': sub_views, 'txflags': sub_txflags, 'win': sub_win, 'forms': sub_forms, 'numeric': sub_numeric, 'nets': sub_nets, 'txout': sub_txout,
        'fee': sub_fee, 'words': sub_words}


# ----------------------------------------------------------------------------------------------------------
def _union(intervals):
    """Disjoint sorted union of [lo, hi) intervals clipped to [0, SUPPLY]."""
    iv = sorted((max(0, a), min(b, SUPPLY + 1)) for a, b in intervals)
    out = []
    for a, b in iv:
        if a >= b:
            continue
        if out and a <= out[-1][1]:
            out[-1][1] = max(out[-1][1], b)
        else:
            out.append([a, b])
    return out


def _outside(pts, iv):
    """The sorted points that are in none of the disjoint sorted intervals."""
    import bisect
    los = [a for a, _ in iv]
    out = []
    for p in pts:
        i = bisect.bisect_right(los, p) - 1
        if i < 0 or p >= iv[i][1]:
            out.append(p)
    return out


def _split(iv, step):
    out = []
    for a, b in iv:
        for x in range(a, b, step):
            out.append([x, min(x + step, b)])
    return out


def _k10(kmax):
    pts = set()
    for k in range(1, kmax + 1):
        for j in range(0, 16):
            c = k * 10 ** j
            for dlt in (-2, -1, 0, 1, 2):
                if 0 <= c + dlt <= SUPPLY:
                    pts.add(c + dlt)
    return pts


def _view_amounts():
    """Amounts for the output forms: byte-length boundaries, byte patterns that are no palindromes, decimal
    boundaries of the 'auto' denominator, powers of ten, the top of the supply."""
    pts = {0, 1, 2, 15, 127, 128, 255, 256, 257, 300, 546, 999, 1000, 0x0102, 0xffff, 0x10000, 0x10203, 99999,
           100000, 0xffffff, 0x1000000, 10 ** 8 - 1, 10 ** 8, 10 ** 8 + 1, 123456789, 2 ** 31 - 1, 2 ** 31,
           2 ** 32 - 1, 2 ** 32, 2 ** 32 + 5, 10 ** 11 - 1, 10 ** 11, 123456789012, 2 ** 40 - 1, 2 ** 40,
           0x0102030405, 10 ** 14 - 1, 10 ** 14, 2 ** 48 - 1, 2 ** 48, 2 ** 48 + 1, 0x01020304050607, TOP - 1, TOP,
           TOP + 3, SUPPLY - 1, SUPPLY}
    pts |= {10 ** j for j in range(16)} | {3 * 10 ** j + 7 for j in range(15)}
    pts |= {0xab << (8 * j) for j in range(7)} | {(1 << (8 * j)) - 1 for j in range(1, 8)}
    pts |= set(range(SUPPLY - 64, SUPPLY + 1))
    return sorted(p for p in pts if 0 <= p <= SUPPLY)


def run(ctx):
    q = ctx.quick
    seed = ctx.seed
    only = getattr(ctx, 'only', None)

    def want(name):
        return not only or name in only

    # ------------------------------------------------------------------ integer windows per denominator
    def windows(sym):
        cl = den_class(sym)
        main = cl in ('unit', 'smallest')
        iv = []
        if q:
            iv.append((0, 1 << (18 if main else 13)))
            iv.append((SUPPLY - (1 << (14 if main else 11)), SUPPLY + 1))
        else:
            iv.append((0, 1 << 20))
            iv.append((SUPPLY - (1 << 16), SUPPLY + 1))
        w = 32 if q else 512
        ws = 256 if q else 8192
        for k in range(21, 51):
            c = 1 << k
            iv.append((c - w, c + w))
            # seed-positioned window inside the binade [2^k, 2^(k+1))
            span = min(2 * c, SUPPLY) - c - ws
            base = c + (seed * 2654435761 + k * 40503 + SYMS.index(sym) * 7919) % span
            iv.append((base, base + ws))
        # 2^24 main units (the float holding the amount in main units changes binade here)
        c = (1 << 24) * 10 ** 8
        iv.append((c - (w * 4), c + (w * 4)))
        return iv

    total_pairs = 0
    if want('win'):
        cases = []
        pts_small = _k10(99 if q else 999)
        pts_main = _k10(999)
        for sym in SYMS:
            iv = _union(windows(sym))
            for a, b in _split(iv, 2048):
                cases.append({'den': sym, 'lo': a, 'hi': b})
            src = pts_main if den_class(sym) != 'scaled' or not q else pts_small
            pts = _outside(sorted(src), iv)
            for i in range(0, len(pts), 1024):
                cases.append({'den': sym, 'pts': pts[i:i + 1024]})
        # simplest first: by lowest amount, then denominator
        cases.sort(key=lambda c: (c.get('lo', c.get('pts', [0])[0]), SYMS.index(c['den'])))
        rets = ctx.pmap('win', cases, chunk=1)
        total_pairs += sum(r or 0 for r in rets)
        ctx.note('distinct_den_amount_pairs', total_pairs)

    # ------------------------------------------------------------------ textual forms
    if want('forms'):
        ks = list(range(1, 1000))
        cases = []
        for sym in SYMS:
            for cur, net, lower in (('BTC', 'bitcoin', False), ('', 'bitcoin', False), ('btc', 'bitcoin', True),
                                    ('LTC', 'litecoin', False), ('', 'dogecoin', False)):
                if lower:
                    if sym not in ('', 'm', 'sat', 'µ', 'k'):
                        continue
                    cur = 'BTC'
                if q and net != 'bitcoin' and sym not in ('', 'm', 'sat', 'T', 'da', 'msat'):
                    continue
                full = not q or (net == 'bitcoin' and not lower and cur)
                plan = [(ks if full else ks[:99], ['minimal'])]
                plan.append((ks if not q else ks[:99] if full else ks[:9], [f for f in FORMS if f != 'minimal']))
                for kk, forms in plan:
                    for i in range(0, len(kk), 111):
                        cases.append({'den': sym, 'cur': cur, 'net': net, 'ks': kk[i:i + 111], 'jmin': -3,
                                      'lower': lower, 'forms': forms})
        ctx.pmap('forms', cases, chunk=1)

    # ------------------------------------------------------------------ numeric denominators
    if want('numeric'):
        base = sorted(_k10(99) | set(range(0, 2048)) | set(range(SUPPLY - 2048, SUPPLY + 1)) |
                      set(range(TOP - 256, TOP + 256)))
        if not q:
            base = sorted(set(base) | _k10(999) | set(range(SUPPLY - 16384, SUPPLY + 1)))
        cases = []
        for sym in SYMS:
            for i in range(0, len(base), 1024):
                cases.append({'den': sym, 'pts': base[i:i + 1024]})
        ctx.pmap('numeric', cases, chunk=1)

    # ------------------------------------------------------------------ networks / currency codes
    if want('nets'):
        pts = sorted(set([0, 1, 2, 9, 10, 99, 546, 1000, 12345, 99999999, 10 ** 8, 10 ** 8 + 1, 123456789,
                          10 ** 12, 10 ** 12 + 1, 2 * 10 ** 12, 5 * 10 ** 14, TOP - 1, SUPPLY] +
                         [10 ** j for j in range(0, 16)] + [3 * 10 ** j for j in range(0, 15)] +
                         list(range(SUPPLY - (64 if q else 1024), SUPPLY))))
        cases = [{'net': net, 'den': sym, 'pts': pts} for net in rnets.NAMES for sym in SYMS]
        ctx.pmap('nets', cases, chunk=1)

    # ------------------------------------------------------------------ amounts into transactions
    if want('txout'):
        specs = []
        ints = [0, 1, 2, 545, 546, 10 ** 8, 2 ** 31 - 1, 2 ** 31, 2 ** 32 - 1, 2 ** 32, 2 ** 53 - 1, 2 ** 53,
                2 ** 53 + 1, SUPPLY - 1, SUPPLY, SUPPLY + 1, 2 ** 63 - 1, 2 ** 63, 2 ** 64 - 1, 2 ** 64, 2 ** 64 + 1,
                -1, -2, -546, -10 ** 8, -2 ** 63, -2 ** 64]
        specs += [['int', i] for i in ints]
        specs += [['float', f] for f in ('0.0', '1.0', '2.0', '546.0', '1e8', '9007199254740992.0', '2.1e15',
                                         '0.5', '1.5', '0.1', '1e-8', '0.29e8', '28999999.999999996',
                                         '545.9999999', '-1.0', '-0.5', '-1e-9', 'nan', 'inf', '-inf', '1e20')]
        amts = [0, 1, 546, 10 ** 8, 123456789, 10 ** 12, 10 ** 15, SUPPLY]
        for sym in SYMS:
            for n in amts:
                specs.append(['str', n, sym, 'BTC'])
            specs.append(['str', -1, sym, 'BTC'])
            if sym not in ('da', 'T'):      # Value(text) itself is refused / misread for these (judged as 'str')
                specs.append(['Value', 123456789000, sym])
            for k in (1, 5, 9, 15, 25, 123456785):
                specs.append(['substr', k, sym])
        for n in amts:
            specs.append(['str', n, '', ''])
            specs.append(['Value.from_satoshi', n])
        # the top binade through the Input/Output call sites (where the float deviations are)
        wtop = 256 if q else 4096
        for sym in ('', 'sat', 'm', 'fin', 'n', 'µ', 'msat', 'd', 'k'):
            for n in range(SUPPLY - wtop, SUPPLY):
                specs.append(['str', n, sym, 'BTC'])
        cases = [{'spec': s, 'net': 'bitcoin'} for s in specs]
        for net in rnets.NAMES:
            if net == 'bitcoin':
                continue
            for sym in ('', 'm', 'sat', 'T', 'k'):
                for n in (1, 10 ** 8, 10 ** 12):
                    cases.append({'spec': ['str', n, sym, CODES[net]], 'net': net})
                    cases.append({'spec': ['str', n, sym, ''], 'net': net})
            cases.append({'spec': ['int', 12345], 'net': net})
        ctx.pmap('txout', cases)
    if want('txflags'):
        kinds = [['int', 0], ['int', 1], ['int', 546], ['int', 90000], ['int', SUPPLY], ['int', 2 ** 64 - 1],
                 ['int', -1], ['int', -90000],
                 ['float', '0.0'], ['float', '1.0'], ['float', '90000.0'], ['float', '2099999997690000.0'],
                 ['float', '1.5'], ['float', '0.1'], ['float', '89999.99'], ['float', '28999999.999999996'],
                 ['float', '-1.0'], ['float', '-0.5'], ['float', 'nan'], ['float', 'inf'],
                 ['str', 1, 'sat', ''], ['str', 90000, '', 'BTC'], ['str', 123456789, 'm', 'BTC'],
                 ['str', SUPPLY, '', ''], ['str', -1, 'sat', ''],
                 ['substr', 15, 'sat'], ['substr', 5, ''], ['substr', 899999, 'm'],
                 ['Value', 90000, 'sat'], ['Value', 123456789, 'm'], ['Value.from_satoshi', 90000],
                 # other numeric types: a whole amount may be taken or refused, a fraction of a unit is never dropped
                 ['Decimal', '150000'], ['Decimal', '150000.5'], ['Decimal', '0.9'], ['Decimal', '-1'],
                 ['Fraction', 300001, 2], ['Fraction', 90000, 1], ['Fraction', 1, 3]]
        cases = [{'path': pth, 'strict': st, 'flag': fl, 'wt': wt, 'spec': k}
                 for pth in ('Output', 'add_output', 'Input', 'add_input') for st in (True, False)
                 for fl in (False, True) for wt in ('legacy', 'segwit') for k in kinds]
        ctx.pmap('txflags', cases)
    if want('txfee'):
        vs = [[5000000000], [625000000], [1], [1000, 2000], [SUPPLY]]
        tc = []
        for vin in vs:
            tin = sum(vin)
            for vout in ([tin - 1000] if tin > 1000 else []) + [[tin], [tin + 1], [tin + 100000], [tin // 2, tin - tin // 2 + 1],
                                                                 [SUPPLY]]:
                vout = vout if isinstance(vout, list) else [vout]
                for cb in (False, True):
                    for fee in (None, 0, 1000):
                        for wt in ('legacy', 'segwit'):
                            tc.append({'vin': vin if not cb else vin[:1], 'vout': vout, 'coinbase': cb, 'fee': fee, 'wt': wt})
        ctx.pmap('txfee', tc)
    if want('fee'):
        fa = [['int', 0], ['int', 1], ['int', 1000], ['str', 10 ** 8, '', 'BTC'], ['str', 1000, 'sat', ''],
              ['str', 150000, 'm', 'BTC'], ['int', SUPPLY], ['Value', 5 * 10 ** 7, 'm']]
        fcases = []
        for a in fa:
            for b in fa:
                for c in fa:
                    fcases.append({'ins': [a, b], 'outs': [c]})
                    fcases.append({'ins': [a], 'outs': [b, c]})
        ctx.pmap('fee', fcases)
    # ------------------------------------------------------------------ output forms of one Value object
    if want('views'):
        va = _view_amounts()
        small = [0, 1, 15, 255, 256, 300, 999, 1000, 0xffff, 0x10000, 99999, 100000, 10 ** 8, 123456789, 2 ** 32 - 1,
                 2 ** 32 + 5, 10 ** 11, 123456789012, 0x0102030405, 10 ** 14, 0x01020304050607, TOP - 1, TOP + 3,
                 SUPPLY - 1, SUPPLY]
        hist = [0, 1, 300, 123456789, 2 ** 32 + 5, SUPPLY]
        hsyms = ['', 'sat', 'm', 'µ', 'k', 'msat']
        few = [0, 1, 300, 1000, 123456789, 2 ** 32 + 5, 10 ** 11, 0x01020304050607, TOP + 3, SUPPLY - 1, SUPPLY]
        cases = []
        for net in rnets.NAMES:
            # quick: the byte/hex/integer forms do not depend on the network, they are enumerated in full on
            # bitcoin; the other networks get every formatted-text view plus the reduced alphabet
            main = net == 'bitcoin' or not q
            alpha = 'full' if main else 'text'
            pts = sorted(set(va) | set(range(0, (256 if q else 8192) if net == 'bitcoin' else 1024))) if main else small
            for i in range(0, len(pts), 64):
                cases.append({'net': net, 'route': 'from_satoshi', 'den': 'sat', 'pts': pts[i:i + 64], 'depth': 1,
                              'alpha': alpha})
            for sym in (SYMS if main else hsyms):
                for route in VIEW_ROUTES[1:]:
                    cases.append({'net': net, 'route': route, 'den': sym, 'depth': 1, 'alpha': alpha,
                                  'pts': va if not q else small if main else few})
        # call histories on one object: all sequences of length 2 (thorough: 3) over the reduced alphabet
        hnets = ['bitcoin', 'testnet', 'litecoin', 'dogecoin_testnet']
        for depth in ((2,) if q else (2, 3)):
            for net in (hnets if q or depth == 3 else rnets.NAMES):
                for route in VIEW_ROUTES:
                    for sym in (hsyms if route != 'from_satoshi' else ['sat']):
                        for n in hist:
                            cases.append({'net': net, 'route': route, 'den': sym, 'pts': [n], 'depth': depth})
        ctx.pmap('views', cases, chunk=1)
        ctx.note('views', {
            'view_calls_per_object': len(view_alphabet('full')), 'history_alphabet': len(view_alphabet('hist')),
            'view_calls_per_object_other_networks': len(view_alphabet('full' if not q else 'text')),
            'history_depth': 2 if q else 3, 'amounts': len(va), 'amounts_den_routes': len(small if q else va),
            'to_bytes_lengths': [x or 'default' for x in BYTES_LEN], 'to_hex_lengths': [x or 'default' for x in HEX_LEN],
            'byteorders': [x or 'default' for x in SER_BO], 'currency_repr': ['default'] + sorted(CREPR),
            'decimals': ['default', 0, 8], 'routes': list(VIEW_ROUTES),
            'history_networks': hnets if q else 'all for depth 2, %s for depth 3' % hnets,
            'window_from_satoshi': '[0,256) on bitcoin' if q else '[0,8192) on bitcoin, [0,1024) on the other networks',
            'history_amounts': hist, 'history_denominators': hsyms})
    if want('words'):
        ctx.pmap('words', ['SAT', 'Sat', 'XYZ', 'bitcoin', 'satoshi', 'BTCX', 'mXYZ', 'Msat', 'ksat', 'Da'])

    ctx.note('bounds', {
        'tier': ctx.tier,
        'windows_main_dens': '[0,2^%d) + top 2^%d of the supply' % ((18, 14) if q else (20, 16)),
        'windows_scaled_dens': '[0,2^%d) + top 2^%d of the supply' % ((13, 11) if q else (20, 16)),
        'binade_windows': '2^k +- %d and a seed-positioned window of %d inside [2^k,2^(k+1)) for k=21..50, '
                          'plus 2^24 main units +- %d' % ((32, 256, 128) if q else (512, 8192, 2048)),
        'k10': 'k*10^j +-{0,1,2}, j<=15, k<=999 (quick: k<=99 for scaled denominators)',
        'denominators': SYMS, 'networks': rnets.NAMES,
        'forms': list(FORMS), 'max_amount': SUPPLY})
