"""C16 Public views and default exports never contain private key material.

E2 explicit-state search over call histories on real Key / HDKey / WalletKey / Wallet / Transaction
objects (and, per reached state, over the argument forms of every public request); oracle = a scanner that searches the complete value / object graph / pickle bytes / printed
text of every public view for every encoding of every secret in play.  The secret encodings are
computed with the reference (vf/ref: Base58Check, BIP32, golden network prefixes), never with the
library.  A second part scans the raw bytes of sqlite files written with field encryption on.
"""
import collections
import contextlib
import copy
import datetime
import gc
import hashlib
import io
import json
import os
import pickle
import random as _random
import re
import shutil
import sqlite3
import subprocess
import sys
import time as _time
import types

from vf import env
from vf.ref import bip32, bip38, codec, nets, secp
from vf.runner import HarnessError, jhash

ID = 'C16'
LEVEL = 'model_checking'
RULE = (
    'Explicit-state breadth-first search over call histories, executed on real library objects. For every '
    'configuration (kind of private Key / HDKey / WalletKey / Wallet / signed Transaction; key import format, '
    'network, witness type, compression) every sequence of prior calls of length <= D (D=2 quick, 3 thorough; '
    'Wallet thorough: D=3 over the quick alphabet on the three main templates plus D=2 over the extended '
    'alphabet on all templates - the completed bounds are in coverage.bounds) '
    'over the stated per-kind alphabet is replayed on a fresh object; in the reached state EVERY public view of '
    'the kind is taken and its value is scanned, then pickled (bytes scanned, unpickled graph scanned) and '
    'deep-copied (graph scanned). A view is always taken in exactly the state reached by the history: the '
    'canonical state is recomputed after each view and a new replica is used as soon as a view changed it (wallet '
    'kinds: fresh database copy + replay; in-memory Key/HDKey/Transaction: deep copy of an untouched replayed '
    'object; either way the digest of the replica must equal the state of the history, else exit 2). Canonical state = digest of the COMPLETE attribute valuation of the object graph (names and values of '
    'every populated attribute/cache incl. nested key/address objects, loaded ORM state, session identity map, '
    'and for wallets a logical dump of all database tables; wall-clock values masked). Merging histories that '
    'reach the same canonical state is sound because every method of these classes is a deterministic function '
    'of exactly that valuation and its arguments (no other mutable state exists; RNG is re-seeded per replay), so '
    'equal digests have identical futures; a state already seen is therefore not expanded again, but every '
    'history up to the bound is itself executed and all its views are scanned. A (state, view) evaluation is '
    'non-trivial when the view returned a value (not a refusal) that was scanned; distinct by (configuration, '
    'canonical state, view). Scanner: recursive walk over containers, instance __dict__/__slots__, loaded ORM '
    'attributes read from __dict__ (no lazy load is triggered; sessions/engines/live Wallet handles are not '
    'followed); every str/bytes/int met, the pickle bytes and captured stdout are searched for: raw 32 bytes and '
    'both 16-byte halves (BIP38 plaintext halves), hex lower/upper (whole, halves, without leading zeros), the '
    'int, its decimal string, WIF compressed/uncompressed under every network prefix, the extended private key '
    'under every private version prefix, and any Base58 token whose decoded payload contains the raw key. '
    'Argument forms (sub-space hdargs): a public request is a method AND its arguments, so for private HDKey / Key '
    'configurations, in every state reached by a history of length <= 1 (thorough: additionally <= 2 with the '
    'quick request grid), every public request is made with every form of its arguments: subkey_for_path over '
    'the public path contents (bare M, M/i, M/i/j, M/i/j/k, index alphabet {0,1,2^31-1,..}, hardened items that '
    'must be refused) x the form of the path argument (str, list, tuple, list with integer items) x network '
    'argument (omitted, own, other) x receiver (private object, its public()); child_public over index x '
    'positional/keyword x network; public_master / public_master_multisig over every spelling of as_private that '
    'asks for the public key (omitted, False, 0, None, empty string) x derivation arguments (account_id, purpose, '
    'multisig, witness_type); wif / wif_public over the spellings of is_private x witness_type x multisig, '
    'prefix (private / public version bytes, hex / bytes), child_index; as_dict / as_json / as_hex / as_bytes '
    'over the spellings of the flag, keyword and positional. The needles contain the private counterpart of '
    'every request (reference derivation of every path and all its prefixes); a request whose result IS the '
    'private receiver is classified by name; a result holding a private scalar outside the needles that is the '
    'key of the public key it shows is a deviation too. Signature site = method + class of the argument form '
    '(never the argument values; they are in the detail). Wallet / WalletKey: the default exports are also taken '
    'with every explicit falsy spelling of include_private / is_private / as_private (bundled per method) in the '
    'states reached by histories of length <= 1. '
    'Database at rest: a subprocess with DB_FIELD_ENCRYPTION_KEY (separately DB_FIELD_ENCRYPTION_PASSWORD) creates '
    'wallets of each kind, derives/imports keys, sends a transaction, closes; the bytes of the sqlite file (and '
    'journal files) are scanned with the same needles; the run without encryption is the positive control.')
ASSUMPTIONS = [
    'trusted base: vf/ref codec (Base58Check), bip32, nets (golden prefix table), secp, hashlib, pycryptodome '
    'AES-SIV (only to confirm that the encrypted columns really hold the expected keys); validated in selftest',
    'secrets in play = the key of the configuration, every BIP32 descendant the alphabet can derive (children 0, '
    "0', m/0'/1, all purpose/coin/account/script-type nodes) and, for wallets, every key row of the database "
    '(reference derivation of the stored path from the known seed; cross-checked against the raw private column); '
    'a superset of needles cannot cause a false alarm because each needle is a private key of the object',
    'chain codes, public keys, fingerprints, addresses, signatures, BIP38-encrypted strings and the ECDSA nonce '
    'are not treated as private key material',
    'NOT demanded (the object is private and the call asks for private data): info() of a private Key/HDKey (it '
    'prints the secret by documented design), as_dict/as_json(include_private=True), wif(is_private=True), '
    'Wallet.wif(is_private=True), public_master(as_private=True), the attribute graph / pickle of a private '
    'Key, HDKey, WalletKey, Wallet, Signature or signed Transaction object itself (Transaction.save pickles the '
    'object; Signature.secret holds the key) - these are used as positive controls: the scanner must find the '
    'secret there, otherwise the run is a harness error',
    'demanded, from the property text: the public version of a key (Key.public, HDKey.public, WalletKey.public, '
    'HDKey.public_master, child_public, Wallet.public_master) as object graph, pickled and copied; public '
    'extended keys and watch-only exports (wif_public, HDKey.wif() default, Wallet.wif() default); the default '
    'as_dict()/as_json()/repr/str of Key, HDKey, Address, WalletKey, Wallet, Transaction, Input, Output, '
    'WalletTransaction; info() of public objects, of Wallet and of Transaction; the default-argument list '
    'exports of Wallet (keys(as_dict=True), transactions(as_dict=True), transactions_export, utxos, addresslist)',
    "a derivation path that starts with 'M' asks for public derivation (BIP32 notation; the library derives "
    "'M/0/1' with child_public, its test-suite asserts a public key for it, and wallets store public keys under "
    "path 'M'), whatever the type of the path argument (documented: str, list; a tuple or integer items are "
    'accepted or refused by the library - a refusal is fine, a value is judged); so the result of every M-path '
    'request is a public view, including the bare M (recorded as known finding: it returns the private object)',
    'a flag that asks for private data only when true (include_private, private, is_private, as_private) asks '
    "for the public form under every falsy spelling (False, 0, None, ''), keyword or positional",
    'repr of a private WalletKey is the default repr of a key and is therefore checked (it prints the private '
    'extended key; recorded as known finding, it is pinned by a doctest of the library)',
    'ORM entities met in a returned value are read through __dict__ (what pickle would serialise), relationships '
    'already loaded are followed, nothing is lazy-loaded; SQLAlchemy sessions, engines and Wallet objects are live '
    'database handles and are not followed',
    'needles need >= 128 bits of entropy to make accidental matches impossible, so the fixed keys are hashes '
    '(seed-dependent filler) and not boundary scalars; the property is about where a key is copied to, not about '
    'its value',
    'environment fixed so that a replay depends on its history only: automatic garbage collection is off inside '
    'a case (ORM rows only weakly held by the session identity map survive, the adversarial choice), the '
    'provider-result cache (shared sqlite file with wall-clock expiry) is switched off through the supported '
    'setting, the random module is re-seeded per replica, wallets live on network bitcoinlib_test / bitcoin '
    'without network access',
    'database-at-rest part: sqlite only (the file the property speaks of); bitcoinlib.log and *.tx files in the '
    'data directory are scanned too but only reported as outcome labels, the property names the database file',
]

N = secp.N
_BOOT = {}


# ===================================================================================== secrets / needles
class Secret(object):
    """A private scalar in play, with optional BIP32 metadata for the extended-key needles."""

    def __init__(self, name, k, chain=None, depth=0, fp=b'\0\0\0\0', child=0):
        self.name = name
        self.k = k
        self.chain = chain
        self.depth = depth
        self.fp = fp
        self.child = child

    @classmethod
    def from_xkey(cls, name, x):
        return cls(name, x.secret, x.chain, x.depth, x.parent_fp, x.child)


def _wif_prefixes():
    return sorted(set(nets.wif_ver(n) for n in nets.NAMES))


def _xprv_prefixes():
    out = set()
    for n, d in nets.NETS.items():
        for hx, _txt, kind, _ms, _wt, _st in d['prefixes_wif']:
            if kind == 'private':
                out.add(bytes.fromhex(hx))
    return sorted(out)


_TOKEN = re.compile(r'[0-9A-Za-z]{16,}')
_B58RUN = re.compile(r'^[1-9A-HJ-NP-Za-km-z]+$')


class Needles(object):
    """Every encoding of every secret, computed with the reference; plus search over values."""

    def __init__(self, secrets):
        self.secrets = list(secrets)
        self.ints = {}
        self.raw = []        # (bytes, name, enc)
        self.raw32 = []      # (bytes, name)
        self.ci = []         # (lower-case text, name, enc)
        self.cs = []         # (case-sensitive text, name, enc)
        seen = set()
        for s in self.secrets:
            if s.k in seen:
                continue
            seen.add(s.k)
            assert (1 << 200) < s.k < N, 'needle without enough entropy'
            b = s.k.to_bytes(32, 'big')
            self.ints[s.k] = s.name
            self.raw32.append((b, s.name))
            self.raw += [(b, s.name, 'raw'), (b[:16], s.name, 'raw-half'), (b[16:], s.name, 'raw-half')]
            # little-endian (how pickle and struct store a Python int)
            self.raw += [(b[::-1][:16], s.name, 'raw-half'), (b[::-1][16:], s.name, 'raw-half')]
            hx = b.hex()
            self.ci += [(hx, s.name, 'hex'), (hx[:32], s.name, 'hex-half'), (hx[32:], s.name, 'hex-half')]
            if hx.lstrip('0') != hx:
                self.ci.append((hx.lstrip('0'), s.name, 'hex'))
            self.cs.append((str(s.k), s.name, 'decimal'))
            for p in _wif_prefixes():
                self.cs.append((codec.b58check_encode(p + b), s.name, 'wif'))
                self.cs.append((codec.b58check_encode(p + b + b'\x01'), s.name, 'wif'))
            if s.chain is not None:
                x = bip32.XKey(s.k, None, s.chain, s.depth, s.fp, s.child)
                for v in _xprv_prefixes():
                    self.cs.append((x.ser(v, True), s.name, 'xprv'))
        self._tokcache = {}
        self.halves = {}
        for b, name in self.raw32:
            self.halves[b[:16]] = (name, b)
            self.halves.setdefault(b[16:], (name, None))
            self.halves.setdefault(b[::-1][:16], (name, b[::-1]))
            self.halves.setdefault(b[::-1][16:], (name, None))
        self.n_needles = len(self.raw) + len(self.ci) + len(self.cs) + len(self.ints)

    # ---- primitive haystacks
    def _tok(self, tok):
        r = self._tokcache.get(tok)
        if r is not None:
            return r
        hits = set()
        low = tok.lower()
        for n, name, enc in self.ci:
            if n in low:
                hits.add((name, enc))
        for n, name, enc in self.cs:
            if n in tok:
                hits.add((name, enc))
        if 43 <= len(tok) <= 400 and _B58RUN.match(tok):
            p = codec.b58decode(tok)
            if p:
                for b, name in self.raw32:
                    if b in p:
                        enc = 'wif' if len(p) in (37, 38) else 'xprv' if len(p) == 82 else 'base58-other'
                        hits.add((name, enc))
        r = tuple(sorted(hits))
        if len(self._tokcache) > 200000:
            self._tokcache.clear()
        self._tokcache[tok] = r
        return r

    def text(self, s):
        hits = set()
        if len(s) < 16:
            return hits
        for tok in set(_TOKEN.findall(s)):
            for h in self._tok(tok):
                hits.add(h)
        return hits

    def data(self, b):
        hits = set()
        b = bytes(b)
        n = len(b)
        if n < 16:
            return hits
        if n <= 512:
            hs = self.halves
            for i in range(n - 15):
                w = b[i:i + 16]
                if w in hs:
                    name, first = hs[w]
                    full = first is not None and b[i:i + 32] == first
                    hits.add((name, 'raw' if full else 'raw-half'))
            if n < 32 or not self._maybe_text(b):
                return hits
        else:
            for nb, name, enc in self.raw:
                if nb in b:
                    hits.add((name, enc))
        hits |= self.text(b.decode('latin-1'))
        return hits

    @staticmethod
    def _maybe_text(b):
        # short binary fields (public keys, hashes, chain codes) cannot hold a 40+ character text encoding
        return len(_TOKEN.findall(b.decode('latin-1'))) > 0


# ===================================================================================== graph walker
_SKIP_TYPES = (types.ModuleType, types.FunctionType, types.BuiltinFunctionType, types.MethodType, type,
               types.CodeType, types.FrameType, type(None), bool, float, complex)


def _is_handle(o):
    """Live database handles and other things that are not part of a value."""
    m = type(o).__module__ or ''
    if m.startswith('sqlalchemy'):
        # collections used for loaded relationships are list/dict subclasses and are walked as such
        return not isinstance(o, (list, dict, set))
    if m.startswith(('logging', 'threading', '_thread', 'sqlite3', 'weakref')):
        return True
    if type(o).__name__ == 'Wallet' and m.startswith('bitcoinlib'):
        return not _FOLLOW_WALLETS
    return False


_FOLLOW_WALLETS = False


def _children(o):
    """(label, child) pairs of a non-primitive value; labels are attribute names / [] / {key}."""
    if isinstance(o, dict):
        for k, v in list(o.items()):
            if isinstance(k, str) and len(k) <= 40 and k.replace('_', 'a').isalnum():
                lab = '.' + k
            else:
                lab = '{}'
                yield '{key}', k
            yield lab, v
        return
    if isinstance(o, (list, tuple, set, frozenset, collections.deque)):
        it = o if not isinstance(o, (set, frozenset)) else sorted(o, key=repr)
        for v in it:
            yield '[]', v
        return
    d = getattr(o, '__dict__', None)
    if isinstance(d, dict):
        for k, v in list(d.items()):
            if k == '_sa_instance_state':
                continue
            yield '.' + str(k), v
    for cls in type(o).__mro__:
        for sl in getattr(cls, '__slots__', ()) or ():
            if isinstance(sl, str) and sl not in ('__dict__', '__weakref__'):
                try:
                    yield '.' + sl, object.__getattribute__(o, sl)
                except AttributeError:
                    pass


def _pathclass(path):
    parts = [p for p in path if p]
    s = ''.join(parts[-6:]).lstrip('.')
    return s or '<value>'


def walk(root, nd, limit=400000):
    """All (pathclass, secret name, encoding class) found in the graph below root."""
    hits = set()
    memo = set()
    stack = [(root, ())]
    count = 0
    while stack:
        o, path = stack.pop()
        count += 1
        if count > limit:
            raise HarnessError('object graph larger than %d nodes at %s' % (limit, _pathclass(path)))
        if isinstance(o, _SKIP_TYPES):
            continue
        if isinstance(o, int):
            if o in nd.ints:
                hits.add((_pathclass(path), nd.ints[o], 'int'))
            continue
        if isinstance(o, str):
            for name, enc in nd.text(o):
                hits.add((_pathclass(path), name, enc))
            continue
        if isinstance(o, (bytes, bytearray, memoryview)):
            for name, enc in nd.data(o):
                hits.add((_pathclass(path), name, enc))
            continue
        if id(o) in memo:
            continue
        memo.add(id(o))
        if _is_handle(o):
            continue
        if isinstance(o, (datetime.datetime, datetime.date)):
            continue
        for lab, c in _children(o):
            stack.append((c, path + (lab,)))
    return hits


def digest(root, extra=None):
    """Canonical digest of the complete attribute valuation below root (wall-clock values masked)."""
    memo = {}
    h = hashlib.sha256()

    def ser(o, depth):
        if o is None or isinstance(o, (bool, int)):
            return repr(o)
        if isinstance(o, float):
            return repr(o)
        if isinstance(o, str):
            sd = env.scratch_dir()
            if sd and sd in o:     # the replica's own database file name is not part of the state
                o = re.sub(re.escape(sd) + r'[^\s\'"?]*', '<scratch-file>', o)
            return 's' + json.dumps(o)
        if isinstance(o, (bytes, bytearray, memoryview)):
            return 'b' + bytes(o).hex()
        if isinstance(o, (datetime.datetime, datetime.date, datetime.timedelta)):
            return '<time>'
        if isinstance(o, _SKIP_TYPES):
            return '<%s>' % type(o).__name__
        if id(o) in memo:
            return '<ref %d>' % memo[id(o)]
        memo[id(o)] = len(memo)
        if _is_handle(o):
            return '<handle %s>' % type(o).__name__
        if depth > 40:
            raise HarnessError('state graph too deep')
        if isinstance(o, dict):
            items = sorted(((ser(k, depth + 1), ser(v, depth + 1)) for k, v in list(o.items())))
            return '{%s}' % ','.join('%s:%s' % kv for kv in items)
        if isinstance(o, (list, tuple, collections.deque)):
            return '%s[%s]' % (type(o).__name__[:1], ','.join(ser(v, depth + 1) for v in o))
        if isinstance(o, (set, frozenset)):
            return 'S[%s]' % ','.join(sorted(ser(v, depth + 1) for v in o))
        parts = []
        for lab, c in _children(o):
            parts.append('%s=%s' % (lab, ser(c, depth + 1)))
        parts.sort()
        if not parts and not hasattr(o, '__dict__'):
            return '<%s %s>' % (type(o).__name__, str(o)[:80] if type(o).__module__ in ('decimal',) else '')
        return '%s(%s)' % (type(o).__name__, ';'.join(parts))

    h.update(ser(root, 0).encode())
    if extra is not None:
        h.update(json.dumps(extra, sort_keys=True, default=str).encode())
    return h.hexdigest()[:24]


# ===================================================================================== view evaluation
class Refused(Exception):
    pass


@contextlib.contextmanager
def _stdout():
    buf = io.StringIO()
    with contextlib.redirect_stdout(buf):
        yield buf


def printed(fn):
    """Call fn, return what it printed (plus its return value in a tuple when not None)."""
    with _stdout() as buf:
        r = fn()
    return buf.getvalue() if r is None else (buf.getvalue(), r)


class Acc(object):
    """Collects deviations / counters of one case."""

    def __init__(self, where):
        self.where = where
        self.devs = []
        self.sigs = set()
        self.n = 0
        self.nt = []
        self.out = collections.Counter()

    def dev(self, sig, detail):
        if sig not in self.sigs:
            self.sigs.add(sig)
            self.devs.append({'sig': sig, 'detail': detail})

    def result(self, ret=None):
        r = {'devs': self.devs, 'n': self.n, 'nt': self.nt, 'out': dict(self.out)}
        if ret is not None:
            r['ret'] = ret
        return r


def _simple(v):
    """Values whose pickled / copied form is trivially the same text (no object state to carry along)."""
    if v is None or isinstance(v, (str, bytes, int, float, bool)):
        return True
    if isinstance(v, (tuple, list)):
        return all(_simple(x) for x in v)
    return False


def scan_view(acc, nd, view, value, hist, forms=True, request=None):
    """Scan a view value as returned, as pickle bytes, unpickled and deep-copied; True if something leaked.

    Signature = view | form class | attribute-path class | encoding class, form class being 'value' (as
    returned), 'pickle-bytes' or 'copy' (unpickled or deep-copied object graph)."""
    leaked = False
    variants = [('value', 'value', value)]
    if forms and not _simple(value):
        try:
            pb = pickle.dumps(value, protocol=pickle.HIGHEST_PROTOCOL)
        except Exception as e:
            pb = None
            acc.out['pickle:refused'] += 1
        if pb is not None:
            acc.out['pickle:ok'] += 1
            variants.append(('pickle-bytes', 'bytes', pb))
            try:
                variants.append(('copy', 'value', pickle.loads(pb)))
            except Exception:
                acc.out['unpickle:refused'] += 1
        try:
            variants.append(('copy', 'value', copy.deepcopy(value)))
            acc.out['deepcopy:ok'] += 1
        except Exception:
            acc.out['deepcopy:refused'] += 1
    for form, kind, v in variants:
        acc.n += 1
        if kind == 'bytes':
            hits = set(('-', name, enc) for name, enc in nd.data(v))
        else:
            hits = walk(v, nd)
        for path, name, enc in sorted(hits):
            leaked = True
            d = {'history': hist, 'cfg': acc.where, 'secret': name, 'encoding': enc, 'path': path}
            if request is not None:
                d['request'] = request
            acc.dev('%s|%s|%s|%s' % (view, form, path, _encclass(enc)), d)
    return leaked


class Named(object):
    """Returned by a view instead of a value when the wrong behaviour is classified by name (not by the scanner)."""

    def __init__(self, cls, detail, site=None):
        self.cls = cls
        self.detail = detail
        self.site = site        # coarser signature site than the one of the request (None: the request's site)


def _private_scalars(acc, nd, site, value, hist, request):
    """Oracle completeness for requests with arguments: a key object handed out by a public request that holds a
    private scalar which is NOT one of the reference needles (the scanner cannot know it) but IS the private key
    of the public key the object shows (reference secp) is private key material all the same."""
    found = False
    for x in (value if isinstance(value, (list, tuple)) else [value]):
        k = getattr(x, 'secret', None)
        if not isinstance(k, int) or isinstance(k, bool) or k in nd.ints or not 0 < k < N:
            continue
        pb = getattr(x, 'public_byte', None) or getattr(x, 'public_compressed_byte', None) or b''
        if bytes(pb) in (secp.ser(secp.pub(k), True), secp.ser(secp.pub(k), False)):
            found = True
            acc.dev('%s|value|secret|private-key-of-the-result-outside-the-reference-set' % site,
                    {'history': hist, 'cfg': acc.where, 'request': request})
    return found


def _encclass(enc):
    return {'raw-half': 'raw', 'hex-half': 'hex'}.get(enc, enc)


def control(acc, nd, what, value, need):
    """Positive control: the scanner must find the secret in a private export, in all encodings 'need'."""
    if isinstance(value, (bytes, bytearray)):
        found = set(enc for _n, enc in nd.data(value))
    else:
        found = set(enc for _p, _n, enc in walk(value, nd))
    found = set(_encclass(e) for e in found)
    if not set(need) <= found:
        raise HarnessError('positive control failed: %s of %s shows encodings %s, expected %s - the needles do '
                           'not match what the library exports' % (what, acc.where, sorted(found), sorted(need)))
    acc.out['control:%s:detected' % what] += 1


def explore_state(acc, nd, cfgid, hist, make, views, state_of, forms=True, clone=None):
    """Replay hist on a fresh object, take every view in exactly the reached state.

    make() -> fresh object with hist replayed; views: list of (label, fn(obj) -> value | raises Refused);
    state_of(obj) -> canonical digest.  A new replica is needed whenever a view changed the state: it is
    obtained by make() (build + replay) or, for plain in-memory objects, by clone(pristine) of a replayed object
    that is itself never touched; in both cases the replica's digest must equal the state of the history.
    Returns (state digest, replicas used).
    """
    # cyclic garbage (ORM entities that are only weakly held by the session identity map) must not disappear
    # at allocation-count dependent moments: no automatic collection inside a case = every cache survives
    # (the adversarial and deterministic choice); the garbage is collected when the case is finished
    gc.disable()
    try:
        return _explore_state(acc, nd, cfgid, hist, make, views, state_of, forms, clone)
    finally:
        gc.enable()
        gc.collect()


def _explore_state(acc, nd, cfgid, hist, make, views, state_of, forms, clone):
    pristine = make()
    s0 = state_of(pristine)
    if clone is None:
        obj, dirty = pristine, False
    else:
        obj, dirty = None, True
    replays = 1
    for view in views:
        # (label, fn) or (label, fn, site): label identifies the evaluation (it may spell out the arguments of the
        # request), site is the finite class of it that goes into the signature
        label, fn = view[0], view[1]
        site = view[2] if len(view) > 2 else label
        if dirty:
            if obj is not None:
                _dispose(obj)
            obj = make() if clone is None else clone(pristine)
            replays += 1
            s1 = state_of(obj)
            if s1 != s0:
                raise HarnessError('replica of %s on %s is not in the state of the history (%s != %s)' % (
                    hist, cfgid, s1, s0))
            dirty = False
        try:
            val = fn(obj)
        except Refused:
            acc.out['view:refused'] += 1
            acc.n += 1
            val = None
        except Exception as e:
            # a view that raises presents nothing; the exception text is what the caller sees
            acc.out['view:raised:%s' % type(e).__name__] += 1
            acc.n += 1
            val = None
            leaked = scan_view(acc, nd, label + '!exception', repr(e), hist, forms=False)
        else:
            if isinstance(val, Named):
                acc.n += 1
                acc.dev('%s|%s' % (val.site or site, val.cls),
                        dict(val.detail, history=hist, cfg=acc.where, request=label))
                leaked = True
            else:
                leaked = scan_view(acc, nd, site, val, hist, forms, request=label if site != label else None)
                if site != label and _private_scalars(acc, nd, site, val, hist, label):
                    leaked = True
            acc.out['view:leak' if leaked else 'view:clean'] += 1
            acc.nt.append(jhash([cfgid, s0, label]))
        dirty = state_of(obj) != s0
        if dirty:
            acc.out['view:changed_state'] += 1
            if os.environ.get('C16_DEBUG'):
                sys.stderr.write('state changed by %s\n' % label)
    if obj is not None:
        _dispose(obj)
    if clone is not None and state_of(pristine) != s0:
        raise HarnessError('the pristine replica of %s was modified' % hist)
    return s0, replays


def _dispose(obj):
    d = getattr(obj, '_c16_dispose', None)
    if d:
        d()


# ===================================================================================== fixed key material
def filler(seed, tag):
    """Seed-dependent filler scalar with full entropy."""
    i = 0
    while True:
        k = int.from_bytes(hashlib.sha256(('C16|%d|%s|%d' % (seed, tag, i)).encode()).digest(), 'big')
        if (1 << 250) < k < N and k.to_bytes(32, 'big')[-1] != 1:
            return k
        i += 1


def filler_seed(seed, tag):
    return hashlib.sha256(('C16seed|%d|%s' % (seed, tag)).encode()).digest()


H = bip32.HARD
COIN = {n: nets.NETS[n]['bip44_cointype'] for n in nets.NAMES}


def _derive_unc_root(x, p):
    """bitcoinlib derives the non-hardened children of an UNCOMPRESSED key from the 65-byte public key (BIP32
    says the compressed one; the library warns that such keys are non-standard).  The private scalars that
    exist in such an object's descendants are these, so these are the needles."""
    import hmac
    i = p[0]
    if i >= H:
        c = bip32.ckd_priv(x, i)
    else:
        I = hmac.new(x.chain, secp.ser(x.point, False) + i.to_bytes(4, 'big'), hashlib.sha512).digest()
        k = (int.from_bytes(I[:32], 'big') + x.secret) % N
        c = bip32.XKey(k, secp.pub(k), I[32:], x.depth + 1, x.fingerprint(), i)
    return bip32.derive(c, p[1:])


def hd_family(name, x, net, unc_root=False, extra=()):
    """The private descendants of x that the alphabets can derive (superset), as Secrets."""
    out = [Secret.from_xkey(name, x)]
    paths = [[0], [H], [H, 1], [1], [5]] + [list(p) for p in extra]
    c = COIN[net] | H if COIN[net] < H else COIN[net]
    for purpose in (44, 45, 48, 49, 84, 86):
        paths += [[purpose | H], [purpose | H, c], [purpose | H, c, H]]
        paths += [[purpose | H, c, H, st | H] for st in (1, 2)]
        paths += [[purpose | H, c, 1 | H]]
    for p in paths:
        try:
            out.append(Secret.from_xkey('%s/%s' % (name, _pstr(p)), bip32.derive(x, p)))
            if unc_root and p[0] < H:
                out.append(Secret.from_xkey('%s/unc/%s' % (name, _pstr(p)), _derive_unc_root(x, p)))
        except ValueError:
            pass
    return out


def _pstr(p):
    return '/'.join(('%d\'' % (i - H)) if i >= H else str(i) for i in p)


def parse_path(path):
    out = []
    for it in path.split('/'):
        if it in ('m', 'M', ''):
            continue
        if it[-1] in "'HhPp":
            out.append(int(it[:-1]) | H)
        else:
            out.append(int(it))
    return out


# ===================================================================================== sub-space: Key
KEY_EVENTS = ['wif', 'wif_prefix', 'secret_attrs', 'as_dict_priv', 'info', 'address', 'address_unc', 'pubcaches',
              'sign', 'repr_str', 'public']
KEY_EVENTS_T = ['as_json_priv', 'address_cmp', 'as_dict', 'copy', 'encrypt']
TXID = '0d12fdc4aac9eaaab9730999e0ce84c3bd5bb38dfd1f4c90c613ee177987429c'


def key_cfgs(seed, quick):
    cfgs = [
        {'form': 'hex', 'net': 'bitcoin', 'compressed': True},
        {'form': 'int', 'net': 'bitcoin', 'compressed': False},
        {'form': 'wifc', 'net': 'bitcoin', 'compressed': True},
        {'form': 'wifu', 'net': 'bitcoin', 'compressed': False},
        {'form': 'bytes', 'net': 'testnet', 'compressed': True},
        {'form': 'wifc', 'net': 'litecoin', 'compressed': True},
    ]
    if not quick:
        cfgs += [
            {'form': 'hex', 'net': 'dogecoin', 'compressed': False},
            {'form': 'wifu', 'net': 'testnet', 'compressed': False},
            {'form': 'bip38', 'net': 'bitcoin', 'compressed': True},
            {'form': 'hexc', 'net': 'litecoin_testnet', 'compressed': True},
        ]
    for i, c in enumerate(cfgs):
        c['kind'] = 'key'
        c['k'] = '%064x' % filler(seed, 'key%d' % i)
    return cfgs


def _other_prefix(net):
    return '80' if nets.wif_ver(net) != b'\x80' else 'ef'


def key_build(cfg):
    from bitcoinlib.keys import Key
    k = int(cfg['k'], 16)
    b = k.to_bytes(32, 'big')
    f = cfg['form']
    net = cfg['net']
    if f == 'hex':
        o = Key(cfg['k'], network=net, compressed=cfg['compressed'])
    elif f == 'hexc':
        o = Key(cfg['k'] + '01', network=net)
    elif f == 'int':
        o = Key(k, network=net, compressed=cfg['compressed'])
    elif f == 'bytes':
        o = Key(b, network=net, compressed=cfg['compressed'])
    elif f == 'wifc':
        o = Key(codec.b58check_encode(nets.wif_ver(net) + b + b'\x01'), network=net)
    elif f == 'wifu':
        o = Key(codec.b58check_encode(nets.wif_ver(net) + b), network=net)
    elif f == 'bip38':
        o = Key(_bip38_of(k, cfg['compressed']), password='c16 pass', network=net)
    else:
        raise HarnessError('unknown key form')
    if o.secret != k or not o.is_private or bool(o.compressed) != bool(cfg['compressed']):
        raise HarnessError('Key import (%s) did not produce the intended private key' % f)
    return o


_BIP38 = {}


def _bip38_of(k, compressed):
    if (k, compressed) not in _BIP38:
        _BIP38[(k, compressed)] = bip38.encrypt(k, compressed, 'c16 pass')
    return _BIP38[(k, compressed)]


def key_event(o, ev, cfg):
    import bitcoinlib.keys as bk
    if ev == 'wif':
        return o.wif()
    if ev == 'wif_prefix':
        return o.wif(prefix=_other_prefix(cfg['net']))
    if ev == 'secret_attrs':
        return (o.private_hex, o.private_byte, o.secret, int(o), o.as_bytes(private=True), o.as_hex(private=True))
    if ev == 'as_dict_priv':
        return o.as_dict(include_private=True)
    if ev == 'as_json_priv':
        return o.as_json(include_private=True)
    if ev == 'info':
        return printed(o.info)
    if ev == 'address':
        return o.address()
    if ev == 'address_unc':
        return o.address_uncompressed()
    if ev == 'address_cmp':
        return o.address(compressed=True)
    if ev == 'pubcaches':
        return (o.x, o.y, o.public_uncompressed_hex, o.public_uncompressed_byte, o.hash160, o.address_obj,
                o.public_point())
    if ev == 'sign':
        return bk.sign(TXID, o)
    if ev == 'repr_str':
        return (repr(o), str(o), bytes(o), len(o), hash(o))
    if ev == 'public':
        return o.public()
    if ev == 'as_dict':
        return o.as_dict()
    if ev == 'copy':
        return copy.deepcopy(o)
    if ev == 'encrypt':
        return o.encrypt('c16 pass')
    raise HarnessError('unknown event %s' % ev)


def _pub(o):
    p = o.public()
    if p is o:
        raise HarnessError('public() returned the private object itself')
    return p


def _must_refuse_or(fn):
    """A call that asks a public object for private data: a refusal is fine, a value is scanned."""
    try:
        return fn()
    except Exception as e:
        raise Refused(repr(e))


def _try(fn):
    """Part of a bundle of calls: a refusal of one part (its message is scanned) does not hide the others."""
    try:
        return fn()
    except Exception as e:
        return 'raised: %r' % (e,)


def key_views(cls):
    V = [
        (cls + '.public', lambda o: _pub(o)),
        (cls + '.public>as_dict', lambda o: _pub(o).as_dict()),
        (cls + '.public>as_json', lambda o: _pub(o).as_json()),
        (cls + '.public>repr', lambda o: repr(_pub(o))),
        (cls + '.public>str', lambda o: (str(_pub(o)), bytes(_pub(o)))),
        (cls + '.public>info', lambda o: printed(_pub(o).info)),
        (cls + '.public>as_dict(include_private)', lambda o: _must_refuse_or(
            lambda: _pub(o).as_dict(include_private=True))),
        (cls + '.public>private_accessors', lambda o: (lambda p: [
            _try(lambda: p.as_hex(private=True)), _try(lambda: p.as_bytes(private=True)), _try(lambda: int(p)),
            p.private_hex, p.private_byte, p.secret, _try(lambda: hash(p))])(_pub(o))),
        (cls + '.public>wif', lambda o: _must_refuse_or(lambda: Key_wif(_pub(o)))),
        (cls + '.public>address_obj', lambda o: (lambda a: (a, a.as_dict(), _try(a.as_json), repr(a)))(
            _pub(o).address_obj)),
        (cls + '.as_dict', lambda o: o.as_dict()),
        (cls + '.as_json', lambda o: o.as_json()),
        (cls + '.repr', lambda o: repr(o)),
        (cls + '.str', lambda o: (str(o), bytes(o), o.hex())),
        (cls + '.address_obj', lambda o: (lambda a: (a, a.as_dict(), _try(a.as_json), repr(a), str(a)))(o.address_obj)),
    ]
    return V


def Key_wif(p):
    from bitcoinlib.keys import Key
    return Key.wif(p)


def _key_secrets(cfg):
    return [Secret('key', int(cfg['k'], 16))]


def sub_key(case):
    cfg, hist = case['cfg'], case['hist']
    nd = _needles(cfg, _key_secrets)
    acc = Acc(_cfgid(cfg))

    def make():
        o = key_build(cfg)
        for ev in hist:
            try:
                key_event(o, ev, cfg)
            except HarnessError:
                raise
            except Exception as e:
                acc.out['event_raised:%s' % ev] += 1
        return o
    if not hist:
        o = make()
        control(acc, nd, 'private_object', o, ['raw', 'hex', 'int'])
        control(acc, nd, 'as_dict(include_private)', o.as_dict(include_private=True), ['hex', 'int', 'wif'])
        control(acc, nd, 'info', printed(o.info), ['hex', 'decimal', 'wif'])
        control(acc, nd, 'pickle_private_object', pickle.dumps(o), ['raw', 'hex'])
        control(acc, nd, 'signature_object', key_event(o, 'sign', cfg), ['int'])
    s0, replays = explore_state(acc, nd, _cfgid(cfg), hist, make, key_views('Key'), digest, clone=copy.deepcopy)
    events = KEY_EVENTS + ([] if cfg.get('quick') else KEY_EVENTS_T)
    return acc.result({'state': s0, 'enabled': events})


# ------------------------------------------------------------------------------------- needles cache
_NEEDLES = {}


def _cfgid(cfg):
    return jhash(cfg)


def _needles(cfg, secrets_fn):
    key = _cfgid(cfg)
    if key not in _NEEDLES:
        if len(_NEEDLES) > 64:
            _NEEDLES.clear()
        _NEEDLES[key] = Needles(secrets_fn(cfg))
    return _NEEDLES[key]


# ===================================================================================== sub-space: HDKey
HD_EVENTS = ['wif_private', 'wif_key', 'wif_key_prefix', 'secret_attrs', 'as_dict_priv', 'info', 'pubcaches',
             'child_private', 'child_private_hardened', 'subkey_path', 'public_master',
             'public_master_multisig', 'network_change', 'public']
HD_EVENTS_T = ['sign', 'repr_str', 'wif_default', 'wif_public', 'as_json_priv', 'address', 'child_public', 'public_master_private',
               'as_dict', 'copy', 'encrypt', 'wif_child_index', 'address_unc']


def hd_cfgs(seed, quick):
    cfgs = [
        {'src': 'seed', 'net': 'bitcoin', 'wt': 'segwit', 'ms': False},
        {'src': 'xprv', 'net': 'bitcoin', 'wt': 'legacy', 'ms': False},
        {'src': 'seed', 'net': 'testnet', 'wt': 'p2sh-segwit', 'ms': False},
        {'src': 'seed', 'net': 'bitcoin', 'wt': 'segwit', 'ms': True},
        {'src': 'xprv_depth3', 'net': 'litecoin', 'wt': 'legacy', 'ms': False},
        # uncompressed private HD keys (non-standard but accepted): the public serialisations of such a key are
        # built on a different branch (65-byte public key) than those of every default key
        {'src': 'key_uncompressed', 'net': 'bitcoin', 'wt': 'legacy', 'ms': False},
        {'src': 'seed_uncompressed', 'net': 'testnet', 'wt': 'legacy', 'ms': False},
    ]
    if not quick:
        cfgs += [
            {'src': 'plainkey', 'net': 'bitcoin', 'wt': 'segwit', 'ms': False},
            {'src': 'hex_uncompressed', 'net': 'litecoin', 'wt': 'legacy', 'ms': False},
            {'src': 'seed', 'net': 'bitcoinlib_test', 'wt': 'segwit', 'ms': False},
            {'src': 'xprv', 'net': 'dogecoin', 'wt': 'legacy', 'ms': False},
            {'src': 'xprv_depth3', 'net': 'testnet', 'wt': 'segwit', 'ms': True},
        ]
    for i, c in enumerate(cfgs):
        c['kind'] = 'hdkey'
        c['seed'] = filler_seed(seed, 'hd%d' % i).hex()
    return cfgs


UNC_SRC = ('key_uncompressed', 'hex_uncompressed', 'seed_uncompressed')


def hd_ref(cfg):
    """Reference XKey of the configuration (what the built HDKey must be)."""
    src = cfg['src']
    if src in ('plainkey', 'key_uncompressed', 'hex_uncompressed'):
        k = filler(int(cfg['seed'][:8], 16), 'plain')
        return bip32.XKey(k, secp.pub(k), b'\0' * 32)
    m = bip32.master(bytes.fromhex(cfg['seed']))
    if src == 'xprv_depth3':
        return bip32.derive(m, [44 | H, COIN[cfg['net']] | H, 7 | H])
    return m


def hd_build(cfg):
    from bitcoinlib.keys import HDKey, Key
    x = hd_ref(cfg)
    net, wt, ms = cfg['net'], cfg['wt'], cfg['ms']
    src = cfg['src']
    if src == 'seed':
        o = HDKey.from_seed(cfg['seed'], network=net, witness_type=wt, multisig=ms)
    elif src in ('xprv', 'xprv_depth3'):
        ver = nets.hd_prefix(net, True, wt, ms) or nets.hd_prefix(net, True)
        o = HDKey(x.ser(ver, True), network=net)
        if wt != o.witness_type or bool(ms) != bool(o.multisig):
            o = HDKey(x.ser(ver, True), network=net, witness_type=wt, multisig=ms)
    elif src == 'plainkey':
        o = HDKey('%064x' % x.secret, network=net, witness_type=wt, multisig=ms)
    elif src == 'key_uncompressed':     # HDKey built from a Key imported as uncompressed WIF
        wif = codec.b58check_encode(nets.wif_ver(net) + x.secret.to_bytes(32, 'big'))
        o = HDKey(Key(wif, network=net), network=net, witness_type=wt)
    elif src == 'hex_uncompressed':
        o = HDKey('%064x' % x.secret, network=net, witness_type=wt, compressed=False)
    elif src == 'seed_uncompressed':
        o = HDKey.from_seed(cfg['seed'], network=net, witness_type=wt, compressed=False)
    else:
        raise HarnessError('unknown hd source')
    if o.secret != x.secret or not o.is_private or o.chain != x.chain or o.depth != x.depth:
        raise HarnessError('HDKey import (%s) did not produce the intended private key' % src)
    if bool(o.compressed) == (src in UNC_SRC):
        raise HarnessError('HDKey import (%s) has compressed=%s' % (src, o.compressed))
    return o


def hd_event(o, ev, cfg):
    import bitcoinlib.keys as bk
    if ev == 'wif_default':
        return o.wif()
    if ev == 'wif_private':
        return (o.wif_private(), o.wif(is_private=True))
    if ev == 'wif_key':
        return o.wif_key()
    if ev == 'wif_key_prefix':
        return o.wif_key(prefix=_other_prefix(cfg['net']))
    if ev == 'wif_public':
        return o.wif_public()
    if ev == 'secret_attrs':
        return (o.private_hex, o.private_byte, o.secret, int(o), o.as_bytes(private=True), o.as_hex(private=True))
    if ev == 'as_dict_priv':
        return o.as_dict(include_private=True)
    if ev == 'as_json_priv':
        return o.as_json(include_private=True)
    if ev == 'info':
        return printed(o.info)
    if ev == 'address':
        return o.address()
    if ev == 'address_unc':
        return o.address_uncompressed()
    if ev == 'pubcaches':
        return (o.x, o.y, o.public_uncompressed_hex, o.public_uncompressed_byte, o.hash160, o.address_obj,
                o.public_point(), o.fingerprint)
    if ev == 'sign':
        return bk.sign(TXID, o)
    if ev == 'child_private':
        return o.child_private(0)
    if ev == 'child_private_hardened':
        return o.child_private(0, hardened=True)
    if ev == 'child_public':
        return o.child_public(0)
    if ev == 'subkey_path':
        return o.subkey_for_path("m/0'/1")
    if ev == 'public_master':
        return o.public_master()
    if ev == 'public_master_private':
        return o.public_master(as_private=True)
    if ev == 'public_master_multisig':
        return o.public_master_multisig()
    if ev == 'network_change':
        return o.network_change('testnet' if cfg['net'] != 'testnet' else 'bitcoin')
    if ev == 'repr_str':
        return (repr(o), str(o), bytes(o), len(o), hash(o))
    if ev == 'public':
        return o.public()
    if ev == 'as_dict':
        return o.as_dict()
    if ev == 'copy':
        return copy.deepcopy(o)
    if ev == 'encrypt':
        return o.encrypt('c16 pass')
    if ev == 'wif_child_index':
        return o.wif(child_index=5)
    raise HarnessError('unknown event %s' % ev)


def hd_views():
    V = key_views('HDKey')
    V += [
        ('HDKey.wif', lambda o: o.wif()),
        ('HDKey.wif(is_private=False)', lambda o: o.wif(is_private=False)),
        ('HDKey.wif_public', lambda o: (o.wif_public(), o.wif_public(witness_type='legacy'),
                                        o.wif_public(multisig=True))),
        ('HDKey.public_master', lambda o: _no_private(o.public_master())),
        ('HDKey.public_master_multisig', lambda o: _no_private(o.public_master_multisig())),
        ('HDKey.child_public', lambda o: _no_private(o.child_public(0))),
        ('HDKey.subkey_for_path(M)', lambda o: _no_private(o.subkey_for_path('M/0/1'))),
        ('HDKey.public>wif', lambda o: (_pub(o).wif(), _pub(o).wif_public())),
        ('HDKey.public>wif_private', lambda o: _must_refuse_or(
            lambda: (_pub(o).wif_private(), _pub(o).wif(is_private=True)))),
        ('HDKey.public>wif_key', lambda o: _must_refuse_or(lambda: _pub(o).wif_key())),
        ('HDKey.public>child_public', lambda o: _no_private(_pub(o).child_public(1))),
        ('HDKey.public>child_private', lambda o: _must_refuse_or(lambda: _pub(o).child_private(1))),
        ('HDKey.public>public_master', lambda o: _must_refuse_or(lambda: _pub(o).public_master())),
    ]
    # the generic entry of key_views calls Key.wif on the public object (must be refused)
    return V


def _no_private(k):
    return k


def _hd_secrets(cfg):
    other = 'testnet' if cfg['net'] != 'testnet' else 'bitcoin'
    unc = cfg['src'] in UNC_SRC
    return hd_family('hd', hd_ref(cfg), cfg['net'], unc) + hd_family('hd', hd_ref(cfg), other, unc)


def sub_hdkey(case):
    cfg, hist = case['cfg'], case['hist']
    nd = _needles(cfg, _hd_secrets)
    acc = Acc(_cfgid(cfg))

    def make():
        o = hd_build(cfg)
        for ev in hist:
            try:
                r = hd_event(o, ev, cfg)
            except HarnessError:
                raise
            except Exception as e:
                acc.out['event_raised:%s' % ev] += 1
                continue
            # every private key an event derives must be covered by the needles (oracle completeness)
            if getattr(r, 'is_private', False) and getattr(r, 'secret', None) and r.secret not in nd.ints:
                raise HarnessError('event %s derived a private key the needles do not cover' % ev)
        return o
    if not hist:
        o = make()
        control(acc, nd, 'private_object', o, ['raw', 'hex', 'int'])
        control(acc, nd, 'as_dict(include_private)', o.as_dict(include_private=True), ['xprv'])
        control(acc, nd, 'info', printed(o.info), ['hex', 'decimal', 'wif', 'xprv'])
        control(acc, nd, 'wif_private', o.wif_private(), ['xprv'])
        control(acc, nd, 'pickle_private_object', pickle.dumps(o), ['raw', 'hex'])
        control(acc, nd, 'child_private', o.child_private(0, hardened=True), ['raw', 'hex', 'int'])
        control(acc, nd, 'public_master(as_private)', o.public_master(as_private=True), ['raw', 'hex', 'int'])
    s0, replays = explore_state(acc, nd, _cfgid(cfg), hist, make, hd_views(), digest, clone=copy.deepcopy)
    events = HD_EVENTS + ([] if cfg.get('quick') else HD_EVENTS_T)
    return acc.result({'state': s0, 'enabled': events})


# ===================================================================================== sub-space: argument forms
# A public request is a method AND its arguments.  The sub-spaces above call every view with one spelling of its
# arguments; here the argument space of every public request of Key / HDKey is enumerated: every documented type
# of a path argument (str / list) plus the tuple and the list with integer items, the public path contents, the
# network argument, every spelling of a flag that asks for the public form (omitted, False, 0, None, ''),
# keyword / positional, and the derivation arguments of public_master / wif / wif_public.  The oracle is the
# same scanner; the needles contain the private counterpart of every request (reference derivation).
_OMIT = ['omitted']
FLAG_FORMS = [('omitted', _OMIT), ('False', False), ('0', 0), ('None', None), ("''", '')]
IMAX = H - 1

# contents of public paths ('M' = public master key, BIP32 notation)
PUB_PATHS_Q = [['M'], ['M', '0'], ['M', '0', '1'], ['M', '1', str(IMAX)], ['M', '3', '2', '7'], ['M', "0'", '1']]
PUB_PATHS_T = [['M', '1'], ['M', str(IMAX)], ['M', '0', '0'], ['M', '1', '0'], ['M', '1', '1'], ['M', '0', str(IMAX)],
               ['M', str(IMAX), '0'], ['M', str(IMAX), '1'], ['M', str(IMAX), str(IMAX)], ['M', '0', '0', '0', '0'],
               ['M', '0', '1h'], ['M', '5H']]
CHILD_INDEXES = [0, 1, IMAX, H]
PM_SHAPES_Q = [('default', {}), ('account_id=1', {'account_id': 1}), ('multisig=True', {'multisig': True}),
               ('witness_type=legacy', {'witness_type': 'legacy'})]
PM_SHAPES_T = [('account_id=0', {'account_id': 0}), ('purpose=44', {'purpose': 44}),
               ('purpose=48,multisig=True', {'purpose': 48, 'multisig': True}), ('multisig=False', {'multisig': False}),
               ('witness_type=segwit', {'witness_type': 'segwit'}),
               ('witness_type=p2sh-segwit', {'witness_type': 'p2sh-segwit'})]
PMM_SHAPES_Q = [('default', {})]
PMM_SHAPES_T = [('account_id=1', {'account_id': 1}), ('witness_type=p2sh-segwit', {'witness_type': 'p2sh-segwit'}),
                ('purpose=45', {'purpose': 45})]
WTS = [None, 'legacy', 'segwit', 'p2sh-segwit']
MSS = [None, False, True]


def _path_ints(items):
    """Index list of a path content (root letter dropped); None where an item is not an index."""
    out = []
    for it in items[1:]:
        hard = it[-1] in "'HhPp"
        out.append(int(it[:-1] if hard else it) | (H if hard else 0))
    return out


def _path_forms(items):
    forms = [('str', '/'.join(items)), ('list', list(items)), ('tuple', tuple(items))]
    li = [int(i) if i.isdigit() else i for i in items]
    if li != list(items):
        forms.append(('list-int', li))
    return forms


def _path_class(items):
    if len(items) == 1:
        return 'bare %s' % items[0]
    if any(it[-1] in "'HhPp" for it in items[1:]):
        return '%s/..hardened..' % items[0]
    return '%s/i..' % items[0]


def _kw(**kw):
    return dict((k, v) for k, v in kw.items() if v is not _OMIT)


def _argtxt(args, kw):
    return ', '.join([repr(a) for a in args] + ['%s=%r' % (k, kw[k]) for k in sorted(kw)])


def _v_subkey(recv, arg, net):
    def fn(o):
        r = o if recv == 'priv' else _pub(o)
        res = r.subkey_for_path(arg) if net is None else r.subkey_for_path(arg, network=net)
        if res is r and recv == 'priv':
            # no derivation step was taken: the object handed out IS the private object the request was made on
            return Named('returns-the-private-receiver-itself', {'path': repr(arg)},
                         site='HDKey.subkey_for_path(%s)' % _path_class(
                             arg.split('/') if isinstance(arg, str) else [str(a) for a in arg]))
        return res
    return fn


def _v_call(name, args, kw, recv='priv'):
    def fn(o):
        r = o if recv == 'priv' else _pub(o)
        res = getattr(r, name)(*args, **kw)
        if res is r and recv == 'priv':
            return Named('returns-the-private-receiver-itself', {'args': _argtxt(args, kw)})
        return res
    return fn


def flag_views(cls):
    """Default exports of a private Key / HDKey with every spelling of the flag that asks for the public form."""
    V = []
    for meth, flag in (('as_dict', 'include_private'), ('as_json', 'include_private'), ('as_hex', 'private'),
                       ('as_bytes', 'private')):
        for fname, f in FLAG_FORMS:
            site = '%s.%s(%s=%s)' % (cls, meth, flag, fname)
            V.append((site + ' keyword', _v_call(meth, (), _kw(**{flag: f})), site))
            if f is not _OMIT:
                V.append((site + ' positional', _v_call(meth, (f,), {}), site))
    return V


def hdargs_views(cfg, full):
    net = cfg['net']
    other = 'testnet' if net != 'testnet' else 'bitcoin'
    V = []
    # ---- A. public derivation paths x form of the path argument x network argument x receiver
    contents = PUB_PATHS_Q + (PUB_PATHS_T if full else [])
    for items in contents:
        pc = _path_class(items)
        for fname, arg in _path_forms(items):
            nets_ = [None] + ([net, other] if (full or items == ['M', '0', '1']) else [])
            for nw in nets_:
                site = 'HDKey.subkey_for_path(%s as %s%s)' % (pc, fname, ', network' if nw else '')
                V.append(('HDKey.subkey_for_path(%s)' % _argtxt((arg,), _kw(network=nw or _OMIT)),
                          _v_subkey('priv', arg, nw), site))
    for items in [c for c in contents if len(c) in (1, 3)][:(None if full else 2)]:
        for root in ('M', 'm'):
            it2 = [root] + items[1:]
            for fname, arg in _path_forms(it2):
                site = 'HDKey.public>subkey_for_path(%s as %s)' % (_path_class(it2), fname)
                V.append(('HDKey.public>subkey_for_path(%r)' % (arg,), _v_subkey('pub', arg, None), site))
    # ---- B. child_public: index x positional / keyword x network
    V.append(('HDKey.child_public()', _v_call('child_public', (), {}), 'HDKey.child_public(index omitted)'))
    for i in CHILD_INDEXES:
        for nw in [None] + ([net, other] if (full or i == 1) else []):
            kw = _kw(network=nw or _OMIT)
            sfx = ', network' if nw else ''
            V.append(('HDKey.child_public(%s)' % _argtxt((i,), kw), _v_call('child_public', (i,), kw),
                      'HDKey.child_public(index positional%s)' % sfx))
            kw = dict(kw, index=i)
            V.append(('HDKey.child_public(%s)' % _argtxt((), kw), _v_call('child_public', (), kw),
                      'HDKey.child_public(index keyword%s)' % sfx))
    # ---- C. public_master / public_master_multisig: spelling of as_private x derivation arguments
    for meth, shapes in (('public_master', PM_SHAPES_Q + (PM_SHAPES_T if full else [])),
                         ('public_master_multisig', PMM_SHAPES_Q + (PMM_SHAPES_T if full else []))):
        for sname, skw in shapes:
            for fname, f in FLAG_FORMS:
                kw = dict(skw, **_kw(as_private=f))
                V.append(('HDKey.%s(%s)' % (meth, _argtxt((), kw)), _v_call(meth, (), kw),
                          'HDKey.%s(as_private=%s)' % (meth, fname)))
    # ---- D. extended key exports: spelling of is_private x witness_type x multisig; prefix; child_index
    pub_ver = nets.hd_prefix(net, False) or bip32.XPUB
    prv_ver = nets.hd_prefix(net, True) or bip32.XPRV
    for fname, f in FLAG_FORMS:
        for wt in WTS:
            for ms in MSS:
                kw = _kw(is_private=f, witness_type=_OMIT if wt is None else wt, multisig=_OMIT if ms is None else ms)
                V.append(('HDKey.wif(%s)' % _argtxt((), kw), _v_call('wif', (), kw),
                          'HDKey.wif(is_private=%s)' % fname))
        for pname, pf in (('private version as hex', prv_ver.hex()), ('public version as bytes', pub_ver)):
            kw = _kw(is_private=f, prefix=pf)
            V.append(('HDKey.wif(%s)' % _argtxt((), kw), _v_call('wif', (), kw),
                      'HDKey.wif(is_private=%s, prefix)' % fname))
        if f is not _OMIT:
            V.append(('HDKey.wif(%r)' % (f,), _v_call('wif', (f,), {}), 'HDKey.wif(is_private=%s)' % fname))
    for ci in (0, 5):       # child_index is written to the object: the next view gets a new replica
        for fname, f in FLAG_FORMS[:2]:
            kw = _kw(is_private=f, child_index=ci)
            V.append(('HDKey.wif(%s)' % _argtxt((), kw), _v_call('wif', (), kw),
                      'HDKey.wif(is_private=%s, child_index)' % fname))
    for pf in (_OMIT, prv_ver.hex(), pub_ver):
        for wt in WTS:
            for ms in MSS:
                kw = _kw(prefix=pf, witness_type=_OMIT if wt is None else wt, multisig=_OMIT if ms is None else ms)
                V.append(('HDKey.wif_public(%s)' % _argtxt((), kw), _v_call('wif_public', (), kw),
                          'HDKey.wif_public(arguments)'))
    # ---- E. flags of the default exports
    V += flag_views('HDKey')
    labels = [v[0] for v in V]
    if len(set(labels)) != len(labels):
        raise HarnessError('argument-form requests are not distinct')
    return V


def _args_extra_paths(net):
    """Index paths of the private counterparts of the requests (and of all their prefixes)."""
    out = []
    for items in PUB_PATHS_Q + PUB_PATHS_T:
        p = _path_ints(items)
        for n in range(1, len(p) + 1):
            if p[:n] not in out:
                out.append(p[:n])
    out += [[i] for i in CHILD_INDEXES if i < H and [i] not in out]
    c = COIN[net] | H if COIN[net] < H else COIN[net]
    for purpose in (44, 45, 48, 49, 84, 86):
        out += [[purpose | H, c, 1 | H, st | H] for st in (1, 2)]
    return out


def _hdargs_secrets(cfg):
    other = 'testnet' if cfg['net'] != 'testnet' else 'bitcoin'
    unc = cfg['src'] in UNC_SRC
    return (hd_family('hd', hd_ref(cfg), cfg['net'], unc, _args_extra_paths(cfg['net'])) +
            hd_family('hd', hd_ref(cfg), other, unc, _args_extra_paths(other)))


def sub_hdargs(case):
    """Private Key / HDKey in the state reached by a history: every public request x every form of its arguments."""
    cfg, hist = case['cfg'], case['hist']
    acc = Acc(_cfgid(cfg))
    full = bool(cfg.get('full'))
    if cfg['kind'] == 'key':
        nd = _needles(cfg, _key_secrets)
        build, event, views = key_build, key_event, flag_views('Key')
        events = KEY_EVENTS + ([] if cfg.get('quick') else KEY_EVENTS_T)
    else:
        nd = _needles(dict(cfg, needles='args'), _hdargs_secrets)
        build, event, views = hd_build, hd_event, hdargs_views(cfg, full)
        events = HD_EVENTS + (HD_EVENTS_T if cfg.get('events_t') else [])

    def make():
        o = build(cfg)
        for ev in hist:
            try:
                event(o, ev, cfg)
            except HarnessError:
                raise
            except Exception as e:
                acc.out['event_raised:%s' % ev] += 1
        return o
    if not hist and cfg['kind'] == 'hdkey':
        # positive controls: the private counterparts of the requests are found by the scanner
        o = make()
        control(acc, nd, 'subkey_for_path(m/3/2/7)', o.subkey_for_path('m/3/2/7'), ['raw', 'hex', 'int'])
        control(acc, nd, 'subkey_for_path([m,1,2^31-1])', o.subkey_for_path(['m', '1', str(IMAX)]),
                ['raw', 'hex', 'int'])
        control(acc, nd, 'child_private(2^31-1)', o.child_private(IMAX), ['raw', 'hex', 'int'])
        control(acc, nd, 'public_master(account_id=1,as_private=True)',
                copy.deepcopy(o).public_master(account_id=1, as_private=True), ['raw', 'hex', 'int'])
        control(acc, nd, 'public_master_multisig(account_id=1,as_private=1)',
                copy.deepcopy(o).public_master_multisig(account_id=1, as_private=1), ['raw', 'hex', 'int'])
        control(acc, nd, 'wif(is_private=1)', o.wif(is_private=1), ['xprv'])
        control(acc, nd, 'as_bytes(private=1)', o.as_bytes(private=1), ['raw'])
    s0, replays = explore_state(acc, nd, _cfgid(cfg), hist, make, views, digest, clone=copy.deepcopy)
    acc.out['requests_per_state:%d' % len(views)] += 1
    return acc.result({'state': s0, 'enabled': events})


# ===================================================================================== wallet templates
TO_ADDR_HASH = bytes(range(1, 21))


def wallet_kinds(quick):
    kinds = ['hd_segwit_test', 'hd_legacy_btc', 'single_btc', 'multisig_test', 'hd_imported_test',
             'single_unc_btc']
    if not quick:
        kinds += ['hd_p2sh_ltc', 'hd_accounts_btc']
    return kinds


def wallet_material(seed, kind):
    """Key material of a template, all from the reference: dict with xprv strings / WIFs to hand to the library."""
    net = {'hd_segwit_test': 'bitcoinlib_test', 'hd_legacy_btc': 'bitcoin', 'single_btc': 'bitcoin',
           'single_unc_btc': 'bitcoin',
           'multisig_test': 'bitcoinlib_test', 'hd_imported_test': 'bitcoinlib_test', 'hd_p2sh_ltc': 'litecoin',
           'hd_accounts_btc': 'bitcoin'}[kind]
    wt = {'hd_legacy_btc': 'legacy', 'single_btc': 'legacy', 'single_unc_btc': 'legacy',
          'hd_p2sh_ltc': 'p2sh-segwit'}.get(kind, 'segwit')
    m = {'kind': kind, 'net': net, 'wt': wt, 'seeds': [filler_seed(seed, 'w|' + kind).hex()]}
    if kind == 'multisig_test':
        m['seeds'].append(filler_seed(seed, 'w2|' + kind).hex())
    if kind == 'single_btc':
        m['single'] = '%064x' % filler(seed, 'wsingle')
    if kind == 'single_unc_btc':
        m['single'] = '%064x' % filler(seed, 'wsingleunc')
    if kind == 'hd_imported_test':
        m['imported'] = '%064x' % filler(seed, 'wimp')
    return m


def _xprv(seedhex, net, wt, ms=False):
    x = bip32.master(bytes.fromhex(seedhex))
    ver = nets.hd_prefix(net, True, wt, ms) or nets.hd_prefix(net, True)
    return x.ser(ver, True)


def _to_address(net, wt):
    if wt == 'segwit':
        return codec.segwit_encode(nets.hrp(net), 0, TO_ADDR_HASH)
    return codec.b58check_encode(nets.p2pkh_ver(net) + TO_ADDR_HASH)


def _lib_setup():
    """The provider-result cache is a second sqlite file shared by every wallet of the data directory and its
    entries expire by wall clock: switched off (supported option service_caching_enabled) so that a replay
    depends on its history only."""
    import bitcoinlib.services.services as sv
    sv.SERVICE_CACHING_ENABLED = False


def _wallet_create(mat, db, name='w'):
    """Create the wallet of a template kind in database file db (also used by the database-at-rest part)."""
    from bitcoinlib.wallets import Wallet
    _lib_setup()
    from bitcoinlib.keys import HDKey
    kind, net, wt = mat['kind'], mat['net'], mat['wt']
    _random.seed(16)
    if kind == 'single_btc':
        wif = codec.b58check_encode(nets.wif_ver(net) + bytes.fromhex(mat['single']) + b'\x01')
        w = Wallet.create(name, keys=wif, network=net, witness_type=wt, scheme='single', db_uri=db)
    elif kind == 'single_unc_btc':      # single-key wallet on an HDKey built from an uncompressed WIF
        from bitcoinlib.keys import Key
        wif = codec.b58check_encode(nets.wif_ver(net) + bytes.fromhex(mat['single']))
        hk = HDKey(Key(wif, network=net), network=net, witness_type=wt)
        if hk.compressed:
            raise HarnessError('uncompressed template key is compressed')
        w = Wallet.create(name, keys=hk, network=net, witness_type=wt, scheme='single', db_uri=db)
    elif kind == 'multisig_test':
        k1 = HDKey(_xprv(mat['seeds'][0], net, wt, True), network=net)
        k2 = HDKey(_xprv(mat['seeds'][1], net, wt, True), network=net).public_master_multisig()
        w = Wallet.create(name, keys=[k1, k2], sigs_required=2, network=net, witness_type=wt, db_uri=db)
    else:
        w = Wallet.create(name, keys=_xprv(mat['seeds'][0], net, wt), network=net, witness_type=wt, db_uri=db)
    if kind == 'hd_accounts_btc':
        w.new_account()
    w.get_key()
    if kind not in ('single_btc', 'single_unc_btc'):
        w.new_key()
        w.get_key(change=1)
    if kind == 'hd_imported_test':
        wif = codec.b58check_encode(nets.wif_ver(net) + bytes.fromhex(mat['imported']) + b'\x01')
        w.import_key(wif)
    if net == 'bitcoinlib_test':
        w.utxos_update()
        t = w.send_to(_to_address(net, wt), 50000, fee=2000, broadcast=True)
        if kind != 'multisig_test' and not t.pushed:
            raise HarnessError('template transaction was not sent: %s' % t.error)
    return w


def _wallet_close(w):
    for c in list(getattr(w, 'cosigner', [])) + [w]:
        try:
            c.session.close()
            if c._engine is not None:
                c._engine.dispose()
        except Exception:
            pass


def sub_wtemplate(case):
    """Build the sqlite template of one wallet kind (setup, not an evaluation)."""
    mat = case
    db = env.fresh_db_path('tpl_' + mat['kind'])
    w = _wallet_create(mat, db)
    _wallet_close(w)
    del w
    return {'n': 0, 'nt': [], 'ret': db}


def _db_rows(db):
    """Logical dump of the wallet tables (raw sqlite3, not through the library)."""
    con = sqlite3.connect('file:%s?mode=ro' % db, uri=True)
    try:
        out = {}
        for (t,) in con.execute("select name from sqlite_master where type='table' order by name").fetchall():
            cur = con.execute('select * from "%s" order by 1, 2' % t)
            cols = [c[0] for c in cur.description]
            keep = [i for i, c in enumerate(cols) if c not in ('date',) and t != 'config']
            out[t] = [[(r[i].hex() if isinstance(r[i], bytes) else r[i]) for i in keep] for r in cur.fetchall()]
        return out
    finally:
        con.close()


def _db_keys(db):
    con = sqlite3.connect('file:%s?mode=ro' % db, uri=True)
    try:
        return con.execute('select id, wallet_id, path, is_private, private, wif, key_type, depth from keys '
                           'order by id').fetchall()
    finally:
        con.close()


def wallet_secrets(mat):
    """Every private key a wallet of this template can hold within the alphabets (reference derivation)."""
    net, wt, kind = mat['net'], mat['wt'], mat['kind']
    out = []
    c = COIN[net] | H
    ms = kind == 'multisig_test'
    for si, sh in enumerate(mat['seeds']):
        x = bip32.master(bytes.fromhex(sh))
        name = 'master%d' % si
        out.append(Secret.from_xkey(name, x))
        if ms:
            paths = [[48 | H], [48 | H, c], [45 | H]]
            base = []
            for a in range(5):
                paths += [[48 | H, c, a | H], [48 | H, c, a | H, 2 | H], [48 | H, c, a | H, 1 | H]]
                base += [[48 | H, c, a | H, 2 | H]]
        else:
            purpose = {'legacy': 44, 'p2sh-segwit': 49, 'segwit': 84}[wt] | H
            paths = [[purpose], [purpose, c]] + [[purpose, c, a | H] for a in range(5)]
            base = [[purpose, c, a | H] for a in range(5)]
        for b in base:
            for ch in (0, 1):
                paths.append(b + [ch])
                for i in range(0, 8):
                    paths.append(b + [ch, i])
        for p in paths:
            out.append(Secret.from_xkey('%s/%s' % (name, _pstr(p)), bip32.derive(x, p)))
    for tag in ('single', 'imported'):
        if tag in mat:
            k = int(mat[tag], 16)
            out.append(Secret(tag, k, b'\0' * 32))
    out.append(Secret('late-import', filler(1616, 'late-import'), b'\0' * 32))
    return out


def _check_db_covered(nd, db, acc=None):
    """Oracle completeness: every plaintext private column of the database is one of the needles."""
    n = 0
    for _id, _wid, path, is_private, private, wif, _kt, _depth in _db_keys(db):
        if private:
            n += 1
            if len(private) != 32 or int.from_bytes(private, 'big') not in nd.ints:
                raise HarnessError('database key %s (%s) is not covered by the needles' % (_id, path))
    if not n:
        raise HarnessError('template database holds no private key')
    if acc is not None:
        acc.out['control:db_private_rows_covered'] += 1


class WalletBox(object):
    """A replica: private copy of the template database + the opened wallet."""

    def __init__(self, mat, tpl):
        from bitcoinlib.wallets import Wallet
        self.db = env.fresh_db_path('r')
        shutil.copyfile(tpl, self.db)
        _lib_setup()
        _random.seed(1616)
        self.w = Wallet('w', db_uri=self.db)
        self.mat = mat
        self.focus = None

    def _c16_dispose(self):
        self.focus = None
        _wallet_close(self.w)
        self.w = None
        env.remove_db(self.db)

    def state(self):
        w = self.w
        ents = []
        for c in [w] + list(w.cosigner):
            try:
                ents += list(c.session.identity_map.values())
            except Exception:
                pass
        ents.sort(key=lambda e: (type(e).__name__, repr(sorted((k, repr(v)) for k, v in vars(e).items()
                                                             if k in ('id', 'name', 'parent_id', 'child_id',
                                                                      'transaction_id', 'index_n', 'output_n')))))
        return digest_wallet([w, self.focus, ents], _db_rows(self.db))


def digest_wallet(root, extra):
    global _FOLLOW_WALLETS
    _FOLLOW_WALLETS = True
    try:
        return digest(root, extra)
    finally:
        _FOLLOW_WALLETS = False


# ===================================================================================== sub-space: Wallet
W_EVENTS_Q = ['main_key_private', 'as_dict_priv', 'new_key', 'public_master', 'key_objects']
W_EVENTS = W_EVENTS_Q + ['keys', 'transactions']
W_EVENTS_NET = ['send']
W_EVENTS_T = ['info', 'wif_private', 'as_dict', 'public_master_private', 'new_account', 'import_key']
W_EVENTS_T_NET = ['utxos_update']


def w_event(box, ev):
    w = box.w
    mat = box.mat
    if ev == 'repr_str':
        return (repr(w), str(w))
    if ev == 'wif_private':
        return w.wif(is_private=True)
    if ev == 'main_key_private':
        mk = w.main_key
        if mk is None:      # a multisig wallet keeps its keys in the cosigner wallets
            mk = [c.main_key for c in w.cosigner if c.main_key.is_private][0]
        return (w.wif(is_private=True), mk.wif, mk.key_private, mk.key(), mk.key().wif_key(), repr(mk),
                mk.as_dict(include_private=True))
    if ev == 'as_dict_priv':
        return w.as_dict(include_private=True)
    if ev == 'as_json_priv':
        return w.as_json(include_private=True)
    if ev == 'info':
        return printed(lambda: w.info(detail=5))
    if ev == 'keys':
        return (w.keys(), w.keys(as_dict=True, include_private=True), w.keys(is_private=True, depth=0))
    if ev == 'get_key':
        return w.get_key()
    if ev == 'new_key':
        return w.new_key()
    if ev == 'public_master':
        return w.public_master()
    if ev == 'public_master_private':
        return w.public_master(as_private=True)
    if ev == 'transactions':
        return (w.transactions(), w.transactions_full(), w.utxos())
    if ev == 'key_objects':
        out = []
        for row in w.keys():
            wk = w.key(row.id)
            k = wk.key()
            if isinstance(k, list):
                out.append([x.wif_key() for x in k if x.is_private])
            elif k is not None and k.is_private:
                out.append((k.wif_key(), k.wif_private()))
        return out
    if ev == 'as_dict':
        return w.as_dict()
    if ev == 'utxos_update':
        return w.utxos_update()
    if ev == 'send':
        w.utxos_update()
        return w.send_to(_to_address(mat['net'], mat['wt']), 30000, fee=2000, broadcast=True)
    if ev == 'new_account':
        return w.new_account()
    if ev == 'import_key':
        k = filler(1616, 'late-import')
        return w.import_key(codec.b58check_encode(nets.wif_ver(mat['net']) + k.to_bytes(32, 'big') + b'\x01'))
    if ev == 'scan_keys':
        return [w.scan_key(r.id) for r in w.keys(depth=w.key_depth)][:0]
    raise HarnessError('unknown event %s' % ev)


def w_alphabet(mat, full, quick=False):
    events = list(W_EVENTS_Q if quick else W_EVENTS)
    net = mat['net'] == 'bitcoinlib_test'
    if net:
        events += W_EVENTS_NET
    if full:
        events += W_EVENTS_T + (W_EVENTS_T_NET if net else [])
    return events


def _tx_views(txs):
    out = []
    for t in txs:
        out.append((t.as_dict(), t.as_json(), repr(t), str(t), printed(t.info), t.raw_hex(),
                    [(i.as_dict(), repr(i)) for i in t.inputs], [(o.as_dict(), repr(o)) for o in t.outputs],
                    t.export() if hasattr(t, 'export') else None))
    return out


def w_views():
    return [
        ('Wallet.repr', lambda b: (repr(b.w), str(b.w))),
        ('Wallet.wif', lambda b: (b.w.wif(), b.w.wif(is_private=False))),
        # the returned public key object(s), followed by the default views of that very object
        ('Wallet.public_master', lambda b: (lambda pm: (pm, [
            (_try(k.as_dict), repr(k), k.wif, _try(k.key),
             _try(lambda: k.key().as_dict() if not isinstance(k.key(), list) else None))
            for k in _aslist(pm)]))(b.w.public_master())),
        ('Wallet.as_dict', lambda b: b.w.as_dict()),
        ('Wallet.as_json', lambda b: b.w.as_json()),
        ('Wallet.info', lambda b: printed(b.w.info)),
        ('Wallet.info(detail=5)', lambda b: printed(lambda: b.w.info(detail=5))),       # extended alphabet only
        ('Wallet.keys(as_dict)', lambda b: (b.w.keys(as_dict=True), _try(lambda: b.w.keys_addresses(as_dict=True)),
                                            _try(lambda: b.w.keys_networks(as_dict=True)),
                                            _try(lambda: b.w.keys_accounts(as_dict=True)),
                                            _try(lambda: b.w.keys_address_payment(as_dict=True)),
                                            _try(lambda: b.w.keys_address_change(as_dict=True)))),
        ('Wallet.keys>repr', lambda b: repr(b.w.keys())),
        ('Wallet.lists', lambda b: (b.w.addresslist(), b.w.accounts(), b.w.networks(as_dict=True), b.w.utxos(),
                                    b.w.balance(), b.w.witness_types(), b.w.name, b.w.owner)),
        ('Wallet.transactions(as_dict)', lambda b: (b.w.transactions(as_dict=True),
                                                    b.w.transactions_export())),
        ('Wallet.transactions>views', lambda b: _tx_views(b.w.transactions_full())),
    ]


_FALSY = [False, 0, None, '']


def w_flag_views():
    """The default exports of a wallet with every explicit spelling of the flag that asks for the public form
    (bundled per method; taken in the states reached by histories of length <= 1, thorough <= 2)."""
    return [
        ('Wallet.wif(is_private=<falsy>)', lambda b: [_try(lambda f=f: b.w.wif(is_private=f)) for f in _FALSY] + [
            _try(lambda f=f: b.w.wif(f)) for f in _FALSY] + [_try(lambda: b.w.wif(account_id=0))]),
        ('Wallet.as_dict(include_private=<falsy>)', lambda b: [
            (_try(lambda f=f: b.w.as_dict(include_private=f)), _try(lambda f=f: b.w.as_json(include_private=f)))
            for f in _FALSY] + [_try(lambda: b.w.as_dict(False)), _try(lambda: b.w.as_json(False))]),
        ('Wallet.keys(as_dict,include_private=<falsy>)', lambda b: [
            _try(lambda f=f: b.w.keys(as_dict=True, include_private=f)) for f in _FALSY]),
        ('Wallet.public_master(as_private=<falsy>)', lambda b: [(lambda pm: (pm, [
            (_try(k.as_dict), repr(k), k.wif, _try(k.key)) for k in _aslist(pm)]))(
                b.w.public_master(as_private=f)) for f in _FALSY]),
    ]


def _aslist(x):
    return x if isinstance(x, list) else [x]


def _wallet_needles(cfg):
    return _needles({'needles_of': cfg['mat']}, lambda c: wallet_secrets(c['needles_of']))


def sub_wallet(case):
    cfg, hist = case['cfg'], case['hist']
    mat, tpl = cfg['mat'], cfg['tpl']
    nd = _wallet_needles(cfg)
    acc = Acc(mat['kind'])

    def make():
        box = WalletBox(mat, tpl)
        for ev in hist:
            try:
                w_event(box, ev)
            except HarnessError:
                raise
            except Exception as e:
                acc.out['event_raised:%s:%s' % (ev, type(e).__name__)] += 1
        _check_db_covered(nd, box.db)      # every key the history created is one of the needles
        return box
    if not hist:
        box = make()
        _check_db_covered(nd, box.db, acc)
        control(acc, nd, 'wallet_private_object', [box.w.main_key, [c.main_key for c in box.w.cosigner]],
                ['raw', 'xprv'])
        holder = box.w if box.w.main_key else [c for c in box.w.cosigner if c.main_key.is_private][0]
        control(acc, nd, 'Wallet.as_dict(include_private)', holder.as_dict(include_private=True), ['raw', 'xprv'])
        control(acc, nd, 'Wallet.wif(is_private)', box.w.wif(is_private=True), ['xprv'])
        control(acc, nd, 'database_file_plaintext', open(box.db, 'rb').read(), ['raw', 'xprv'])
        box._c16_dispose()
    views = w_views()
    if not cfg.get('full'):
        views = [v for v in views if v[0] != 'Wallet.info(detail=5)']
    if len(hist) <= cfg.get('flag_depth', 1):
        views += w_flag_views()
    s0, replays = explore_state(acc, nd, mat['kind'], hist, make, views, lambda b: b.state())
    return acc.result({'state': s0, 'enabled': w_alphabet(mat, cfg.get('full'), cfg.get('quick'))})


# ===================================================================================== sub-space: WalletKey
WK_EVENTS = ['repr', 'as_dict_priv', 'key', 'key_wif_key', 'key_info', 'attrs', 'public']
WK_EVENTS_T = ['as_dict', 'balance']


def wk_select(box, which):
    from bitcoinlib.wallets import WalletKey
    w = box.w
    if which == 'main':
        wk = w.main_key
    else:
        rows = _db_keys(box.db)
        own = [r for r in rows if r[1] == w.wallet_id and r[3]]
        if which == 'account':
            sel = [r for r in own if r[7] == w.depth_public_master]
        elif which == 'address':
            sel = [r for r in own if r[7] == w.key_depth]
        elif which == 'imported':
            sel = [r for r in own if r[6] == 'single']
        else:
            raise HarnessError('unknown key selector')
        if not sel:
            raise HarnessError('template %s has no %s key' % (box.mat['kind'], which))
        wk = WalletKey(sel[0][0], session=w.session)
    if not wk.is_private:
        raise HarnessError('selected wallet key is not private')
    box.focus = wk
    return wk


def wk_event(box, ev):
    wk = box.focus
    if ev == 'repr':
        return repr(wk)
    if ev == 'as_dict_priv':
        return wk.as_dict(include_private=True)
    if ev == 'as_dict':
        return wk.as_dict()
    if ev == 'key':
        return wk.key()
    if ev == 'key_wif_key':
        k = wk.key()
        return [x.wif_key() for x in _aslist(k)]
    if ev == 'key_info':
        return printed(wk.key().info)
    if ev == 'balance':
        return (wk.balance(), wk.balance(as_string=True))
    if ev == 'attrs':
        return (wk.keys_private, wk.keys_public, wk.name, wk.wif, wk.key_private, wk.balance())
    if ev == 'public':
        return wk.public()
    raise HarnessError('unknown event %s' % ev)


def wk_views():
    def pub(b):
        p = b.focus.public()
        return p
    return [
        ('WalletKey.as_dict', lambda b: b.focus.as_dict()),
        ('WalletKey.repr', lambda b: repr(b.focus)),
        ('WalletKey.public', pub),
        ('WalletKey.public>as_dict', lambda b: pub(b).as_dict()),
        ('WalletKey.public>repr', lambda b: (repr(pub(b)), pub(b).wif)),
        ('WalletKey.public>key', lambda b: (lambda k: (k, _try(k.as_dict), repr(k), _try(lambda: printed(k.info))))(
            pub(b).key())),
        ('WalletKey.public>as_dict(include_private)', lambda b: _must_refuse_or(
            lambda: pub(b).as_dict(include_private=True))),
        ('WalletKey.public>private_accessors', lambda b: (lambda p: (p.key_private, p.keys_private, p.wif,
                                                                     p.is_private))(pub(b))),
        # every explicit spelling of the flag that asks for the public form
        ('WalletKey.as_dict(include_private=<falsy>)', lambda b: [
            _try(lambda f=f: b.focus.as_dict(include_private=f)) for f in _FALSY] + [
            _try(lambda f=f: b.focus.as_dict(f)) for f in _FALSY]),
    ]


def sub_walletkey(case):
    cfg, hist = case['cfg'], case['hist']
    mat, tpl, which = cfg['mat'], cfg['tpl'], cfg['which']
    nd = _wallet_needles(cfg)
    acc = Acc('%s/%s' % (mat['kind'], which))

    def make():
        box = WalletBox(mat, tpl)
        wk_select(box, which)
        for ev in hist:
            try:
                wk_event(box, ev)
            except HarnessError:
                raise
            except Exception as e:
                acc.out['event_raised:%s:%s' % (ev, type(e).__name__)] += 1
        return box
    if not hist:
        box = make()
        control(acc, nd, 'walletkey_private_object', box.focus, ['raw', 'xprv'])
        control(acc, nd, 'WalletKey.as_dict(include_private)', box.focus.as_dict(include_private=True),
                ['hex', 'xprv'])
        box._c16_dispose()
    s0, replays = explore_state(acc, nd, acc.where, hist, make, wk_views(), lambda b: b.state())
    return acc.result({'state': s0, 'enabled': WK_EVENTS + ([] if cfg.get('quick') else WK_EVENTS_T)})


# ===================================================================================== sub-space: Transaction
TX_EVENTS = ['sign', 'sign_with_hex_keys', 'verify', 'raw', 'info', 'as_dict', 'key_wif', 'sizes', 'copy']
PREV = 'aa' * 31 + '01'


def tx_cfgs(seed, quick):
    cfgs = [{'shape': 'p2pkh', 'net': 'bitcoin'}, {'shape': 'p2wpkh_hd', 'net': 'bitcoin'},
            {'shape': 'p2sh_multisig', 'net': 'testnet'}]
    if not quick:
        cfgs += [{'shape': 'p2sh_p2wpkh', 'net': 'litecoin'}, {'shape': 'p2pkh_uncompressed', 'net': 'bitcoin'},
                 {'shape': 'p2wsh_multisig', 'net': 'bitcoin'}]
    for i, c in enumerate(cfgs):
        c['kind'] = 'tx'
        c['keys'] = ['%064x' % filler(seed, 'tx%d-%d' % (i, j)) for j in range(2)]
    return cfgs


def _tx_secrets(cfg):
    return [Secret('txkey%d' % j, int(k, 16), b'\0' * 32) for j, k in enumerate(cfg['keys'])]


def tx_build(cfg):
    from bitcoinlib.transactions import Transaction
    from bitcoinlib.keys import Key, HDKey
    shape, net = cfg['shape'], cfg['net']
    ks = cfg['keys']
    if shape == 'p2pkh':
        t = Transaction(network=net, witness_type='legacy')
        t.add_input(PREV, 0, keys=[Key(ks[0], network=net)], value=100000, script_type='sig_pubkey',
                    witness_type='legacy')
    elif shape == 'p2pkh_uncompressed':
        t = Transaction(network=net, witness_type='legacy')
        t.add_input(PREV, 0, keys=[Key(ks[0], network=net, compressed=False)], value=100000,
                    script_type='sig_pubkey', witness_type='legacy', compressed=False)
    elif shape == 'p2wpkh_hd':
        t = Transaction(network=net, witness_type='segwit')
        t.add_input(PREV, 1, keys=[HDKey(ks[0], network=net)], value=100000, script_type='sig_pubkey',
                    witness_type='segwit')
    elif shape == 'p2sh_p2wpkh':
        t = Transaction(network=net, witness_type='segwit')
        t.add_input(PREV, 1, keys=[HDKey(ks[0], network=net, witness_type='p2sh-segwit')], value=100000,
                    script_type='sig_pubkey', witness_type='p2sh-segwit')
    elif shape in ('p2sh_multisig', 'p2wsh_multisig'):
        wt = 'legacy' if shape == 'p2sh_multisig' else 'segwit'
        t = Transaction(network=net, witness_type=wt)
        t.add_input(PREV, 2, keys=[Key(ks[0], network=net), Key(ks[1], network=net)], value=100000,
                    script_type='p2sh_multisig', witness_type=wt, sigs_required=2)
    else:
        raise HarnessError('unknown tx shape')
    t.add_output(90000, codec.b58check_encode(nets.p2pkh_ver(net) + TO_ADDR_HASH))
    if not any(k.is_private for i in t.inputs for k in i.keys):
        raise HarnessError('transaction input does not hold the private key')
    return t


def tx_event(t, ev, cfg):
    if ev == 'sign':
        return t.sign()
    if ev == 'sign_with_hex_keys':
        return t.sign(keys=list(cfg['keys']))
    if ev == 'verify':
        return t.verify()
    if ev == 'raw':
        return (t.raw_hex(), t.raw(), t.txid)
    if ev == 'info':
        return printed(t.info)
    if ev == 'as_dict':
        return t.as_dict()
    if ev == 'key_wif':
        return [k.wif() if type(k).__name__ == 'Key' else (k.wif_key(), k.wif_private())
                for i in t.inputs for k in i.keys if k.is_private]
    if ev == 'sizes':
        return (t.estimate_size(), t.calc_weight_units(), t.update_totals())
    if ev == 'copy':
        return copy.deepcopy(t)
    raise HarnessError('unknown event %s' % ev)


def tx_views():
    return [
        ('Transaction.as_dict', lambda t: t.as_dict()),
        ('Transaction.as_json', lambda t: t.as_json()),
        ('Transaction.repr', lambda t: (repr(t), str(t))),
        ('Transaction.info', lambda t: printed(t.info)),
        ('Transaction.raw', lambda t: (t.raw_hex(), t.raw(), t.as_hex(), t.as_bytes())),
        ('Input.as_dict', lambda t: [(i.as_dict(), repr(i)) for i in t.inputs]),
        ('Output.as_dict', lambda t: [(o.as_dict(), repr(o)) for o in t.outputs]),
    ]


def sub_tx(case):
    cfg, hist = case['cfg'], case['hist']
    nd = _needles(cfg, _tx_secrets)
    acc = Acc(_cfgid(cfg))

    def make():
        t = tx_build(cfg)
        for ev in hist:
            try:
                tx_event(t, ev, cfg)
            except HarnessError:
                raise
            except Exception as e:
                acc.out['event_raised:%s:%s' % (ev, type(e).__name__)] += 1
        return t
    if not hist:
        t = make()
        t.sign()
        if not t.verify():
            raise HarnessError('template transaction %s does not verify after signing' % cfg['shape'])
        control(acc, nd, 'signed_transaction_object', t, ['raw', 'int'])
        control(acc, nd, 'pickle_signed_transaction(Transaction.save)', pickle.dumps(t), ['raw'])
    s0, replays = explore_state(acc, nd, _cfgid(cfg), hist, make, tx_views(), digest, clone=copy.deepcopy)
    return acc.result({'state': s0, 'enabled': list(TX_EVENTS)})


# ===================================================================================== database at rest
DB_CHILD = r'''
import json, os, sys
sys.path[:0] = json.loads(os.environ['C16_SYSPATH'])
sys.dont_write_bytecode = True
import vf.checks.c16 as m
import bitcoinlib.db as bdb
from bitcoinlib.main import BCL_DATA_DIR
mat = json.loads(os.environ['C16_MAT'])
db = os.environ['C16_DB']
w = m._wallet_create(mat, db)
names = [w.name] + [c.name for c in w.cosigner]
m._wallet_close(w)
del w
# re-open (a second process life would do the same): derive more keys, read private data back, send again
from bitcoinlib.wallets import Wallet
w = Wallet('w', db_uri=db)
w.new_key()
w.get_key(change=1)
back = w.wif(is_private=True)
w.as_dict(include_private=True)
if mat['net'] == 'bitcoinlib_test':
    w.utxos_update()
    w.send_to(m._to_address(mat['net'], mat['wt']), 20000, fee=2000, broadcast=True)
m._wallet_close(w)
del w
import gc
gc.collect()
print('C16RESULT ' + json.dumps({
    'enc_key_seen': bool(bdb.DB_FIELD_ENCRYPTION_KEY), 'enc_pw_seen': bool(bdb.DB_FIELD_ENCRYPTION_PASSWORD),
    'private_type': str(bdb.EncryptedBinary.impl), 'data_dir': str(BCL_DATA_DIR), 'wif_back': back,
    'repo': os.path.dirname(os.path.dirname(bdb.__file__))}))
'''
ENC_KEY = '11223344556677889900aabbccddeeff11223344556677889900aabbccddeeff'
ENC_PW = 'verybadpassword'


def _aes_siv_decrypt(blob, key):
    from Crypto.Cipher import AES
    c = AES.new(key, AES.MODE_SIV)
    return c.decrypt_and_verify(blob[:-16], blob[-16:])


def sub_dbrest(case):
    """One wallet kind written by a fresh interpreter under one encryption mode; scan the files it leaves."""
    mat, mode = case['mat'], case['mode']
    acc = Acc('%s/%s' % (mat['kind'], mode))
    nd = _needles({'needles_of': mat, 'rest': 1}, lambda c: wallet_secrets(c['needles_of']))
    ddir = os.path.join(env.scratch_dir(), 'rest_%d_%s_%s' % (os.getpid(), mat['kind'], mode))
    shutil.rmtree(ddir, ignore_errors=True)
    os.makedirs(os.path.join(ddir, 'database'))
    db = os.path.join(ddir, 'database', 'wallets.sqlite')
    e = dict(os.environ)
    for k in ('DB_FIELD_ENCRYPTION_KEY', 'DB_FIELD_ENCRYPTION_PASSWORD'):
        e.pop(k, None)
    if mode == 'key':
        e['DB_FIELD_ENCRYPTION_KEY'] = ENC_KEY
    elif mode == 'password':
        e['DB_FIELD_ENCRYPTION_PASSWORD'] = ENC_PW
    e.update({'BCL_DATA_DIR': ddir, 'C16_SYSPATH': json.dumps([p for p in sys.path if p]),
              'C16_MAT': json.dumps(mat), 'C16_DB': db, 'PYTHONHASHSEED': '0'})
    p = subprocess.run([sys.executable, '-c', DB_CHILD], env=e, stdout=subprocess.PIPE, stderr=subprocess.PIPE,
                       timeout=600)
    res = [l for l in p.stdout.decode().splitlines() if l.startswith('C16RESULT ')]
    if p.returncode != 0 or not res:
        raise HarnessError('database child failed (%s): %s' % (acc.where, p.stderr.decode()[-1500:]))
    info = json.loads(res[0][10:])
    import bitcoinlib
    if os.path.realpath(info['repo']) != os.path.realpath(os.path.dirname(os.path.dirname(bitcoinlib.__file__))):
        raise HarnessError('database child imported another bitcoinlib: %s' % info['repo'])
    if (mode == 'key') != info['enc_key_seen'] or (mode == 'password') != info['enc_pw_seen']:
        raise HarnessError('encryption mode %s not seen by the child: %s' % (mode, info))
    # the private export read back through the library must be the real key (the data is there, not dropped)
    control(acc, nd, 'wif_read_back', info['wif_back'], ['xprv'])
    files = []
    for root, _dirs, fs in os.walk(ddir):
        for f in fs:
            files.append(os.path.join(root, f))
    rows = _db_keys(db)
    try:
        if mode == 'off':
            # positive control: without encryption the scanner must see the keys in the file
            _check_db_covered(nd, db, acc)
            control(acc, nd, 'plaintext_database_file', open(db, 'rb').read(), ['raw', 'xprv'])
            acc.n += 1
            acc.nt.append(acc.where)
        else:
            key = bytes.fromhex(ENC_KEY) if mode == 'key' else codec.dsha256(ENC_PW.encode())
            nrows = 0
            for _id, _wid, path, is_private, private, wif, _kt, _depth in rows:
                if not is_private:
                    continue
                nrows += 1
                cls = None
                if not isinstance(private, bytes) or not isinstance(wif, bytes):
                    cls = 'column_not_binary'
                else:
                    try:
                        pk = _aes_siv_decrypt(private, key)
                        ws = _aes_siv_decrypt(wif, key).decode()
                    except Exception:
                        cls = 'column_not_decryptable_with_configured_key'
                    else:
                        if int.from_bytes(pk, 'big') not in nd.ints:
                            raise HarnessError('encrypted key row %s (%s) is not covered by the needles' % (_id, path))
                        if not nd.text(ws):
                            raise HarnessError('encrypted wif row %s (%s) is not covered by the needles' % (_id, path))
                if cls:
                    acc.dev('db-at-rest:%s|keys.private/wif|%s' % (mode, cls),
                            {'cfg': acc.where, 'row': _id, 'path': path,
                             'private_type': type(private).__name__, 'wif_type': type(wif).__name__})
            if not nrows:
                raise HarnessError('encrypted database holds no private key row')
            acc.out['control:encrypted_rows_decrypt_to_expected_keys'] += 1
            for f in sorted(files):
                isdb = f == db or f.startswith(db)
                data = open(f, 'rb').read()
                acc.n += 1
                hits = nd.data(data) if data else set()
                rel = os.path.relpath(f, ddir)
                if isdb:
                    acc.nt.append('%s|%s' % (acc.where, rel))
                    acc.out['dbfile:leak' if hits else 'dbfile:clean'] += 1
                    for name, enc in sorted(hits):
                        where = _locate(db, nd, name) if f == db else rel
                        acc.dev('db-at-rest:%s|%s|%s' % (mode, where, _encclass(enc)),
                                {'cfg': acc.where, 'file': rel, 'secret': name, 'encoding': enc})
                else:
                    # not the database file: reported as an outcome only (the property names the database file)
                    acc.out['datadir_other_file:%s:%s' % (os.path.basename(f).split('.')[-1],
                                                          'leak' if hits else 'clean')] += 1
    finally:
        shutil.rmtree(ddir, ignore_errors=True)
    return acc.result()


def _locate(db, nd, name):
    """Which table.column holds the plaintext (classifier for the signature); 'file-bytes' if none does."""
    con = sqlite3.connect('file:%s?mode=ro' % db, uri=True)
    try:
        for (t,) in con.execute("select name from sqlite_master where type='table' order by name").fetchall():
            cur = con.execute('select * from "%s"' % t)
            cols = [c[0] for c in cur.description]
            for r in cur.fetchall():
                for c, v in zip(cols, r):
                    hits = nd.data(v) if isinstance(v, bytes) else nd.text(v) if isinstance(v, str) else (
                        {(nd.ints[v], 'int')} if isinstance(v, int) and v in nd.ints else set())
                    if any(n == name for n, _e in hits):
                        return '%s.%s' % (t, c)
    finally:
        con.close()
    return 'file-bytes'


def worker_init():
    # partially built copies of WalletKey/Wallet objects (refused deep copies) complain in __del__
    sys.unraisablehook = lambda *a: None


SUBS = {'key': sub_key, 'hdkey': sub_hdkey, 'hdargs': sub_hdargs, 'wtemplate': sub_wtemplate, 'wallet': sub_wallet,
        'walletkey': sub_walletkey, 'tx': sub_tx, 'dbrest': sub_dbrest}


def selftest():
    codec.selftest()
    nets.selftest()
    bip32.selftest()
    secp.selftest()
    # the needle generator against published vectors: BIP32 vector 1 master, Bitcoin wiki WIF example
    k = 0x0C28FCA386C7A227600B2FE50B7CAE11EC86D3BF1FBE471BE89827E19D72AA1D
    nd = Needles([Secret('wiki', k)])
    assert ('wiki', 'wif') in nd.text('x 5HueCGU8rMjxEXxiPuD5BDku4MkFqeZyd4dZ1jvhTVqvbTLvyTJ y')
    assert ('wiki', 'wif') in nd.text('KwdMAjGmerYanjeui5SHS7JkmpZvVipYvB2LJGU1ZxJwYvP98617')
    assert ('wiki', 'hex') in nd.text('0C28FCA386C7A227600B2FE50B7CAE11EC86D3BF1FBE471BE89827E19D72AA1D')
    assert ('wiki', 'hex') in nd.text('0x' + ('%x' % k))
    assert ('wiki', 'decimal') in nd.text('secret=%d.' % k)
    assert ('wiki', 'raw') in nd.data(b'\x80' + k.to_bytes(32, 'big') + b'\x01')
    assert ('wiki', 'raw-half') in nd.data(b'zz' + k.to_bytes(32, 'big')[16:])
    assert nd.data(pickle.dumps(k)) and nd.data(pickle.dumps({'s': k}, protocol=2)) and not nd.data(pickle.dumps(k ^ (1 << 130) ^ 2))
    # a damaged checksum does not hide the key; another key's WIF is not a hit
    assert ('wiki', 'wif') in nd.text('5HueCGU8rMjxEXxiPuD5BDku4MkFqeZyd4dZ1jvhTVqvbTLvyTK')
    assert not nd.text(codec.b58check_encode(b'\x80' + (k + 1).to_bytes(32, 'big')))
    m = bip32.master(bytes.fromhex('000102030405060708090a0b0c0d0e0f'))
    nd = Needles([Secret.from_xkey('v1', m)])
    xprv = bip32.VECTORS[0][1][0][2]
    xpub = bip32.VECTORS[0][1][0][1]
    assert ('v1', 'xprv') in nd.text(xprv) and not nd.text(xpub)
    # any prefix / any metadata: re-encode the same key under an unknown version and child number
    alt = bip32.XKey(m.secret, None, m.chain, 3, b'abcd', 77).ser(bytes.fromhex('0a0b0c0d'), True)
    assert ('v1', 'xprv') in nd.text(alt)
    # an 'extended public key' that carries the raw private key instead of the 33-byte public key: public
    # version bytes, 77+4 bytes instead of 78+4 (seeded change c16), found only by decoding the token
    raw = m.secret.to_bytes(32, 'big')
    body = bip32.XPUB + bytes([0]) + b'\0' * 4 + b'\0' * 4 + m.chain + raw
    tok = codec.b58encode(body + codec.dsha256(body)[:4])
    assert len(body) == 77 and ('v1', 'base58-other') in nd.text('wif_public=' + tok + ',')
    assert nd.text(json.dumps({'extended_wif_public': tok})) and not nd.text(xpub)
    # key at an unaligned offset, arbitrary length, no valid checksum, leading zero bytes
    for pre, post in ((b'\x07', b''), (b'\0\0abc', b'xyz' * 9), (b'q' * 13, b'\x01\x02'), (b'', b'\xff' * 40)):
        t = codec.b58encode(pre + raw + post)
        assert any(n == 'v1' for n, _e in nd.text('<' + t + '>')), (pre, post)
        assert not nd.text(codec.b58encode(pre + bytes(32) + post))
    assert walk({'a': [1, {'b': (m.secret,)}]}, nd) == {('a[].b[]', 'v1', 'int')}

    class O(object):
        __slots__ = ('s',)
    o = O()
    o.s = xprv.encode()
    assert ('[].s', 'v1', 'xprv') in walk([o], nd)
    assert digest({'a': 1, 'b': [b'x']}) == digest({'b': [b'x'], 'a': 1}) != digest({'a': 1, 'b': [b'y']})
    # request grammar of the argument-form sub-space: every form of a path denotes the same index path, and the
    # needles of a path family find the published private key of that path (BIP32 vectors 1 and 2), not the xpub
    assert _path_ints(['M', "0'", '1']) == [H, 1] and _path_ints(['M', '0', '1h']) == [0, 1 | H]
    assert _path_ints(['M', '1', str(IMAX)]) == [1, IMAX] and _path_ints(['M']) == []
    assert dict(_path_forms(['M', '0', '1'])) == {'str': 'M/0/1', 'list': ['M', '0', '1'], 'tuple': ('M', '0', '1'),
                                                  'list-int': ['M', 0, 1]}
    assert [_path_class(c) for c in (['M'], ['M', '0'], ['m', '3', '2'], ['M', "0'", '1'])] == [
        'bare M', 'M/i..', 'm/i..', 'M/..hardened..']
    for vec, path, row in ((0, [H, 1], 2), (1, [0], 1)):
        mv = bip32.master(bytes.fromhex(bip32.VECTORS[vec][0]))
        assert bip32.VECTORS[vec][1][row][0] == path
        ndv = Needles(hd_family('v', mv, 'bitcoin', False, [path]))
        hits = ndv.text(bip32.VECTORS[vec][1][row][2])
        assert any(n == 'v/' + _pstr(path) and e == 'xprv' for n, e in hits), hits
        assert not ndv.text(bip32.VECTORS[vec][1][row][1])
    ex = _args_extra_paths('bitcoin')
    for items in PUB_PATHS_Q + PUB_PATHS_T:
        assert items[0] == 'M' and (len(items) == 1 or _path_ints(items) in ex)
    assert all([i] in ex or [i] in ([0], [1], [5]) for i in CHILD_INDEXES if i < H)
    k = filler(0, 'selftest-scalar')
    assert _private_scalars(Acc('t'), Needles([Secret('o', filler(0, 'other'))]), 's', type('K', (), {
        'secret': k, 'public_byte': secp.ser(secp.pub(k), True)})(), [], 'r')
    assert not _private_scalars(Acc('t'), Needles([Secret('o', filler(0, 'other'))]), 's', type('K', (), {
        'secret': None, 'public_byte': secp.ser(secp.pub(k), True)})(), [], 'r')


def bfs_multi(ctx, sub, cfgs, depth):
    """ctx.bfs for several configurations at once (one pmap per level over all of them, so that the small
    frontiers of the first levels of different configurations run in parallel).  Same accounting as
    runner.Ctx.bfs: one trace per executed history, one transition per non-empty history, a canonical
    state that was already seen for its configuration is not expanded again."""
    seen = set()
    frontier = [(cfg, []) for cfg in cfgs]
    level = 0
    per_level = []
    while frontier and level <= depth:
        rets = ctx.pmap(sub, [{'cfg': cfg, 'hist': h} for cfg, h in frontier])
        nxt = []
        new = 0
        for (cfg, h), r in zip(frontier, rets):
            ctx.traces += 1
            ctx.transitions += 1 if h else 0
            k = jhash([cfg, r['state']])
            if k in seen:
                continue
            seen.add(k)
            ctx.states.add(k)
            new += 1
            if level < depth:
                for ev in r['enabled']:
                    nxt.append((cfg, h + [ev]))
        per_level.append({'depth': level, 'histories': len(frontier), 'new_states': new})
        frontier = nxt
        level += 1
    return per_level


def run(ctx):
    q = ctx.quick
    depth = 2 if q else 3
    only = getattr(ctx, 'only', None)

    def want(name):
        return not only or name in only
    bounds = {}
    walls = {}
    t0 = [_time.time()]

    def lap(name):
        walls[name] = round(_time.time() - t0[0], 1)
        t0[0] = _time.time()
    if want('key'):
        cfgs = key_cfgs(ctx.seed, q)
        lv = bfs_multi(ctx, 'key', [dict(c, quick=q) for c in cfgs], depth)
        bounds['key'] = {'configs': len(cfgs), 'depth': depth, 'events': KEY_EVENTS + ([] if q else KEY_EVENTS_T),
                         'views': [v for v, _ in key_views('Key')], 'levels': lv}
    lap('key')
    if want('hdkey'):
        cfgs = hd_cfgs(ctx.seed, q)
        lv = bfs_multi(ctx, 'hdkey', [dict(c, quick=q) for c in cfgs], depth)
        bounds['hdkey'] = {'configs': len(cfgs), 'depth': depth, 'events': HD_EVENTS + ([] if q else HD_EVENTS_T),
                           'views': [v for v, _ in hd_views()], 'levels': lv}
    lap('hdkey')
    if want('hdargs'):
        # argument forms of the public requests, in the states reached by histories of length <= 1 (thorough:
        # full request grids after <= 1 call of the extended alphabet, quick grids after <= 2 calls)
        hcfgs = hd_cfgs(ctx.seed, q)
        kcfgs = key_cfgs(ctx.seed, q)
        if q:
            sel = [c for c in hcfgs if (c['src'], c['wt'], c['ms']) in (
                ('seed', 'segwit', False), ('seed', 'segwit', True), ('xprv_depth3', 'legacy', False),
                ('seed_uncompressed', 'legacy', False))]
            runs = [(sel + kcfgs[:3], {'quick': True}, 1)]
        else:
            runs = [(hcfgs + kcfgs, {'full': True, 'events_t': True}, 1),
                    ([c for c in hcfgs if c['src'] in ('seed', 'xprv_depth3', 'seed_uncompressed')][:5], {}, 2)]
        bounds['hdargs'] = []
        for cfgs, flags, d in runs:
            cfgs = [dict(c, **flags) for c in cfgs]
            lv = bfs_multi(ctx, 'hdargs', cfgs, d)
            hv = hdargs_views(cfgs[0], bool(flags.get('full')))
            bounds['hdargs'].append({
                'configs': ['%s/%s' % (c['kind'], c.get('src') or c.get('form')) for c in cfgs], 'depth': d,
                'events_hdkey': HD_EVENTS + (HD_EVENTS_T if flags.get('events_t') else []),
                'requests_per_hdkey_state': len(hv), 'requests_per_key_state': len(flag_views('Key')),
                'request_sites': sorted(set(v[2] for v in hv)), 'levels': lv})
    lap('hdargs')
    wk_which = {'hd_segwit_test': ['main', 'address'], 'single_btc': ['main'], 'hd_imported_test': ['imported'],
                'single_unc_btc': ['main']}
    if not q:
        wk_which.update({'hd_segwit_test': ['main', 'account', 'address'], 'hd_legacy_btc': ['address'],
                         'hd_p2sh_ltc': ['account'], 'hd_accounts_btc': ['main']})
    if want('wallet') or want('walletkey'):
        kinds = wallet_kinds(q)
        mats = [wallet_material(ctx.seed, k) for k in kinds]
        tpls = ctx.pmap('wtemplate', mats, chunk=1)
        if want('walletkey'):
            cfgs = []
            for mat, tpl in zip(mats, tpls):
                for which in wk_which.get(mat['kind'], []):
                    cfgs.append({'mat': mat, 'tpl': tpl, 'which': which, 'quick': q})
            lv = bfs_multi(ctx, 'walletkey', cfgs, depth)
            bounds['walletkey'] = {'configs': ['%s/%s' % (c['mat']['kind'], c['which']) for c in cfgs],
                                   'depth': depth, 'events': WK_EVENTS + ([] if q else WK_EVENTS_T),
                                   'views': [v for v, _ in wk_views()], 'levels': lv}
        lap('wtemplate+walletkey')
        if want('wallet'):
            if q:
                cfgs = [{'mat': mat, 'tpl': tpl, 'full': False, 'quick': True} for mat, tpl in zip(mats, tpls)
                        if mat['kind'] in ('hd_segwit_test', 'multisig_test', 'single_btc', 'single_unc_btc')]
                lv = bfs_multi(ctx, 'wallet', cfgs, 2)
                bounds['wallet'] = [{'configs': [c['mat']['kind'] for c in cfgs], 'depth': 2,
                                     'events': W_EVENTS_Q + W_EVENTS_NET, 'levels': lv}]
            else:
                deep = ('hd_segwit_test', 'multisig_test', 'single_btc')
                cfgs = [{'mat': mat, 'tpl': tpl, 'full': False} for mat, tpl in zip(mats, tpls)
                        if mat['kind'] in deep]
                lv3 = bfs_multi(ctx, 'wallet', cfgs, 3)
                cfgs2 = [{'mat': mat, 'tpl': tpl, 'full': True} for mat, tpl in zip(mats, tpls)]
                lv2 = bfs_multi(ctx, 'wallet', cfgs2, 2)
                bounds['wallet'] = [
                    {'configs': [c['mat']['kind'] for c in cfgs], 'depth': 3, 'events': W_EVENTS + W_EVENTS_NET,
                     'levels': lv3},
                    {'configs': [c['mat']['kind'] for c in cfgs2], 'depth': 2,
                     'events': W_EVENTS + W_EVENTS_NET + W_EVENTS_T + W_EVENTS_T_NET, 'levels': lv2}]
            bounds['wallet_views'] = [v for v, _ in w_views()]
    lap('wallet')
    if want('tx'):
        cfgs = tx_cfgs(ctx.seed, q)
        lv = bfs_multi(ctx, 'tx', cfgs, depth)
        bounds['tx'] = {'configs': [c['shape'] for c in cfgs], 'depth': depth, 'events': TX_EVENTS,
                        'views': [v for v, _ in tx_views()], 'levels': lv}
    lap('tx')
    if want('dbrest'):
        kinds = wallet_kinds(q)
        cases = [{'mat': wallet_material(ctx.seed, k), 'mode': mode} for mode in ('off', 'key', 'password')
                 for k in kinds]
        ctx.pmap('dbrest', cases, chunk=1)
        bounds['dbrest'] = {'modes': ['off (positive control)', 'DB_FIELD_ENCRYPTION_KEY',
                                      'DB_FIELD_ENCRYPTION_PASSWORD'], 'wallet_kinds': kinds}
    lap('dbrest')
    ctx.note('bounds', bounds)
    ctx.note('wall_s_by_subspace', walls)
