"""C03 HD key derivation conforms to BIP32; public and private derivation agree; hardened-from-public is refused.

E1 input-space enumeration on bitcoinlib.keys.HDKey (from_seed, import of extended keys, subkey_for_path,
child_private, child_public, public) against the BIP32 reference vf/ref/bip32.py (validated on the BIP32
test vectors 1-4).

For every root key and every path over the element alphabet the library derives
  (A) the whole path privately (`root.subkey_for_path('m/...')`, also relative and list spelling),
  (B) for every split point s: privately to depth s, `.public()`, the rest publicly,
  (C) the whole path publicly from the private root (`'M/...'`),
and each result is compared field by field (secret, public key, chain code, depth, child number, parent
fingerprint, xprv / xpub string) with the reference; a hardened element (marker ' h H p P or index >= 2^31)
in a public part must raise.
"""
import hashlib
import hmac
import itertools

from vf.ref import bip32, secp

ID = 'C03'
LEVEL = 'exploration'
RULE = ('all element sequences up to the stated depth over the element alphabet {0, 1, 2^31-1} x {no marker, '
        "', h, H, p, P} + raw indices 2^31 and 2^32-1 (every spelling on one root, the semantic alphabet "
        "{none, '} on all other roots), for every root (seeds of the stated lengths and byte patterns, BIP32 "
        'vector seeds, one VERIF_SEED window; roots imported as seed bytes, seed hex, xprv/xpub strings at depth '
        '0..2, key+chain) and every split point between private and public derivation, plus M/ paths, deep '
        'paths (depth 8/10) over a small alphabet and the integer API child_private/child_public on boundary '
        'indices. A case is non-trivial when the library returned a key that was compared field by field with '
        'the reference, or was required to raise; distinct by (root, path, split, spelling).')
ASSUMPTIONS = [
    'trusted base: vf/ref/bip32.py + vf/ref/secp.py (BIP32 test vectors 1-4 incl. leading-zero vectors, '
    'private/public commutation checked in selftest), hashlib/hmac',
    'an index >= 2^31 written without a hardened marker on a private parent denotes the hardened child of that '
    'number (BIP32 has one 32-bit child number); the library may instead refuse it, both are accepted; returning '
    'any other key is a deviation',
    'indices >= 2^32 are not BIP32 child numbers: any refusal is accepted, a returned key is a deviation',
    'keys are compared on network bitcoin with witness_type legacy (xprv/xpub version bytes); other version '
    'bytes belong to C12',
    'a path relative to an imported non-master key may start with m/ (the library reads m as "this key")',
    'the 1-in-2^127 cases IL >= n / child key 0 are not constructible and not enumerated',
]

HARD = bip32.HARD
MARKS = ("'", 'h', 'H', 'p', 'P')
T31 = 1 << 31
T32 = 1 << 32


def selftest():
    secp.selftest()
    bip32.selftest()
    # the layout model used to *name* the known wrong behaviour reproduces the reference when fed correctly
    m = bip32.master(bytes.fromhex('000102030405060708090a0b0c0d0e0f'))
    a = bip32.ckd_priv(m, HARD)
    b = _ckd_priv_layout(m, HARD, True)
    assert (a.secret, a.chain, a.child) == (b.secret, b.chain, b.child)
    a = bip32.ckd_priv(m, 5)
    b = _ckd_priv_layout(m, 5, False)
    assert (a.secret, a.chain, a.child) == (b.secret, b.chain, b.child)
    c = _ckd_pub_layout(m.neuter(), 5)
    assert c.point == a.point and c.chain == a.chain
    assert _parse('0') == (0, False) and _parse("2147483647'") == (T31 - 1, True) and _parse('7P') == (7, True)


# ------------------------------------------------------------------------------------------- reference side
def _parse(e):
    marker = e[-1] in MARKS
    return int(e[:-1] if marker else e), marker


def _eff(e):
    """BIP32 child number meant by a path element, or None if it is not a child number."""
    idx, marker = _parse(e)
    if idx < 0 or idx >= T32:
        return None
    return idx | HARD if marker else idx


def _is_hardened(e):
    idx, marker = _parse(e)
    return marker or idx >= HARD


def _ambiguous(e):
    """raw index in [2^31, 2^32) without marker: hardened child by number, refusal tolerated."""
    idx, marker = _parse(e)
    return not marker and HARD <= idx < T32


def _ckd_priv_layout(x, i, hardened_layout):
    """CKDpriv with the HMAC data layout chosen independently of i (the library's behaviour for raw i >= 2^31)."""
    if hardened_layout:
        data = b'\0' + x.secret.to_bytes(32, 'big') + i.to_bytes(4, 'big')
    else:
        data = x.pub + i.to_bytes(4, 'big')
    I = hmac.new(x.chain, data, hashlib.sha512).digest()
    k = (int.from_bytes(I[:32], 'big') + x.secret) % secp.N
    return bip32.XKey(k, secp.pub(k), I[32:], x.depth + 1, x.fingerprint(), i)


def _ckd_pub_layout(x, i):
    """CKDpub formula applied to any 32-bit i (the library's behaviour for i == 2^31)."""
    I = hmac.new(x.chain, x.pub + i.to_bytes(4, 'big'), hashlib.sha512).digest()
    pt = secp.add(secp.mul_g(int.from_bytes(I[:32], 'big')), x.point)
    return bip32.XKey(None, pt, I[32:], x.depth + 1, x.fingerprint(), i)


def _model_private(x, elems):
    """The named wrong behaviour on private parents: marker -> hardened; no marker -> non-hardened layout for any i."""
    for e in elems:
        idx, marker = _parse(e)
        if idx >= T32:
            return None
        x = _ckd_priv_layout(x, idx | HARD if marker else idx, marker)
    return x


_MODEL_MEMO = {}


def _model_public(x, elems):
    """The named wrong behaviour on public parents: marker ignored, only index > 2^31 refused."""
    key0 = (x.pub, x.chain, x.depth)
    idxs = []
    for e in elems:
        idx, marker = _parse(e)
        if idx > HARD:
            return None
        idxs.append(idx)
    if len(_MODEL_MEMO) > 200000:
        _MODEL_MEMO.clear()
    x = x.neuter()
    for i in range(len(idxs)):
        key = (key0, tuple(idxs[:i + 1]))
        nx = _MODEL_MEMO.get(key)
        if nx is None:
            nx = _ckd_pub_layout(x, idxs[i])
            _MODEL_MEMO[key] = nx
        x = nx
    return x


class _Ref(object):
    """Memoised reference derivation below one root."""

    def __init__(self, root):
        self.nodes = {(): root}

    def get(self, effs):
        effs = tuple(effs)
        n = self.nodes.get(effs)
        if n is None:
            n = bip32.ckd_priv(self.get(effs[:-1]), effs[-1])
            self.nodes[effs] = n
        return n


def _ref_root(spec):
    m = bip32.master(bytes.fromhex(spec['seed']))
    return bip32.derive(m, spec.get('at', []))


def _lib_root(spec, ref):
    """Import the root into the library in the requested way (the import is part of what is checked)."""
    from bitcoinlib.keys import HDKey
    how = spec['import']
    seed = bytes.fromhex(spec['seed'])
    if how == 'seed_bytes':
        return HDKey.from_seed(seed, witness_type='legacy')
    if how == 'seed_hex':
        return HDKey.from_seed(spec['seed'], witness_type='legacy')
    if how == 'key_chain':
        return HDKey(key=ref.secret.to_bytes(32, 'big'), chain=ref.chain, depth=ref.depth, child_index=ref.child,
                     parent_fingerprint=ref.parent_fp, witness_type='legacy')
    if how == 'xprv':
        return HDKey(ref.ser(bip32.XPRV, True))
    if how == 'xprv_from_wif':
        return HDKey.from_wif(ref.ser(bip32.XPRV, True))
    if how == 'xpub':
        return HDKey(ref.ser(bip32.XPUB, False))
    if how == 'xpub_from_wif':
        return HDKey.from_wif(ref.ser(bip32.XPUB, False))
    raise ValueError(how)


def _fields(k):
    """Observable fields of a library key."""
    f = {
        'is_private': bool(k.is_private),
        'secret': k.secret if k.is_private else None,
        'private_hex': k.private_hex if k.is_private else None,
        'pub': k.public_hex,
        'pub_byte': k.public_byte.hex(),
        'chain': k.chain.hex(),
        'depth': k.depth,
        'child': k.child_index,
        'fp': k.parent_fingerprint.hex(),
        'xpub': k.wif_public(),
        'own_fp': k.fingerprint.hex(),
    }
    if k.is_private:
        f['xprv'] = k.wif_private()
    return f


def _diff(k, ref, want_private):
    """Names of the fields in which the library key differs from the reference key."""
    try:
        f = _fields(k)
    except Exception as e:
        return ['fields_raise_' + type(e).__name__]
    exp = {
        'is_private': want_private,
        'pub': ref.pub.hex(), 'pub_byte': ref.pub.hex(), 'chain': ref.chain.hex(), 'depth': ref.depth,
        'child': ref.child, 'fp': ref.parent_fp.hex(), 'xpub': ref.ser(bip32.XPUB, False),
        'own_fp': ref.fingerprint().hex(),
    }
    if want_private:
        exp.update({'secret': ref.secret, 'private_hex': '%064x' % ref.secret, 'xprv': ref.ser(bip32.XPRV, True)})
    bad = [n for n in sorted(exp) if f.get(n) != exp[n]]
    if not want_private and f.get('is_private'):
        bad = sorted(set(bad + ['is_private']))
    return bad


def _spec_key(spec):
    return hashlib.sha256(repr(sorted((k, str(v)) for k, v in spec.items())).encode()).hexdigest()[:16]


class _Devs(object):
    def __init__(self):
        self.devs = []
        self.seen = set()
        self.out = {}
        self.n = 0
        self.nt = 0

    def dev(self, sig, detail):
        self.out['dev'] = self.out.get('dev', 0) + 1
        if sig not in self.seen:
            self.seen.add(sig)
            self.devs.append({'sig': sig, 'detail': detail})

    def label(self, name):
        self.out[name] = self.out.get(name, 0) + 1


def _call(fn):
    try:
        return fn(), None
    except Exception as e:
        return None, e


def _judge_private(D, site, root_ref, ref, elems, got, exc, detail):
    """Private derivation of elems below root: got is the library key or None (exc set)."""
    D.n += 1
    effs = [_eff(e) for e in elems]
    lenient = any(_ambiguous(e) for e in elems)
    if None in effs:
        if exc is None:
            D.dev(site + '|index>=2^32_returned_a_key', detail)
        else:
            D.label('refused_not_a_child_number')
        D.nt += 1
        return False
    if exc is not None:
        if lenient:
            D.label('refused_raw_index>=2^31')
            return False
        D.dev(site + '|valid_path_refused|' + type(exc).__name__, dict(detail, exc=repr(exc)[:160]))
        return False
    D.nt += 1
    want = ref.get(effs)
    bad = _diff(got, want, True)
    if not bad:
        D.label('private_ok')
        return True
    if lenient:
        model = _model_private(root_ref, elems)
        if model is not None and not _diff(got, model, True):
            D.dev(site + '|index>=2^31_without_marker_derived_with_nonhardened_data_layout', dict(detail, fields=bad))
            return False
    D.dev(site + '|unexplained|' + ','.join(bad), dict(detail, fields=bad))
    return False


def _judge_public(D, site, parent_ref, ref, effs_prefix, elems, got, exc, detail):
    """Public derivation of elems below the (public) key whose reference is parent_ref."""
    D.n += 1
    D.nt += 1
    hard = [e for e in elems if _is_hardened(e)]
    if hard:
        if exc is not None:
            D.label('hardened_from_public_refused')
            return
        first = hard[0]
        idx, marker = _parse(first)
        kind = 'hardened_marker_ignored' if marker else 'index_2^31_accepted' if idx == HARD else 'index>2^31_accepted'
        model = _model_public(parent_ref, elems)
        if model is not None and not _diff(got, model, False):
            D.dev('%s|hardened_from_public_returns_key|%s(result=public_child_formula_on_the_bare_index)' % (site, kind),
                  dict(detail, first_hardened_element=first))
        else:
            D.dev('%s|hardened_from_public_returns_key|unexplained' % site, dict(detail, first_hardened_element=first))
        return
    if exc is not None:
        D.dev(site + '|valid_public_path_refused|' + type(exc).__name__, dict(detail, exc=repr(exc)[:160]))
        return
    want = ref.get(list(effs_prefix) + [_eff(e) for e in elems])
    bad = _diff(got, want, False)
    if bad:
        D.dev(site + '|unexplained|' + ','.join(bad), dict(detail, fields=bad))
    else:
        D.label('public_ok')


# --------------------------------------------------------------------------------------------------- subs
def _alphabet(name):
    if name == 'full':
        A = []
        for i in (0, 1, T31 - 1):
            A.append(str(i))
            A += [str(i) + m for m in MARKS]
        return A + [str(T31), str(T32 - 1)]
    if name == 'sem':
        return ['0', "0'", '1', "1'", str(T31 - 1), str(T31 - 1) + "'", str(T31), str(T32 - 1)]
    if name == 'semh':      # as sem with the h spelling
        return ['0', '0h', '1', '1h', str(T31 - 1), str(T31 - 1) + 'h', str(T31), str(T32 - 1)]
    if name == 'deep2':
        return ['0', str(T31 - 1) + "'"]
    if name == 'deep3':
        return ['0', "1'", str(T31 - 1)]
    if name == 'nonhard':
        return ['0', '1', str(T31 - 1)]
    raise ValueError(name)


def sub_paths(case):
    """case = {'root': {'seed','at','import'}, 'prefix': [...], 'ext': k, 'alpha': name, 'only_full': bool,
    'tail_alpha': name|None}: all paths prefix + suffix, len(suffix) in 0..k (or == k)."""
    root_spec = case['root']
    root_ref = _ref_root(root_spec)
    ref = _Ref(root_ref)
    D = _Devs()
    root, exc = _call(lambda: _lib_root(root_spec, root_ref))
    if exc is not None:
        D.dev('import[%s]|raises|%s' % (root_spec['import'], type(exc).__name__), {'root': root_spec, 'exc': repr(exc)[:200]})
        return {'devs': D.devs, 'n': 1, 'nt': [], 'out': D.out}
    root_private = not root_spec['import'].startswith('xpub')
    if _diff(root, root_ref, root_private):
        # the master check (sub 'master') names this; nothing below a wrong root is meaningful
        D.label('root_differs_skipped')
        return {'devs': D.devs, 'n': 1, 'nt': [], 'out': D.out}
    A = _alphabet(case['alpha'])
    TA = _alphabet(case['tail_alpha']) if case.get('tail_alpha') else A
    k = case['ext']
    prefix = list(case['prefix'])
    priv_ok = {}     # tuple(elems) -> library private key (only when it matched the reference)

    def private_key(elems):
        """Library key for a private prefix, derived on demand; None if the library deviates there."""
        t = tuple(elems)
        if t not in priv_ok:
            if any(_ambiguous(e) or _eff(e) is None for e in elems):
                priv_ok[t] = None
            else:
                got, e = _call(lambda: root.subkey_for_path('m/' + '/'.join(elems)) if elems else root)
                priv_ok[t] = got if (e is None and not _diff(got, ref.get([_eff(x) for x in elems]), True)) else None
        return priv_ok[t]

    lens = [k] if case.get('only_full') else range(0, k + 1)
    for ln in lens:
        alphas = [A] * ln
        if ln and ln == k and case.get('tail_alpha'):
            alphas[-1] = TA
        for suffix in itertools.product(*alphas):
            elems = prefix + list(suffix)
            L = len(elems)
            path = '/'.join(elems)
            detail = {'root': root_spec, 'path': path}
            if root_private:
                # (A) whole path privately: m/ spelling, and for short paths the relative and the list spelling
                spellings = [('m/', lambda: root.subkey_for_path('m/' + path if L else 'm'))]
                if 0 < L <= 2:
                    spellings.append(('relative', lambda: root.subkey_for_path(path)))
                    spellings.append(('list', lambda: root.subkey_for_path(['m'] + elems)))
                ok = True
                for sp, fn in spellings:
                    got, e = _call(fn)
                    ok = _judge_private(D, 'subkey_for_path(private)', root_ref, ref, elems, got, e,
                                        dict(detail, spelling=sp)) and ok
                if ok:
                    priv_ok[tuple(elems)] = got
                    pk, e = _call(got.public)
                    D.n += 1
                    if e is not None or _diff(pk, ref.get([_eff(x) for x in elems]), False):
                        D.dev('public()|differs_from_neutered_key', dict(detail, exc=repr(e)[:100]))
                # (B) every split point: private to depth s, .public(), public for the rest
                for s in range(0, L):
                    head = private_key(elems[:s])
                    if head is None:
                        continue
                    effs = [_eff(x) for x in elems[:s]]
                    hp = head.public()
                    got, e = _call(lambda: hp.subkey_for_path('/'.join(elems[s:])))
                    _judge_public(D, 'subkey_for_path(public)', ref.get(effs), ref, effs, elems[s:], got, e,
                                  dict(detail, split=s, via='.public()'))
                # (C) M/ spelling on the private root
                if L:
                    got, e = _call(lambda: root.subkey_for_path('M/' + path))
                    _judge_public(D, 'subkey_for_path(public)', root_ref, ref, [], elems, got, e,
                                  dict(detail, split=0, via='M/'))
            elif L:
                got, e = _call(lambda: root.subkey_for_path(path))
                _judge_public(D, 'subkey_for_path(public)', root_ref, ref, [], elems, got, e,
                              dict(detail, split=0, via='imported xpub'))
                if L <= 2:
                    got, e = _call(lambda: root.subkey_for_path('m/' + path))
                    _judge_public(D, 'subkey_for_path(public)', root_ref, ref, [], elems, got, e,
                                  dict(detail, split=0, via='imported xpub, m/ spelling'))
    key = '%s|%s|%d|%s|%s' % (_spec_key(root_spec), '/'.join(prefix), k, case['alpha'], bool(case.get('only_full')))
    return {'devs': D.devs, 'n': D.n, 'nt': ['%s#%d' % (key, i) for i in range(D.nt)], 'out': D.out}


def sub_api(case):
    """case = {'root': spec, 'parent': [elements]}: child_private / child_public with integer arguments."""
    root_spec = case['root']
    root_ref = _ref_root(root_spec)
    ref = _Ref(root_ref)
    D = _Devs()
    root = _lib_root(root_spec, root_ref)
    effs = [_eff(e) for e in case['parent']]
    pref = ref.get(effs)
    parent = root.subkey_for_path('m/' + '/'.join(case['parent'])) if case['parent'] else root
    if _diff(parent, pref, True):
        D.label('parent_differs_skipped')
        return {'devs': D.devs, 'n': 1, 'nt': [], 'out': D.out}
    ppub = parent.public()
    IDX = [0, 1, 2, T31 - 2, T31 - 1, T31, T31 + 1, T31 + 2, T32 - 2, T32 - 1, T32, T32 + 1, 1 << 40]
    for idx in IDX:
        for hardened in (False, True):
            detail = {'root': root_spec, 'parent': case['parent'], 'index': idx, 'hardened': hardened}
            got, e = _call(lambda: parent.child_private(idx, hardened))
            D.n += 1
            D.nt += 1
            eff = (idx | HARD) if hardened else idx
            if eff >= T32:
                if e is None:
                    D.dev('child_private|index>=2^32_returned_a_key', detail)
                continue
            if e is not None:
                if idx >= HARD:
                    D.label('refused_index>=2^31')
                else:
                    D.dev('child_private|valid_index_refused|' + type(e).__name__, dict(detail, exc=repr(e)[:160]))
                continue
            bad = _diff(got, ref.get(effs + [eff]), True)
            if not bad:
                D.label('private_ok')
            elif not hardened and idx >= HARD and not _diff(got, _ckd_priv_layout(pref, idx, False), True):
                D.dev('child_private|index>=2^31_hardened=False_derived_with_nonhardened_data_layout', dict(detail, fields=bad))
            else:
                D.dev('child_private|unexplained|' + ','.join(bad), dict(detail, fields=bad))
        for who, pk in (('public_parent', ppub), ('private_parent', parent)):
            detail = {'root': root_spec, 'parent': case['parent'], 'index': idx, 'on': who}
            got, e = _call(lambda: pk.child_public(idx))
            D.n += 1
            D.nt += 1
            if idx >= HARD:
                if e is not None:
                    D.label('hardened_from_public_refused')
                elif idx == HARD and not _diff(got, _ckd_pub_layout(pref.neuter(), idx), False):
                    D.dev('child_public|hardened_from_public_returns_key|index_2^31_accepted(result=public_child_formula'
                          '_on_the_bare_index)', detail)
                else:
                    D.dev('child_public|hardened_from_public_returns_key|unexplained', detail)
                continue
            if e is not None:
                D.dev('child_public|valid_index_refused|' + type(e).__name__, dict(detail, exc=repr(e)[:160]))
                continue
            bad = _diff(got, ref.get(effs + [idx]), False)
            if bad:
                D.dev('child_public|unexplained|' + ','.join(bad), dict(detail, fields=bad))
            else:
                D.label('public_ok')
        # a private child can never come from a public-only parent
        got, e = _call(lambda: ppub.child_private(idx))
        D.n += 1
        D.nt += 1
        if e is None:
            D.dev('child_private|public_parent_returned_a_key', {'root': root_spec, 'index': idx})
        else:
            D.label('private_from_public_refused')
    key = '%s|%s' % (_spec_key(root_spec), '/'.join(case['parent']))
    return {'devs': D.devs, 'n': D.n, 'nt': ['%s#%d' % (key, i) for i in range(D.nt)], 'out': D.out}


def _looks_hex(b):
    try:
        return bytes.fromhex(b.decode())
    except Exception:
        return None


def sub_master(case):
    """case = {'seeds': [hex...]}: master key from seed (bytes / hex spelling) and re-import as xprv/xpub."""
    D = _Devs()
    nt = []
    for sh in case['seeds']:
        seed = bytes.fromhex(sh)
        want = bip32.master(seed)
        for how in ('seed_bytes', 'seed_hex', 'key_chain', 'xprv', 'xprv_from_wif', 'xpub', 'xpub_from_wif'):
            spec = {'seed': sh, 'import': how}
            D.n += 1
            k, e = _call(lambda: _lib_root(spec, want))
            if e is not None:
                D.dev('import[%s]|raises|%s' % (how, type(e).__name__), {'seed': sh, 'exc': repr(e)[:200]})
                continue
            nt.append('%s|%s' % (hashlib.sha256(seed).hexdigest()[:16], how))
            bad = _diff(k, want, not how.startswith('xpub'))
            if not bad:
                D.label('master_ok')
                continue
            alt = _looks_hex(seed) if how == 'seed_bytes' else None
            if alt is not None and not _diff(k, bip32.master(alt), True):
                D.dev('from_seed(bytes)|seed_bytes_that_spell_hex_digits_are_hex_decoded_first', {
                    'seed': sh, 'seed_ascii': seed.decode(), 'fields': bad})
            else:
                D.dev('import[%s]|unexplained|%s' % (how, ','.join(bad)), {'seed': sh, 'fields': bad})
    return {'devs': D.devs, 'n': D.n, 'nt': nt, 'out': D.out}


# --------------------------------------------------------------------------- call histories on the parent
KH_EVENTS = ['address', 'address_uncompressed', 'hash160', 'fingerprint', 'wif', 'wif_private', 'wif_public',
             'public', 'public_hex', 'public_uncompressed_hex', 'as_dict', 'child_private_1', 'child_public_1',
             'subkey_m_0h', 'address_obj', 'info_str']
KH_DERIVE = ['child_private_2', 'child_private_hard', 'child_public_2', 'path_1_2', 'public_then_child_public_3',
             'path_M_1', 'child_public_2_network', 'child_private_2_network', 'child_private_hard_network', 'path_M_1_2_network',
             'path_1_2_network']


def _kh_event(k, ev):
    if ev == 'address':
        k.address()
    elif ev == 'address_uncompressed':
        k.address(compressed=False, encoding='base58')
    elif ev == 'hash160':
        k.hash160
    elif ev == 'fingerprint':
        k.fingerprint
    elif ev == 'wif':
        k.wif()
    elif ev == 'wif_private':
        k.wif_private()
    elif ev == 'wif_public':
        k.wif_public()
    elif ev == 'public':
        k.public()
    elif ev == 'public_hex':
        k.public_hex
    elif ev == 'public_uncompressed_hex':
        k.public_uncompressed_hex
    elif ev == 'as_dict':
        k.as_dict()
    elif ev == 'child_private_1':
        k.child_private(1)
    elif ev == 'child_public_1':
        k.child_public(1)
    elif ev == 'subkey_m_0h':
        k.subkey_for_path("0'")
    elif ev == 'address_obj':
        k.address_obj
    elif ev == 'info_str':
        str(k)
        repr(k)
    else:
        raise ValueError(ev)


def sub_khist(case):
    """case = {'root': spec, 'hist': [events]}: the events are queries on the parent key object (addresses in both
    compression forms, hashes, exports, earlier derivations); afterwards every derivation of KH_DERIVE from that
    SAME object must give the BIP32 child - key, chain code, depth, child number, parent fingerprint, xprv/xpub -
    of the parent, exactly as on a fresh object, and the parent itself must still show the reference fields."""
    D = _Devs()
    spec, hist = case['root'], case['hist']
    ref = _ref_root(spec)
    private = not spec['import'].startswith('xpub')
    try:
        k = _lib_root(spec, ref)
    except Exception as e:
        D.dev('khist|root_import_raises', {'root': spec, 'exc': repr(e)[:200]})
        return {'devs': D.devs, 'n': 1, 'out': D.out}
    applied = []
    for ev in hist:
        try:
            _kh_event(k, ev)
            applied.append(ev)
        except Exception:
            applied.append(ev + ':refused')      # e.g. private exports / hardened children on a public key
    tag = '+'.join(a for a in applied if not a.endswith(':refused')) or 'none'
    nt = 0
    for dv in KH_DERIVE:
        want_priv = private
        try:
            if dv == 'child_private_2':
                if not private:
                    continue
                got, r = k.child_private(2), bip32.ckd_priv(ref, 2)
            elif dv == 'child_private_hard':
                if not private:
                    continue
                got, r = k.child_private(3, hardened=True), bip32.ckd_priv(ref, 3 + HARD)
            elif dv == 'child_public_2':
                got, r, want_priv = k.child_public(2), bip32.ckd_pub(ref.neuter(), 2), False
            elif dv == 'child_public_2_network':
                # the documented network argument, spelled out with the key's own network
                got, r, want_priv = k.child_public(2, network='bitcoin'), bip32.ckd_pub(ref.neuter(), 2), False
            elif dv == 'child_private_2_network':
                if not private:
                    continue
                got, r = k.child_private(2, network='bitcoin'), bip32.ckd_priv(ref, 2)
            elif dv == 'child_private_hard_network':
                if not private:
                    continue
                got, r = k.child_private(3, hardened=True, network='bitcoin'), bip32.ckd_priv(ref, 3 + HARD)
            elif dv == 'path_M_1_2_network':
                if not private or ref.depth != 0:
                    continue
                got, r, want_priv = (k.subkey_for_path('M/1/2', network='bitcoin'),
                                     bip32.ckd_pub(bip32.ckd_pub(ref.neuter(), 1), 2), False)
            elif dv == 'path_1_2_network':
                got = k.subkey_for_path('1/2', network='bitcoin')
                r = bip32.derive(ref, [1, 2]) if private else bip32.ckd_pub(bip32.ckd_pub(ref.neuter(), 1), 2)
            elif dv == 'path_1_2':
                got = k.subkey_for_path('1/2')
                r = bip32.derive(ref, [1, 2]) if private else bip32.ckd_pub(bip32.ckd_pub(ref.neuter(), 1), 2)
            elif dv == 'public_then_child_public_3':
                got, r, want_priv = k.public().child_public(3), bip32.ckd_pub(ref.neuter(), 3), False
            else:
                if not private or ref.depth != 0:
                    continue
                got, r, want_priv = k.subkey_for_path('M/1'), bip32.ckd_pub(ref.neuter(), 1), False
        except Exception as e:
            D.dev('khist|derivation_raises_after_parent_queries|%s' % dv, {'root': spec, 'hist': hist, 'exc': repr(e)[:200]})
            continue
        D.n += 1
        nt += 1
        bad = _diff(got, r, want_priv)
        if bad:
            D.dev('khist|child_differs_from_bip32_after_parent_queries|%s|%s' % (dv, '+'.join(bad)),
                  {'root': spec, 'hist': hist, 'applied': applied, 'fields': bad})
            D.label('child_dev')
        else:
            D.label('child_ok')
    bad = _diff(k, ref, private)
    D.n += 1
    if bad:
        D.dev('khist|parent_fields_changed_by_queries|%s' % '+'.join(bad), {'root': spec, 'hist': hist, 'applied': applied})
    return {'devs': D.devs, 'n': D.n, 'nt': ['%s|%s|%d' % (_spec_key(spec), ','.join(hist), i) for i in range(nt)],
            'out': D.out}


def sub_uncommute(case):
    """case = {'seed': hex, 'at': [path], 'how': construction}: an HD key that keeps its public key UNCOMPRESSED is outside
    BIP32 (no reference key is demanded), but the clause "private and public derivation commute" still applies: the
    public part of child_private(i) must be the key every public route gives for i, with the same chain code, depth,
    child number and parent fingerprint - a differential oracle between the two routes."""
    from bitcoinlib.keys import HDKey
    D = _Devs()
    seed = bytes.fromhex(case['seed'])
    try:
        if case['how'] == 'from_seed':
            k = HDKey.from_seed(seed, witness_type='legacy', compressed=False)
        else:
            m = bip32.master(seed)
            k = HDKey(key=m.secret.to_bytes(32, 'big'), chain=m.chain, witness_type='legacy', compressed=False)
        for e in case.get('at', []):
            k = k.child_private(e)
    except Exception as e:
        D.label('uncompressed_hd_key_refused')
        return {'devs': D.devs, 'n': 1, 'out': D.out}
    nt = 0
    for i in (0, 1, 7, T31 - 1):
        try:
            priv = k.child_private(i)
            want = (priv.public_hex, priv.chain.hex(), priv.depth, priv.child_index, priv.parent_fingerprint.hex())
        except Exception as e:
            D.label('private_route_refused')
            continue
        routes = (('public().child_public', lambda: k.public().child_public(i)),
                  ('child_public', lambda: k.child_public(i)),
                  ('subkey_for_path(M/i)', lambda: k.subkey_for_path('M/%d' % i) if k.depth == 0 else k.public().subkey_for_path(str(i))),
                  ('public().subkey_for_path(i)', lambda: k.public().subkey_for_path(str(i))))
        for name, f in routes:
            D.n += 1
            try:
                c = f()
                got = (c.public_hex, c.chain.hex(), c.depth, c.child_index, c.parent_fingerprint.hex())
            except Exception as e:
                D.label('public_route_refused')
                continue
            nt += 1
            if got != want:
                fields = [n for n, a, b in zip(('key', 'chain', 'depth', 'child', 'parent_fingerprint'), got, want) if a != b]
                D.dev('uncompressed_parent|public_route_differs_from_public_part_of_private_child|%s|%s' % (name, '+'.join(fields)),
                      {'case': case, 'index': i})
            else:
                D.label('routes_agree')
    return {'devs': D.devs, 'n': D.n, 'nt': ['%s|%s|%d' % (case['seed'][:16], case['how'], j) for j in range(nt)], 'out': D.out}


SUBS = {'uncommute': sub_uncommute, 'paths': sub_paths, 'api': sub_api, 'master': sub_master, 'khist': sub_khist}


# ---------------------------------------------------------------------------------------------------- run
VEC_SEEDS = [v[0] for v in bip32.VECTORS]


def _seeds(seed, q):
    out = []
    for ln in (16, 32, 64) if q else (16, 17, 20, 24, 31, 32, 33, 48, 63, 64):
        out += [(b'\x00' * ln).hex(), (b'\xff' * ln).hex(), (b'\x01' * ln).hex(),
                bytes(range(1, ln + 1)).hex(), (b'\x00' * (ln - 1) + b'\x01').hex(), (b'\x80' + b'\x00' * (ln - 1)).hex()]
    out += VEC_SEEDS
    w = 4 if q else 32
    base = int.from_bytes(hashlib.sha256(('C03/%d' % seed).encode()).digest()[:16], 'big')
    base = min(base, (1 << 128) - w)
    out += [(base + i).to_bytes(16, 'big').hex() for i in range(w)]
    u = []
    for s in out:
        if s not in u:
            u.append(s)
    return u


ASCII_HEX_SEEDS = [b'0123456789abcdef', b'a' * 32, b'0f' * 32, b'ABCDEF0123456789' * 2, b'00' * 8]


def run(ctx):
    q = ctx.quick
    only = getattr(ctx, 'only', None)

    def want(name):
        return not only or name in only

    seeds = _seeds(ctx.seed, q)
    # ---- masters and imports
    if want('master'):
        allseeds = seeds + [s.hex() for s in ASCII_HEX_SEEDS]
        ctx.pmap('master', [{'seeds': allseeds[i:i + 4]} for i in range(0, len(allseeds), 4)], chunk=1)
    # ---- paths
    cases = []

    def tree(root, alpha, depth):
        """Every path of length 0..depth over the alphabet, split into cases by the first one / two elements."""
        cases.append({'root': root, 'prefix': [], 'ext': 0, 'alpha': alpha})
        for e in _alphabet(alpha):
            if depth >= 3:
                cases.append({'root': root, 'prefix': [e], 'ext': 0, 'alpha': alpha})
                for e2 in _alphabet(alpha):
                    cases.append({'root': root, 'prefix': [e, e2], 'ext': depth - 2, 'alpha': alpha})
            else:
                cases.append({'root': root, 'prefix': [e], 'ext': depth - 1, 'alpha': alpha})

    v1 = {'seed': VEC_SEEDS[0], 'import': 'seed_bytes'}
    v2 = {'seed': VEC_SEEDS[1], 'import': 'seed_hex'}
    v3 = {'seed': VEC_SEEDS[2], 'import': 'xprv'}
    # every hardened-marker spelling: depth 2 (quick) / 3 (thorough) on the first vector seed
    tree(v1, 'full', 2 if q else 3)
    if not q:
        tree(v3, 'full', 2)
    # the semantic alphabet one level deeper
    tree(v1, 'sem', 3 if q else 4)
    tree(v2, 'semh', 3 if q else 4)
    if not q:
        tree(v3, 'sem', 4)
    # ... and on every other root: all seeds, every import route, imported extended keys below the master
    roots = []
    picks = seeds if not q else [s for i, s in enumerate(seeds) if i % 2 == 0 or s in VEC_SEEDS]
    for i, s in enumerate(picks):
        roots.append({'seed': s, 'import': ('seed_bytes', 'seed_hex', 'xprv', 'key_chain', 'xprv_from_wif')[i % 5]})
    for s in (VEC_SEEDS[1], VEC_SEEDS[2]) + (() if q else (VEC_SEEDS[3], seeds[0])):
        for at in ([HARD], [0, T31 - 1 + HARD], [1]):
            for how in ('xprv', 'xpub', 'xpub_from_wif') if not q else ('xprv', 'xpub'):
                roots.append({'seed': s, 'at': at, 'import': how})
    for i, r in enumerate(roots):
        tree(r, 'sem' if i % 2 == 0 else 'semh', 2 if q or i % 3 else 3)
    # deep paths: every split point of every full-length path
    deep = []
    for r in (v1,) if q else (v1, v3):
        if q:
            for e in _alphabet('deep2'):
                for e2 in _alphabet('deep2'):
                    deep.append({'root': r, 'prefix': [e, e2], 'ext': 6, 'alpha': 'deep2', 'only_full': True})
        else:
            for e in _alphabet('deep3'):
                for e2 in _alphabet('deep3'):
                    deep.append({'root': r, 'prefix': [e, e2], 'ext': 6, 'alpha': 'deep3', 'only_full': True})
            for e in _alphabet('deep2'):
                for e2 in _alphabet('deep2'):
                    deep.append({'root': r, 'prefix': [e, e2], 'ext': 8, 'alpha': 'deep2', 'only_full': True})
    if want('paths'):
        ctx.pmap('paths', cases + deep, chunk=1)
    # ---- call histories on the parent object before deriving from it
    if want('khist'):
        kroots = [{'seed': VEC_SEEDS[0], 'import': 'seed_bytes'}, {'seed': VEC_SEEDS[1], 'at': [HARD], 'import': 'xprv'},
                  {'seed': VEC_SEEDS[2], 'at': [1], 'import': 'xpub'}]
        if not q:
            kroots += [{'seed': seeds[0], 'import': 'key_chain'}, {'seed': VEC_SEEDS[1], 'import': 'xpub_from_wif'}]
        L = 2 if q else 3
        kc = []
        for r in kroots:
            for l in range(0, L + 1):
                for h in itertools.product(KH_EVENTS, repeat=l):
                    kc.append({'root': r, 'hist': list(h)})
        ctx.pmap('khist', kc)
        ctx.note('parent_histories', {'events': KH_EVENTS, 'derivations': KH_DERIVE, 'max_len': L, 'roots': len(kroots),
                                      'cases': len(kc)})
    # ---- uncompressed HD keys: commutation of the two routes (differential)
    if want('uncommute'):
        ctx.pmap('uncommute', [{'seed': sd, 'at': at, 'how': how} for sd in VEC_SEEDS[:2 if q else 4]
                               for at in ([], [1], [HARD]) for how in ('from_seed', 'key_chain')])
    # ---- integer API
    if want('api'):
        ac = []
        for s in (seeds[:6] + VEC_SEEDS) if q else seeds:
            for parent in ([], ["0'"], ['1'], [str(T31 - 1) + 'h', '0']):
                ac.append({'root': {'seed': s, 'import': 'seed_bytes'}, 'parent': parent})
        ctx.pmap('api', ac, chunk=1)
    ctx.note('bounds', {'seeds': len(seeds), 'seed_lengths': sorted(set(len(s) // 2 for s in seeds)),
                        'roots_semantic_alphabet': len(roots) + (2 if q else 3), 'depth_all_spellings': 2 if q else 3,
                        'depth_semantic_alphabet': '%d on %d roots, %d on all roots' % (
                            (3, 2, 2) if q else (4, 3, 2)) + ('' if q else ', 3 on every third root'),
                        'deep_paths': 'depth 8 over %s' % (_alphabet('deep2') if q else str(_alphabet('deep3')) +
                                                           ' and depth 10 over ' + str(_alphabet('deep2'))),
                        'alphabet_full': _alphabet('full'), 'alphabet_semantic': _alphabet('sem'),
                        'path_cases': len(cases) + len(deep)})
