"""C01 Signed digests equal the Bitcoin consensus sighash (legacy SIGHASH_ALL and BIP143).

E1: every transaction spec of a stated finite family is built through the library API; for every
input the digest the library computes is compared with the reference preimage computed from the
*spec*; the signed raw() bytes are parsed by the reference wire parser and every input is executed
by the reference consensus interpreter against the funding script/amount derived from the spec.
"""
import itertools
import hashlib

from vf import txgen, txhist
from vf.ref import secp, codec, tx as rtx, interp, nets

ID = 'C01'
LEVEL = 'model_checking'
RULE = ('transaction specs = full product of input-kind tuples (length <= k) x field vectors (version, locktime, '
        'sequences, input values incl. 2^32 and 21e14) x output shapes (all standard kinds, nulldata, non-standard, '
        '252/253 outputs) [+ m-of-n menu, + all networks]; each spec is built and signed through the library API; '
        'non-trivial = a library digest / signed input that was compared with the reference (distinct by spec hash '
        'and input index)')
ASSUMPTIONS = ['reference sighash/interpreter in vf/ref validated on the BIP143 examples and hand-made spends',
               'legacy inputs: only SIGHASH_ALL is claimed by the property; other legacy hash types are not compared',
               'scripts with OP_CODESEPARATOR / FindAndDelete effects and taproot inputs are outside the bound',
               'add_input documents that a relative-locktime sequence switches version 1 to 2; the expected '
               'version follows that rule']

HT_OTHER = [2, 3, 0x81, 0x82, 0x83]


def selftest():
    secp.selftest()
    codec.selftest()
    rtx.selftest()
    interp.selftest()
    nets.selftest()


def _ref_digest(r, idx, ref_in, ht=1):
    if ref_in['sigversion'] == 'base':
        return rtx.sighash_legacy(r, idx, ref_in['script_code'], ht)
    return rtx.sighash_bip143(r, idx, ref_in['script_code'], ref_in['amount'], ht)


def sub_tx(case):
    from bitcoinlib.transactions import Transaction
    from bitcoinlib.keys import Key
    spec = case['spec']
    net = spec['network']
    devs = []
    nt = []
    outs = {}
    n_eval = 0

    def dev(sig, detail):
        devs.append({'sig': sig, 'detail': detail})

    def out(label):
        outs[label] = outs.get(label, 0) + 1
    refs = [txgen.input_ref(i) for i in spec['inputs']]
    r0 = txgen.ref_unsigned(spec)
    sh = hashlib.sha256(repr(sorted(_brief(spec).items())).encode() + repr([(i.get('m'), len(i['keys']), i['keys'][0]) for i in spec['inputs']]).encode()
                        + repr([(o['kind'], o['value']) for o in spec['outputs'][:8]]).encode()).hexdigest()[:12]
    tag = 'multi' if len(spec['inputs']) > 1 else 'single'
    try:
        t = txgen.build(spec, sign=False)
    except Exception as e:
        if net == 'bitcoin':
            dev('build|refused|%s' % '+'.join(sorted(set(i['kind'] for i in spec['inputs']))),
                {'exc': repr(e)[:300]})
        out('build_refused')
        return {'devs': devs, 'out': outs, 'nt': []}
    # ---- digests before signing
    for idx, (inp, ref) in enumerate(zip(spec['inputs'], refs)):
        wt = txgen.KINDS[inp['kind']][1]
        exp = _ref_digest(r0, idx, ref)
        try:
            got = t.signature_hash(idx, 1, wt)
        except Exception as e:
            got = repr(e)[:200]
        n_eval += 1
        if got != exp:
            dev('signature_hash|%s|%s' % (inp['kind'], tag),
                {'input': idx, 'expected': exp.hex(), 'got': got.hex() if isinstance(got, bytes) else got})
            out('digest_dev')
        else:
            out('digest_ok')
        nt.append('%s.d%d' % (sh, idx))
        if case.get('hashtypes') and ref['sigversion'] == 'witness_v0':
            for ht in HT_OTHER:
                exp = _ref_digest(r0, idx, ref, ht)
                try:
                    got = t.signature_hash(idx, ht, wt)
                except Exception as e:
                    got = repr(e)[:200]
                n_eval += 1
                if got != exp:
                    base = ht & 0x1f
                    # name the exact wrong preimage if it is the known SINGLE/NONE hashOutputs mix-up
                    alt = None
                    if base in (2, 3) and isinstance(got, bytes):
                        alt = _bip143_swapped(r0, idx, ref, ht)
                    cls = 'hashOutputs_single_none_swapped' if alt is not None and alt == got else 'unexplained'
                    dev('signature_hash_bip143|hashtype=%s|%s' % (
                        {1: 'ALL', 2: 'NONE', 3: 'SINGLE'}.get(base, hex(base)) + ('|ACP' if ht & 0x80 else ''), cls),
                        {'input': idx, 'kind': inp['kind'], 'ht': ht, 'expected': exp.hex(),
                         'got': got.hex() if isinstance(got, bytes) else got})
                    out('ht_dev')
                else:
                    out('ht_ok')
    # ---- sign, serialise, independent consensus-style verification
    try:
        t.sign()
        raw = t.raw()
    except Exception as e:
        dev('sign|raises|%s' % '+'.join(sorted(set(i['kind'] for i in spec['inputs']))), {'exc': repr(e)[:300]})
        return {'devs': devs, 'out': outs, 'nt': nt, 'n': n_eval}
    try:
        r = rtx.parse(raw)
    except Exception as e:
        dev('raw|unparseable_by_reference', {'exc': repr(e), 'raw': raw.hex()[:400]})
        return {'devs': devs, 'out': outs, 'nt': nt, 'n': n_eval}
    bad = []
    if r.version != r0.version:
        bad.append('version')
    if r.locktime != r0.locktime:
        bad.append('locktime')
    if [(i['txid'], i['vout']) for i in r.vin] != [(i['txid'], i['vout']) for i in r0.vin]:
        bad.append('outpoints')
    if [i['seq'] for i in r.vin] != [i['seq'] for i in r0.vin]:
        bad.append('sequences')
    if r.vout != r0.vout:
        bad.append('outputs')
    for b in bad:
        dev('raw_fields|%s' % b, {'spec': _brief(spec)})
    for idx, (inp, ref) in enumerate(zip(spec['inputs'], refs)):
        chk = interp.TxChecker(r, idx, ref['amount'])
        wit = r.wit[idx] if r.wit else []
        try:
            ok = interp.verify_script(r.vin[idx]['script'], ref['spk'], wit, chk)
        except NotImplementedError:
            ok = None
        n_eval += 1
        nt.append('%s.v%d' % (sh, idx))
        if ok is not True:
            dev('consensus_verify|%s|%s' % (inp['kind'], tag),
                {'input': idx, 'script_sig': r.vin[idx]['script'].hex()[:300], 'witness_items': len(wit),
                 'spk': ref['spk'].hex()})
            out('verify_fail')
        else:
            out('verify_ok')
    # ---- parse direction: the digest the library computes for a transaction it parsed
    try:
        t2 = Transaction.parse(raw, network=net)
    except Exception as e:
        dev('parse|raises', {'exc': repr(e)[:300], 'raw': raw.hex()[:300]})
        return {'devs': devs, 'out': outs, 'nt': nt, 'n': n_eval}
    for idx, (inp, ref) in enumerate(zip(spec['inputs'], refs)):
        i2 = t2.inputs[idx]
        try:
            i2.value = ref['amount']
            if inp['kind'] in ('p2pk', 'p2pk_u'):
                # the wire format does not carry the public key of a P2PK prevout: re-supplied by the caller
                i2.keys = [Key(ref['pubs'][0].hex(), network=net)]
                i2.script_type = 'signature'
                i2.update_scripts()
            got = t2.signature_hash(idx, i2.hash_type, i2.witness_type)
        except Exception as e:
            got = repr(e)[:200]
        exp = _ref_digest(r, idx, ref)
        n_eval += 1
        nt.append('%s.p%d' % (sh, idx))
        if got != exp:
            dev('signature_hash_parsed|%s|%s' % (inp['kind'], tag),
                {'input': idx, 'expected': exp.hex(), 'got': got.hex() if isinstance(got, bytes) else got,
                 'lib_witness_type': i2.witness_type, 'lib_script_type': i2.script_type})
            out('parsed_dev')
        else:
            out('parsed_ok')
    return {'devs': devs, 'out': outs, 'nt': nt, 'n': n_eval}


def _bip143_swapped(r, idx, ref, ht):
    """The digest obtained when hashOutputs of SIGHASH_SINGLE and SIGHASH_NONE are exchanged."""
    base = ht & 0x1f
    other = (ht & 0x80) | (2 if base == 3 else 3)
    # compute with the other base type's hashOutputs but this hash type's remaining fields
    acp = bool(ht & 0x80)
    hp = hs = bytes(32)
    if not acp:
        hp = codec.dsha256(b''.join(i['txid'] + i['vout'].to_bytes(4, 'little') for i in r.vin))
    ho = bytes(32)
    if (other & 0x1f) == 3 and idx < len(r.vout):
        ho = codec.dsha256(rtx.ser_vout(r.vout[idx]))
    i = r.vin[idx]
    sc = ref['script_code']
    pre = r.version.to_bytes(4, 'little') + hp + hs + i['txid'] + i['vout'].to_bytes(4, 'little') + \
        codec.cs_encode(len(sc)) + sc + ref['amount'].to_bytes(8, 'little') + i['seq'].to_bytes(4, 'little') + \
        ho + r.locktime.to_bytes(4, 'little') + ht.to_bytes(4, 'little')
    return codec.dsha256(pre)


def _brief(spec):
    return {'kinds': [i['kind'] for i in spec['inputs']], 'version': spec['version'], 'locktime': spec['locktime'],
            'seqs': [i['seq'] for i in spec['inputs']], 'values': [i['value'] for i in spec['inputs']],
            'n_out': len(spec['outputs']), 'network': spec['network']}

# ---- routes: the ways keys and previous-output data reach a transaction
HOW_IN = ['keys', 'pub', 'nokeys', 'keys_spk', 'keys_spk_nowt']
KEY_FORMS = ['Key', 'HDKey', 'bytes', 'hex', 'wif']
CALLS = ['all', 'per_index', 'each_key', 'per_index_own']


def sub_route(case):
    """One spec, one route: how the inputs learn their keys (private Key objects at add_input / public keys only /
    nothing), in which form the private keys are handed to sign() (Key, HDKey, 32 raw bytes, hex, WIF), and how
    sign() is called (one call with all keys, one call per input, one call per key).  Whatever the route, every
    input the library reports as signed must pass the reference interpreter for the output being spent."""
    from bitcoinlib.transactions import Transaction
    from bitcoinlib.keys import Key, HDKey
    spec, how_in, form, call = case['spec'], case['how_in'], case['form'], case['call']
    net = spec['network']
    refs = [txgen.input_ref(i) for i in spec['inputs']]
    devs, outs, nt = [], {}, []
    route = '%s|%s|%s' % (how_in, form, call)
    kinds = '+'.join(i['kind'] for i in spec['inputs'])

    def dev(sig, detail):
        detail.update({'route': route, 'kinds': kinds, 'same_key': case.get('same_key', False)})
        devs.append({'sig': sig, 'detail': detail})

    def out(label):
        outs[label] = outs.get(label, 0) + 1
    any_segwit = any(txgen.KINDS[i['kind']][1] != 'legacy' for i in spec['inputs'])
    try:
        t = Transaction(network=net, witness_type='segwit' if any_segwit else 'legacy', version=spec['version'],
                        locktime=spec['locktime'])
        for inp in spec['inputs']:
            st, wt, comp, ms = txgen.KINDS[inp['kind']]
            if how_in in ('keys', 'keys_spk', 'keys_spk_nowt'):
                ks = [Key(d.to_bytes(32, 'big').hex(), network=net, compressed=comp) for d in inp['keys']]
            elif how_in == 'pub':
                ks = [secp.ser(secp.pub(d), comp).hex() for d in inp['keys']]
            else:
                ks = None
            if ks is None:
                t.add_input(inp['txid'], inp['vout'], script_type=st, witness_type=wt, sequence=inp['seq'],
                            value=inp['value'], compressed=comp)
            else:
                # keys_spk: the scriptPubKey of the output being spent is handed over as well ("if known")
                extra = {'locking_script': txgen.input_ref(inp)['spk']} if how_in.startswith('keys_spk') else {}
                if how_in != 'keys_spk_nowt':
                    extra['witness_type'] = wt
                # keys_spk_nowt: the witness type is left to be read from the scriptPubKey (legacy and native segwit
                # outputs say it themselves; nested segwit cannot be told from P2SH and is not built this way)
                t.add_input(inp['txid'], inp['vout'], keys=ks if ms else ks[0], script_type=st,
                            sigs_required=inp.get('m', 1) if ms else None, sequence=inp['seq'], value=inp['value'],
                            compressed=comp, **extra)
        for o in spec['outputs']:
            a = txgen.output_address(o, net)
            if a is not None:
                t.add_output(o['value'], a)
            else:
                t.add_output(o['value'], lock_script=txgen.output_ref(o, net)[1])
        # the private keys in the requested form; Key / HDKey / WIF carry a compression flag: one per (scalar, flag)
        def in_form(d, comp):
            b = d.to_bytes(32, 'big')
            if form == 'Key':
                return Key(b.hex(), network=net, compressed=comp)
            if form == 'HDKey':
                return HDKey(key=b, chain=b'\x07' * 32, network=net, compressed=comp)
            if form == 'wif':
                return Key(b.hex(), network=net, compressed=comp).wif()
            return b if form == 'bytes' else b.hex()
        pairs, own = [], []
        for inp in spec['inputs']:
            comp = txgen.KINDS[inp['kind']][2]
            ds = inp['keys'][:inp.get('m', 1)] if txgen.KINDS[inp['kind']][3] else inp['keys']
            own.append([in_form(d, comp) for d in ds])
            for d in ds:
                if (d, comp) not in pairs:
                    pairs.append((d, comp))
        keys = []
        for d, comp in pairs:
            k = in_form(d, comp)
            if not (form in ('bytes', 'hex') and k in keys):
                keys.append(k)
        if call == 'all':
            t.sign(keys)
        elif call == 'per_index':
            for n in range(len(spec['inputs'])):
                t.sign(keys, index_n=n)
        elif call == 'per_index_own':
            for n in range(len(spec['inputs'])):
                t.sign(own[n], index_n=n)
        else:
            for k in keys:
                t.sign(k)
        raw = t.raw()
        r = rtx.parse(raw)
    except Exception as e:
        out('refused')
        # routes the library may refuse: not demanded.  A route it accepts must give valid signatures.
        return {'devs': devs, 'out': outs, 'nt': [], 'ret': {'refused': repr(e)[:120]}}
    sh = hashlib.sha256(repr((_brief(spec), [i['keys'] for i in spec['inputs']], route)).encode()).hexdigest()[:12]
    for idx, (inp, ref) in enumerate(zip(spec['inputs'], refs)):
        li = t.inputs[idx]
        need = inp.get('m', 1)
        if len(li.signatures) < need:
            out('input_left_unsigned')
            continue
        wit = r.wit[idx] if r.wit else []
        ok = interp.verify_script(r.vin[idx]['script'], ref['spk'], wit, interp.TxChecker(r, idx, ref['amount']))
        nt.append('%s.%d' % (sh, idx))
        if ok is not True:
            dev('route|signed_input_fails_reference_interpreter|%s|in=%s|form=%s' % (inp['kind'], how_in, form),
                {'input': idx, 'script_sig': r.vin[idx]['script'].hex()[:300], 'spk': ref['spk'].hex()})
            out('verify_fail')
        else:
            out('verify_ok')
        exp = _ref_digest(r, idx, ref)
        try:
            got = t.signature_hash(idx, 1, txgen.KINDS[inp['kind']][1])
        except Exception as e:
            got = repr(e)[:100]
        if got != exp:
            dev('route|signature_hash_of_signed_input_differs|%s|in=%s|form=%s' % (inp['kind'], how_in, form),
                {'input': idx, 'expected': exp.hex(), 'got': got.hex() if isinstance(got, bytes) else got})
    return {'devs': devs, 'out': outs, 'nt': nt, 'n': max(1, len(nt))}


def sub_hist(case):
    return txhist.sub_hist(case, txhist.check_digests_and_signatures)


SUBS = {'tx': sub_tx, 'route': sub_route, 'hist': sub_hist}

SUPPLY = 21 * 10 ** 14
FIELDS = [
    dict(version=1, locktime=0, seqs=[0xffffffff], values=[100000]),
    dict(version=2, locktime=1, seqs=[0xfffffffe], values=[546, 1]),
    dict(version=1, locktime=499999999, seqs=[0xfffffffd, 0], values=[2 ** 32 - 1, 2 ** 32]),
    dict(version=2, locktime=500000000, seqs=[0, 1], values=[2 ** 32, SUPPLY]),
    dict(version=1, locktime=0xfffffffe, seqs=[1, 0xffffffff], values=[SUPPLY, 1]),
    dict(version=2, locktime=0, seqs=[0xffffffff, 0xfffffffe, 0x00400001], values=[1]),
]


def _payload(tag):
    return hashlib.sha256(tag.encode()).hexdigest()


def _out_shapes(seed):
    one = [{'kind': 'p2pkh', 'payload': _payload('a%d' % seed), 'value': 1000}]
    allk = [{'kind': k, 'payload': _payload('%s%d' % (k, seed)), 'value': 0 if k == 'nulldata' else 600 + j}
            for j, k in enumerate(txgen.OUT_KINDS)]
    big = [{'kind': 'p2wpkh', 'payload': _payload('b%d' % seed), 'value': 2 ** 32},
           {'kind': 'p2sh', 'payload': _payload('c%d' % seed), 'value': SUPPLY - 2 ** 33}]
    return [one, allk, big]


def _many_outputs(n, seed):
    return [{'kind': ('p2wpkh', 'p2pkh', 'p2wsh')[j % 3], 'payload': _payload('m%d.%d' % (seed, j)), 'value': 1000 + j}
            for j in range(n)]


def run(ctx):
    q = ctx.quick
    seed = ctx.seed
    K = txgen.KIND_NAMES
    cases = []

    def add(kinds, mn=(2, 3), f=FIELDS[0], outputs=None, network='bitcoin', hashtypes=False, kb=0):
        spec = txgen.make_spec(seed, list(kinds), mn=mn, version=f['version'], locktime=f['locktime'],
                               seqs=f['seqs'], values=f['values'], outputs=outputs, network=network, key_base=kb)
        cases.append({'spec': spec, 'hashtypes': hashtypes})
    shapes = _out_shapes(seed)
    kmax = 2 if q else 3
    for k in range(1, kmax + 1):
        for kinds in itertools.product(K, repeat=k):
            h = sum((j + 1) * K.index(x) for j, x in enumerate(kinds))
            for fi, f in enumerate(FIELDS):
                for si, sh in enumerate(shapes):
                    # k=1: full product. k=2 quick: each tuple meets 12 of the 18 (field, shape) pairs, chosen so
                    # that over the tuples every pair is met; k=2 thorough: full product. k=3: 3 of 18 pairs.
                    if k == 2 and q and (fi + si) % 3 == h % 3:
                        continue    # quick: 12 of the 18 (field, shape) pairs per 2-tuple
                    if k == 3 and (fi * 3 + si) % 6 != h % 6:
                        continue
                    add(kinds, f=f, outputs=sh, hashtypes=(k == 1 or (not q and k == 2 and si == 1)))
    # m-of-n menu for the multisig kinds
    mns = [(1, 1), (1, 2), (2, 2), (3, 3)] + ([] if q else [(1, 3), (3, 5), (5, 5), (1, 15), (8, 15), (15, 15)])
    for kind in ('p2sh_ms', 'p2wsh_ms', 'p2sh_p2wsh_ms'):
        for mn in mns:
            if kind == 'p2sh_ms' and mn[1] > 15:
                continue
            add([kind], mn=mn, f=FIELDS[1], outputs=shapes[1])
            add(['p2pkh', kind], mn=mn, f=FIELDS[3], outputs=shapes[0])
    # output counts across the CompactSize boundary
    for n_out in (252, 253) + (() if q else (254, 300)):
        for kind in K:
            add([kind], f=FIELDS[1], outputs=_many_outputs(n_out, seed))
    if not q:
        add(['p2wpkh', 'p2pkh'], f=FIELDS[2], outputs=_many_outputs(0xffff, seed))
        add(['p2pkh', 'p2wpkh'], f=FIELDS[2], outputs=_many_outputs(0x10000, seed))
    # every supported network (addresses / key prefixes differ; digests must not)
    for net in nets.NAMES:
        if net == 'bitcoin':
            continue
        for kind in K:
            add([kind], f=FIELDS[1], outputs=shapes[1], network=net)
        if not q:
            for kinds in itertools.product(K, repeat=2):
                add(kinds, f=FIELDS[2], outputs=shapes[0], network=net)
    # seed window: a second key/txid family for the single-kind specs
    for kind in K:
        add([kind], f=FIELDS[4], outputs=shapes[2], kb=100 + (seed % 1000))
    ctx.pmap('tx', cases)
    # routes: key delivery x key form x call pattern, for every single kind and every pair (thorough: triple) of
    # single-signature kinds; "same_key" = all inputs are paid to the same private key (its compressed and
    # uncompressed addresses and script types), the only case in which inputs without keys can be signed
    rcases = []
    single = ['p2pkh', 'p2pkh_u', 'p2wpkh', 'p2sh_p2wpkh']

    def radd(kinds, same_key, hows=HOW_IN):
        spec = txgen.make_spec(seed, list(kinds), mn=(2, 3), version=FIELDS[1]['version'], locktime=FIELDS[1]['locktime'],
                               seqs=FIELDS[1]['seqs'], values=[70000, 80000, 90000], outputs=shapes[0])
        if same_key:
            for i in spec['inputs']:
                i['keys'] = list(spec['inputs'][0]['keys'])
        for how in hows:
            if how == 'nokeys' and (len(kinds) > 1 and not same_key):
                continue
            if how == 'keys_spk_nowt' and any(txgen.KINDS[k][1] == 'p2sh-segwit' for k in kinds):
                continue    # sign() installs ALL given keys on a keyless input: only meaningful with one key
            mixed = len(set(txgen.KINDS[k][2] for k in kinds)) > 1
            for form in KEY_FORMS:
                if how == 'nokeys' and mixed and form in ('Key', 'HDKey', 'wif'):
                    # a key object / WIF carries one compression flag and sign() installs the given keys as they
                    # are on a keyless input: only the raw forms can serve inputs of both flags
                    continue
                for call in CALLS:
                    if len(kinds) > 1 and not same_key and call != 'per_index_own':
                        continue    # a key that belongs to no key of an input is refused by sign(): one call per input
                    rcases.append({'spec': spec, 'how_in': how, 'form': form, 'call': call, 'same_key': same_key})
    for kind in K:
        radd([kind], False, [h for h in (HOW_IN if kind in single else ['keys', 'pub', 'keys_spk', 'keys_spk_nowt'])
                             if not (h == 'keys_spk_nowt' and txgen.KINDS[kind][1] == 'p2sh-segwit')])
    for kinds in itertools.product(single, repeat=2):
        radd(kinds, False)
        radd(kinds, True)
    for kinds in itertools.product(K, repeat=2):
        if not (kinds[0] in single and kinds[1] in single):
            radd(kinds, False, ['keys', 'pub', 'keys_spk'])
    if not q:
        for kinds in itertools.product(single, repeat=3):
            radd(kinds, True)
            radd(kinds, False, HOW_IN[:2])
    res = ctx.pmap('route', rcases)
    ctx.note('routes', {'cases': len(rcases), 'how_in': HOW_IN, 'key_forms': KEY_FORMS, 'calls': CALLS})
    # operation histories on one live Transaction object (state surviving between calls): BFS, every history
    # replayed on a fresh object; the digest must match the CURRENT fields and a freshly re-signed transaction
    # must pass the reference interpreter
    hcfgs = [({'kinds': k, 'seed': seed % 1000, 'events': txhist.EVENTS + [['edit_version']]}, 3 if q else 4) for k in txhist.CONFIGS]
    nstates = ctx.bfs_multi('hist', hcfgs, max_states=4000 if q else 60000)
    ctx.note('history_states', nstates)
    ctx.note('bounds', {'max_inputs': kmax, 'field_vectors': len(FIELDS), 'output_shapes': len(shapes),
                        'm_of_n': mns, 'networks': nets.NAMES, 'specs': len(cases)})
