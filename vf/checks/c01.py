"""C01 Signed digests equal the Bitcoin consensus sighash (legacy SIGHASH_ALL and BIP143).

E1: every transaction spec of a stated finite family is built through the library API; for every
input the digest the library computes is compared with the reference preimage computed from the
*spec*; the signed raw() bytes are parsed by the reference wire parser and every input is executed
by the reference consensus interpreter against the funding script/amount derived from the spec.
"""
import itertools
import hashlib

from vf import txgen, txhist
from vf.ref import secp, codec, tx as rtx, interp, nets

ID = 'C01'
LEVEL = 'model_checking'
RULE = ('transaction specs = full product of input-kind tuples (length <= k) x field vectors (version, locktime, '
        'sequences, input values incl. 2^32 and 21e14) x output shapes (all standard kinds, nulldata, non-standard, '
        '252/253 outputs) [+ m-of-n menu, + all networks]; each spec is built and signed through the library API; '
        'non-trivial = a library digest / signed input that was compared with the reference (distinct by spec hash '
        'and input index)')
ASSUMPTIONS = ['reference sighash/interpreter in vf/ref validated on the BIP143 examples and hand-made spends',
               'legacy inputs: only SIGHASH_ALL is claimed by the property; other legacy hash types are not compared',
               'scripts with OP_CODESEPARATOR / FindAndDelete effects and taproot inputs are outside the bound',
               'add_input documents that a relative-locktime sequence switches version 1 to 2; the expected '
               'version follows that rule']

HT_OTHER = [2, 3, 0x81, 0x82, 0x83]


def selftest():
    secp.selftest()
    codec.selftest()
    rtx.selftest()
    interp.selftest()
    nets.selftest()


def _ref_digest(r, idx, ref_in, ht=1):
    if ref_in['sigversion'] == 'base':
        return rtx.sighash_legacy(r, idx, ref_in['script_code'], ht)
    return rtx.sighash_bip143(r, idx, ref_in['script_code'], ref_in['amount'], ht)


def sub_tx(case):
    from bitcoinlib.transactions import Transaction
    from bitcoinlib.keys import Key
    spec = case['spec']
    net = spec['network']
    devs = []
    nt = []
    outs = {}
    n_eval = 0

    def dev(sig, detail):
        devs.append({'sig': sig, 'detail': detail})

    def out(label):
        outs[label] = outs.get(label, 0) + 1
    refs = [txgen.input_ref(i) for i in spec['inputs']]
    r0 = txgen.ref_unsigned(spec)
    sh = hashlib.sha256(repr(sorted(_brief(spec).items())).encode() + repr([(i.get('m'), len(i['keys']), i['keys'][0]) for i in spec['inputs']]).encode()
                        + repr([(o['kind'], o['value']) for o in spec['outputs'][:8]]).encode()).hexdigest()[:12]
    tag = 'multi' if len(spec['inputs']) > 1 else 'single'
    try:
        t = txgen.build(spec, sign=False)
    except Exception as e:
        if net == 'bitcoin':
            dev('build|refused|%s' % '+'.join(sorted(set(i['kind'] for i in spec['inputs']))),
                {'exc': repr(e)[:300]})
        out('build_refused')
        return {'devs': devs, 'out': outs, 'nt': []}
    # ---- digests before signing
    for idx, (inp, ref) in enumerate(zip(spec['inputs'], refs)):
        wt = txgen.KINDS[inp['kind']][1]
        exp = _ref_digest(r0, idx, ref)
        try:
            got = t.signature_hash(idx, 1, wt)
        except Exception as e:
            got = repr(e)[:200]
        n_eval += 1
        if got != exp:
            dev('signature_hash|%s|%s' % (inp['kind'], tag),
                {'input': idx, 'expected': exp.hex(), 'got': got.hex() if isinstance(got, bytes) else got})
            out('digest_dev')
        else:
            out('digest_ok')
        nt.append('%s.d%d' % (sh, idx))
        if case.get('hashtypes') and ref['sigversion'] == 'witness_v0':
            for ht in HT_OTHER:
                exp = _ref_digest(r0, idx, ref, ht)
                try:
                    got = t.signature_hash(idx, ht, wt)
                except Exception as e:
                    got = repr(e)[:200]
                n_eval += 1
                if got != exp:
                    base = ht & 0x1f
                    # name the exact wrong preimage if it is the known SINGLE/NONE hashOutputs mix-up
                    alt = None
                    if base in (2, 3) and isinstance(got, bytes):
                        alt = _bip143_swapped(r0, idx, ref, ht)
                    cls = 'hashOutputs_single_none_swapped' if alt is not None and alt == got else 'unexplained'
                    dev('signature_hash_bip143|hashtype=%s|%s' % (
                        {2: 'NONE', 3: 'SINGLE'}[base] + ('|ACP' if ht & 0x80 else ''), cls),
                        {'input': idx, 'kind': inp['kind'], 'ht': ht, 'expected': exp.hex(),
                         'got': got.hex() if isinstance(got, bytes) else got})
                    out('ht_dev')
                else:
                    out('ht_ok')
    # ---- sign, serialise, independent consensus-style verification
    try:
        t.sign()
        raw = t.raw()
    except Exception as e:
        dev('sign|raises|%s' % '+'.join(sorted(set(i['kind'] for i in spec['inputs']))), {'exc': repr(e)[:300]})
        return {'devs': devs, 'out': outs, 'nt': nt, 'n': n_eval}
    try:
        r = rtx.parse(raw)
    except Exception as e:
        dev('raw|unparseable_by_reference', {'exc': repr(e), 'raw': raw.hex()[:400]})
        return {'devs': devs, 'out': outs, 'nt': nt, 'n': n_eval}
    bad = []
    if r.version != r0.version:
        bad.append('version')
    if r.locktime != r0.locktime:
        bad.append('locktime')
    if [(i['txid'], i['vout']) for i in r.vin] != [(i['txid'], i['vout']) for i in r0.vin]:
        bad.append('outpoints')
    if [i['seq'] for i in r.vin] != [i['seq'] for i in r0.vin]:
        bad.append('sequences')
    if r.vout != r0.vout:
        bad.append('outputs')
    for b in bad:
        dev('raw_fields|%s' % b, {'spec': _brief(spec)})
    for idx, (inp, ref) in enumerate(zip(spec['inputs'], refs)):
        chk = interp.TxChecker(r, idx, ref['amount'])
        wit = r.wit[idx] if r.wit else []
        try:
            ok = interp.verify_script(r.vin[idx]['script'], ref['spk'], wit, chk)
        except NotImplementedError:
            ok = None
        n_eval += 1
        nt.append('%s.v%d' % (sh, idx))
        if ok is not True:
            dev('consensus_verify|%s|%s' % (inp['kind'], tag),
                {'input': idx, 'script_sig': r.vin[idx]['script'].hex()[:300], 'witness_items': len(wit),
                 'spk': ref['spk'].hex()})
            out('verify_fail')
        else:
            out('verify_ok')
    # ---- parse direction: the digest the library computes for a transaction it parsed
    try:
        t2 = Transaction.parse(raw, network=net)
    except Exception as e:
        dev('parse|raises', {'exc': repr(e)[:300], 'raw': raw.hex()[:300]})
        return {'devs': devs, 'out': outs, 'nt': nt, 'n': n_eval}
    for idx, (inp, ref) in enumerate(zip(spec['inputs'], refs)):
        i2 = t2.inputs[idx]
        try:
            i2.value = ref['amount']
            if inp['kind'] == 'p2pk':
                # the wire format does not carry the public key of a P2PK prevout: re-supplied by the caller
                i2.keys = [Key(ref['pubs'][0].hex(), network=net)]
                i2.script_type = 'signature'
                i2.update_scripts()
            got = t2.signature_hash(idx, i2.hash_type, i2.witness_type)
        except Exception as e:
            got = repr(e)[:200]
        exp = _ref_digest(r, idx, ref)
        n_eval += 1
        nt.append('%s.p%d' % (sh, idx))
        if got != exp:
            dev('signature_hash_parsed|%s|%s' % (inp['kind'], tag),
                {'input': idx, 'expected': exp.hex(), 'got': got.hex() if isinstance(got, bytes) else got,
                 'lib_witness_type': i2.witness_type, 'lib_script_type': i2.script_type})
            out('parsed_dev')
        else:
            out('parsed_ok')
    return {'devs': devs, 'out': outs, 'nt': nt, 'n': n_eval}


def _bip143_swapped(r, idx, ref, ht):
    """The digest obtained when hashOutputs of SIGHASH_SINGLE and SIGHASH_NONE are exchanged."""
    base = ht & 0x1f
    other = (ht & 0x80) | (2 if base == 3 else 3)
    # compute with the other base type's hashOutputs but this hash type's remaining fields
    acp = bool(ht & 0x80)
    hp = hs = bytes(32)
    if not acp:
        hp = codec.dsha256(b''.join(i['txid'] + i['vout'].to_bytes(4, 'little') for i in r.vin))
    ho = bytes(32)
    if (other & 0x1f) == 3 and idx < len(r.vout):
        ho = codec.dsha256(rtx.ser_vout(r.vout[idx]))
    i = r.vin[idx]
    sc = ref['script_code']
    pre = r.version.to_bytes(4, 'little') + hp + hs + i['txid'] + i['vout'].to_bytes(4, 'little') + \
        codec.cs_encode(len(sc)) + sc + ref['amount'].to_bytes(8, 'little') + i['seq'].to_bytes(4, 'little') + \
        ho + r.locktime.to_bytes(4, 'little') + ht.to_bytes(4, 'little')
    return codec.dsha256(pre)


def _brief(spec):
    return {'kinds': [i['kind'] for i in spec['inputs']], 'version': spec['version'], 'locktime': spec['locktime'],
            'seqs': [i['seq'] for i in spec['inputs']], 'values': [i['value'] for i in spec['inputs']],
            'n_out': len(spec['outputs']), 'network': spec['network']}


def sub_hist(case):
    return txhist.sub_hist(case, txhist.check_digests_and_signatures)


SUBS = {'tx': sub_tx, 'hist': sub_hist}

SUPPLY = 21 * 10 ** 14
FIELDS = [
    dict(version=1, locktime=0, seqs=[0xffffffff], values=[100000]),
    dict(version=2, locktime=1, seqs=[0xfffffffe], values=[546, 1]),
    dict(version=1, locktime=499999999, seqs=[0xfffffffd, 0], values=[2 ** 32 - 1, 2 ** 32]),
    dict(version=2, locktime=500000000, seqs=[0, 1], values=[2 ** 32, SUPPLY]),
    dict(version=1, locktime=0xfffffffe, seqs=[1, 0xffffffff], values=[SUPPLY, 1]),
    dict(version=2, locktime=0, seqs=[0xffffffff, 0xfffffffe, 0x00400001], values=[1]),
]


def _payload(tag):
    return hashlib.sha256(tag.encode()).hexdigest()


def _out_shapes(seed):
    one = [{'kind': 'p2pkh', 'payload': _payload('a%d' % seed), 'value': 1000}]
    allk = [{'kind': k, 'payload': _payload('%s%d' % (k, seed)), 'value': 0 if k == 'nulldata' else 600 + j}
            for j, k in enumerate(txgen.OUT_KINDS)]
    big = [{'kind': 'p2wpkh', 'payload': _payload('b%d' % seed), 'value': 2 ** 32},
           {'kind': 'p2sh', 'payload': _payload('c%d' % seed), 'value': SUPPLY - 2 ** 33}]
    return [one, allk, big]


def _many_outputs(n, seed):
    return [{'kind': ('p2wpkh', 'p2pkh', 'p2wsh')[j % 3], 'payload': _payload('m%d.%d' % (seed, j)), 'value': 1000 + j}
            for j in range(n)]


def run(ctx):
    q = ctx.quick
    seed = ctx.seed
    K = txgen.KIND_NAMES
    cases = []

    def add(kinds, mn=(2, 3), f=FIELDS[0], outputs=None, network='bitcoin', hashtypes=False, kb=0):
        spec = txgen.make_spec(seed, list(kinds), mn=mn, version=f['version'], locktime=f['locktime'],
                               seqs=f['seqs'], values=f['values'], outputs=outputs, network=network, key_base=kb)
        cases.append({'spec': spec, 'hashtypes': hashtypes})
    shapes = _out_shapes(seed)
    kmax = 2 if q else 3
    for k in range(1, kmax + 1):
        for kinds in itertools.product(K, repeat=k):
            h = sum((j + 1) * K.index(x) for j, x in enumerate(kinds))
            for fi, f in enumerate(FIELDS):
                for si, sh in enumerate(shapes):
                    # k=1: full product. k=2 quick: each tuple meets 12 of the 18 (field, shape) pairs, chosen so
                    # that over the tuples every pair is met; k=2 thorough: full product. k=3: 3 of 18 pairs.
                    if k == 2 and q and (fi + si) % 3 == h % 3:
                        continue    # quick: 12 of the 18 (field, shape) pairs per 2-tuple
                    if k == 3 and (fi * 3 + si) % 6 != h % 6:
                        continue
                    add(kinds, f=f, outputs=sh, hashtypes=(k == 1 or (not q and k == 2 and si == 1)))
    # m-of-n menu for the multisig kinds
    mns = [(1, 1), (1, 2), (2, 2), (3, 3)] + ([] if q else [(1, 3), (3, 5), (5, 5), (1, 15), (8, 15), (15, 15)])
    for kind in ('p2sh_ms', 'p2wsh_ms', 'p2sh_p2wsh_ms'):
        for mn in mns:
            if kind == 'p2sh_ms' and mn[1] > 15:
                continue
            add([kind], mn=mn, f=FIELDS[1], outputs=shapes[1])
            add(['p2pkh', kind], mn=mn, f=FIELDS[3], outputs=shapes[0])
    # output counts across the CompactSize boundary
    for n_out in (252, 253) + (() if q else (254, 300)):
        for kind in K:
            add([kind], f=FIELDS[1], outputs=_many_outputs(n_out, seed))
    if not q:
        add(['p2wpkh', 'p2pkh'], f=FIELDS[2], outputs=_many_outputs(0xffff, seed))
        add(['p2pkh', 'p2wpkh'], f=FIELDS[2], outputs=_many_outputs(0x10000, seed))
    # every supported network (addresses / key prefixes differ; digests must not)
    for net in nets.NAMES:
        if net == 'bitcoin':
            continue
        for kind in K:
            add([kind], f=FIELDS[1], outputs=shapes[1], network=net)
        if not q:
            for kinds in itertools.product(K, repeat=2):
                add(kinds, f=FIELDS[2], outputs=shapes[0], network=net)
    # seed window: a second key/txid family for the single-kind specs
    for kind in K:
        add([kind], f=FIELDS[4], outputs=shapes[2], kb=100 + (seed % 1000))
    ctx.pmap('tx', cases)
    # operation histories on one live Transaction object (state surviving between calls): BFS, every history
    # replayed on a fresh object; the digest must match the CURRENT fields and a freshly re-signed transaction
    # must pass the reference interpreter
    hcfgs = [({'kinds': k, 'seed': seed % 1000, 'events': txhist.EVENTS}, 3 if q else 4) for k in txhist.CONFIGS]
    nstates = ctx.bfs_multi('hist', hcfgs, max_states=4000 if q else 60000)
    ctx.note('history_states', nstates)
    ctx.note('bounds', {'max_inputs': kmax, 'field_vectors': len(FIELDS), 'output_shapes': len(shapes),
                        'm_of_n': mns, 'networks': nets.NAMES, 'specs': len(cases)})
