"""C12 every key export format imports back to the same key and metadata.

E1 input-space enumeration: keys x compressed flag x networks x witness types x multisig x private/public x
depth / child index; every export (hex, bytes, int, WIF, extended key through wif()/wif_private()/
wif_public()/wif_key(), public hex/bytes) is compared with the independent encoding (vf/ref/bip32.py,
vf/ref/codec.py, golden prefix table vf/ref/nets.py) and imported back through Key, Key.from_wif, HDKey,
HDKey.from_wif and get_key_format, with and without hints.
"""
import hashlib

from vf.ref import secp, codec, nets, bip32, bip38

ID = 'C12'
LEVEL = 'exploration'
RULE = ('full product of the stated alphabets: secrets {1, 2, n-1, n-2, leading-zero-byte secrets, secrets '
        'ending in byte 01, public-key-prefix lookalikes, a VERIF_SEED positioned window of consecutive secrets} x '
        'compressed flag x 11 networks (plain formats and WIF); secrets x networks x {legacy,p2sh-segwit,segwit} x '
        '{single,multisig} x {private,public} x (depth, child index) alphabet x chain/fingerprint fillers '
        '(extended keys); every export string/value is compared with the reference encoding and every import '
        'entry point is called with no hint, with the network hint and with all hints; a case is non-trivial when '
        'an import returned a key object whose fields were compared (distinct by key x configuration)')
ASSUMPTIONS = [
    'reference Base58Check / BIP32 serialisation / BIP38 and the golden prefix table are validated by their '
    'self-tests against published vectors',
    'formats that do not encode a property (hex/bytes/int: compression, network; extended keys: compression) '
    'are only required to reproduce it when it is supplied as a hint',
    'shared prefixes: without hints the imported (network, witness type, multisig) only has to lie in the set of '
    'combinations that share the version bytes in the golden table (nets.hd_candidates / equal WIF byte); with a '
    'network hint the network must be the hinted one',
    'an import WITHOUT network hint that raises the "multiple networks found" BKeyError, for a prefix whose '
    'candidate networks do not include the default network, is a refusal and not a deviation',
    'Key(0)/falsy import means "generate a key" and is not part of the space (secrets are >= 1)',
    'a (network, witness type, multisig) combination for which the golden table has no extended-key prefix '
    '(dogecoin segwit...) is unsupported: the export must raise and nothing is imported',
    'extended keys of an uncompressed HDKey are outside BIP32 (the library warns); only "never a different key '
    'silently" is demanded there: refusal, or the same point',
    'BIP38: only non-EC-multiplied keys, classification by get_key_format and import through Key(password=, '
    'network=) / HDKey(witness_type=legacy); encryption itself is C15',
    'hex+01 / bytes+01 private notations are not export formats of the library and are not enumerated',
]

N = secp.N
NETS = nets.NAMES
WTS = ('legacy', 'p2sh-segwit', 'segwit')
DEFAULT_NETWORK = 'bitcoin'


def selftest():
    secp.selftest()
    codec.selftest()
    nets.selftest()
    bip32.selftest()
    # WIF vectors (Bitcoin wiki / BIP38 vectors)
    assert ref_wif('bitcoin', 0x0C28FCA386C7A227600B2FE50B7CAE11EC86D3BF1FBE471BE89827E19D72AA1D, False) == \
        '5HueCGU8rMjxEXxiPuD5BDku4MkFqeZyd4dZ1jvhTVqvbTLvyTJ'
    assert ref_wif('bitcoin', 0xCBF4B9F70470856BB4F40F80B87EDB90865997FFEE6DF315AB166D713AF433A5, True) == \
        'L44B5gGEpqEDRS9vVPz7QT35jcBG2r3CZwSwQ4fCewXAhAhqGVpP'
    assert ref_wif('bitcoin', 1, True) == 'KwDiBf89QgGbjEhKnhXJuH7LrciVrZi3qYjgd9M7rFU73sVHnoWn'
    assert wif_candidates('testnet') == ['testnet', 'testnet4', 'signet', 'litecoin_testnet']
    assert set(c[0] for c in nets.hd_candidates(bytes.fromhex('0488b21e'))) == {'bitcoin', 'regtest', 'dogecoin'}


def ref_wif(net, d, compressed):
    return codec.b58check_encode(nets.wif_ver(net) + d.to_bytes(32, 'big') + (b'\x01' if compressed else b''))


def wif_candidates(net):
    return [n for n in NETS if nets.wif_ver(n) == nets.wif_ver(net)]


def _exc(e):
    return '%s: %s' % (type(e).__name__, str(e)[:160])


def _is_ambiguity_refusal(e, cand_networks):
    return (type(e).__name__ == 'BKeyError' and 'multiple networks found' in str(e)
            and len(set(cand_networks)) > 1 and DEFAULT_NETWORK not in cand_networks)


class Devs:
    def __init__(self):
        self.devs = []
        self.seen = set()
        self.n = 0
        self.out = {}
        self.compared = 0

    def dev(self, sig, detail):
        if sig not in self.seen:
            self.seen.add(sig)
            self.devs.append({'sig': sig, 'detail': detail})
        self.bump('dev')

    def bump(self, k):
        self.out[k] = self.out.get(k, 0) + 1


def _key_fields(k):
    return {'is_private': bool(k.is_private), 'secret': k.secret, 'compressed': k.compressed,
            'public_hex': k.public_hex, 'network': k.network.name}


def _hd_fields(k):
    f = _key_fields(k)
    f.update({'chain': bytes(k.chain).hex(), 'depth': k.depth, 'parent_fingerprint': bytes(k.parent_fingerprint).hex(),
              'child_index': k.child_index, 'witness_type': k.witness_type, 'multisig': bool(k.multisig)})
    return f


# --------------------------------------------------------------------------------- plain formats + WIF
def _check_fields(D, entry, got, exp, detail):
    """exp: field -> value, or field -> ('in', collection)."""
    ok = True
    for f, v in exp.items():
        g = got.get(f)
        if isinstance(v, tuple) and v and v[0] == 'in':
            good = g in v[1]
        else:
            good = g == v
        if not good:
            ok = False
            D.dev('%s|%s_differs' % (entry, f), dict(detail, field=f, got=g, expected=v))
    D.compared += 1
    D.bump('imported_equal' if ok else 'imported_differs')
    return ok


def _wif_misparse(d, c, got):
    """The known mis-parse: an uncompressed WIF whose secret ends in byte 01 read as a compressed WIF of the
    31-byte secret in front of it."""
    return (not c) and (d & 0xff) == 1 and got.get('compressed') is True and (got.get('secret') or 0) == d >> 8


def sub_plain(case):
    """case = {'ds': [hex], 'i0': int}: for each secret x compressed flag: hex / bytes / int / public
    exports (one rotating network), then WIF on every network, no hint / network hint."""
    from bitcoinlib.keys import Key, HDKey, get_key_format
    D = Devs()
    nt = []
    for off, hx in enumerate(case['ds']):
        idx = case['i0'] + off
        d = int(hx, 16)
        pt = secp.pub(d)
        for c in (True, False):
            net = NETS[(idx * 2 + (0 if c else 1)) % len(NETS)]
            wt = WTS[idx % 3]
            ms = bool((idx // 3) % 2)
            pub = secp.ser(pt, c).hex()
            det = {'d': hx, 'compressed': c, 'net': net}
            try:
                k = Key(d, network=net, compressed=c)
                ex = {'private_hex': k.private_hex, 'private_byte': bytes(k.private_byte).hex(), 'secret': k.secret,
                      'public_hex': k.public_hex, 'public_byte': bytes(k.public_byte).hex(),
                      'as_bytes_private': bytes(k.as_bytes(private=True)).hex(), 'int': int(k)}
            except Exception as e:
                D.dev('Key(int)|valid_key_refused', dict(det, exc=_exc(e)))
                continue
            ref = {'private_hex': '%064x' % d, 'private_byte': '%064x' % d, 'secret': d, 'public_hex': pub,
                   'public_byte': pub, 'as_bytes_private': '%064x' % d, 'int': d}
            for f in ref:
                D.n += 1
                if ex[f] != ref[f]:
                    D.dev('export|%s_differs_from_reference' % f, dict(det, got=ex[f], expected=ref[f]))
            base = {'is_private': True, 'secret': d, 'public_hex': None}
            b = bytes.fromhex(ref['private_byte'])
            imports = [
                ('Key(hex)', lambda: Key(ref['private_hex']), {}),
                ('Key(hex,hints)', lambda: Key(ref['private_hex'], network=net, compressed=c), {'compressed': c, 'network': net}),
                ('Key(bytes)', lambda: Key(b), {}),
                ('Key(bytes,hints)', lambda: Key(b, network=net, compressed=c), {'compressed': c, 'network': net}),
                ('Key(int,hints)', lambda: Key(d, network=net, compressed=c), {'compressed': c, 'network': net}),
                ('Key(hex,is_private=True)', lambda: Key(ref['private_hex'], is_private=True, compressed=c), {'compressed': c}),
            ]
            for entry, f, extra in imports:
                D.n += 1
                try:
                    got = _key_fields(f())
                except Exception as e:
                    D.dev('%s|valid_key_refused' % entry, dict(det, exc=_exc(e)))
                    continue
                exp = {'is_private': True, 'secret': d}
                exp.update(extra)
                if 'compressed' in extra:
                    exp['public_hex'] = pub
                _check_fields(D, entry, got, exp, det)
            hd_imports = [
                ('HDKey(hex,hints)', lambda: HDKey(ref['private_hex'], network=net, compressed=c, witness_type=wt, multisig=ms)),
                ('HDKey(bytes,hints)', lambda: HDKey(b, network=net, compressed=c, witness_type=wt, multisig=ms)),
                ('HDKey(int,hints)', lambda: HDKey(d, network=net, compressed=c, witness_type=wt, multisig=ms)),
            ]
            entry, f = hd_imports[idx % 3]
            D.n += 1
            try:
                got = _hd_fields(f())
            except Exception as e:
                D.dev('%s|valid_key_refused' % entry, dict(det, exc=_exc(e)))
            else:
                if ms and got['multisig'] is False:
                    # named class: the supplied multisig=True is overwritten by get_key_format's default [False]
                    D.dev('HDKey(plain,hints)|multisig_hint_ignored', dict(det, entry=entry, wt=wt, ms=ms, got=got['multisig']))
                    got['multisig'] = ms
                _check_fields(D, entry, got, {'is_private': True, 'secret': d, 'compressed': c, 'public_hex': pub,
                                              'network': net, 'witness_type': wt, 'multisig': ms}, dict(det, wt=wt, ms=ms))
            # format detection of the plain notations
            for entry, val, priv in (('get_key_format(hex)', ref['private_hex'], True), ('get_key_format(bytes)', b, True),
                                     ('get_key_format(int)', d, True), ('get_key_format(public_hex)', pub, False),
                                     ('get_key_format(public_bytes)', bytes.fromhex(pub), False)):
                D.n += 1
                try:
                    kf = get_key_format(val)
                except Exception as e:
                    D.dev('%s|raises' % entry, dict(det, exc=_exc(e)))
                    continue
                if kf['is_private'] is not priv:
                    D.dev('%s|is_private_wrong' % entry, dict(det, got=kf))
            # public notations
            for entry, f, extra in (
                    ('Key(public_hex)', lambda: Key(pub), {}),
                    ('Key(public_hex,network)', lambda: Key(pub, network=net), {'network': net}),
                    ('Key(public_bytes)', lambda: Key(bytes.fromhex(pub)), {}),
                    ('Key(point,hints)', lambda: Key((pt[0], pt[1]), network=net, compressed=c), {'network': net}),
                    ('HDKey(public_hex,hints)', lambda: HDKey(pub, network=net, witness_type=wt, multisig=ms), {'network': net})):
                D.n += 1
                try:
                    got = _key_fields(f())
                except Exception as e:
                    D.dev('%s|valid_key_refused' % entry, dict(det, exc=_exc(e)))
                    continue
                exp = {'is_private': False, 'secret': None, 'compressed': c, 'public_hex': pub}
                exp.update(extra)
                _check_fields(D, entry, got, exp, det)
            # ---- WIF on every network
            for wnet in NETS:
                wdet = {'d': hx, 'compressed': c, 'net': wnet}
                rw = ref_wif(wnet, d, c)
                D.n += 1
                try:
                    kk = Key(b, network=wnet, compressed=c)
                    lw = kk.wif()
                    lw2 = HDKey(b, network=wnet, compressed=c).wif_key()
                except Exception as e:
                    D.dev('Key.wif|raises', dict(wdet, exc=_exc(e)))
                    lw = lw2 = rw
                if lw != rw:
                    D.dev('export|wif_differs_from_reference', dict(wdet, got=lw, expected=rw))
                if lw2 != rw:
                    D.dev('export|wif_key_differs_from_reference', dict(wdet, got=lw2, expected=rw))
                cands = wif_candidates(wnet)
                D.n += 1
                try:
                    kf = get_key_format(rw)
                    if kf['is_private'] is not True:
                        D.dev('get_key_format(wif)|is_private_wrong', dict(wdet, got=kf))
                    elif kf['format'] != ('wif_compressed' if c else 'wif'):
                        if (not c) and (d & 0xff) == 1 and kf['format'] == 'wif_compressed':
                            D.dev('get_key_format(wif)|uncompressed_secret_ending_01_classified_wif_compressed',
                                  dict(wdet, wif=rw, got=kf['format']))
                        else:
                            D.dev('get_key_format(wif)|format_wrong', dict(wdet, wif=rw, got=kf['format']))
                    elif wnet not in (kf['networks'] or []):
                        D.dev('get_key_format(wif)|network_missing', dict(wdet, got=kf['networks']))
                except Exception as e:
                    D.dev('get_key_format(wif)|raises', dict(wdet, exc=_exc(e)))
                wimports = [
                    ('Key(wif)', lambda: Key(rw), None), ('Key(wif,network)', lambda: Key(rw, network=wnet), wnet),
                    ('Key.from_wif(wif)', lambda: Key.from_wif(rw), None),
                    ('Key.from_wif(wif,network)', lambda: Key.from_wif(rw, network=wnet), wnet),
                    ('HDKey(wif)', lambda: HDKey(rw), None), ('HDKey(wif,network)', lambda: HDKey(rw, network=wnet), wnet),
                ]
                for entry, f, hint in wimports:
                    D.n += 1
                    try:
                        ko = f()
                        got = _key_fields(ko)
                    except Exception as e:
                        if hint is None and _is_ambiguity_refusal(e, cands):
                            D.bump('refused_ambiguous_network')
                            continue
                        if (not c) and (d & 0xff) == 1:
                            D.dev('Key.__init__(wif)|uncompressed_secret_ending_01_misparsed_then_refused',
                                  dict(wdet, wif=rw, entry=entry, exc=_exc(e)))
                        else:
                            D.dev('%s|valid_key_refused' % entry, dict(wdet, wif=rw, exc=_exc(e)))
                        continue
                    if _wif_misparse(d, c, got):
                        D.dev('Key.__init__(wif)|uncompressed_secret_ending_01_read_as_compressed_31_byte_secret',
                              dict(wdet, wif=rw, entry=entry, got=got))
                        continue
                    exp = {'is_private': True, 'secret': d, 'compressed': c, 'public_hex': pub,
                           'network': hint if hint else ('in', cands)}
                    if _check_fields(D, entry, got, exp, dict(wdet, wif=rw)) and hint:
                        # import then export gives the same representation again
                        try:
                            back = ko.wif_key() if entry.startswith('HDKey') else ko.wif()
                        except Exception as e:
                            back = _exc(e)
                        if back != rw:
                            D.dev('%s|reexport_differs' % entry, dict(wdet, wif=rw, got=back))
        nt.append(hx)
    return {'devs': D.devs, 'n': D.n, 'nt': nt if D.compared else [], 'out': D.out}


# --------------------------------------------------------------------------------- extended keys
def _cand_networks(cands):
    return list(dict.fromkeys(c[0] for c in cands))


def _expect_meta(cands, priv, net=None, wt=None, ms=None):
    """Allowed (network, witness_type, multisig) triples given the hints that were supplied."""
    out = []
    for n, p, w, m in cands:
        if p != priv:
            continue
        if net is not None and n != net:
            continue
        if wt is not None and w != wt:
            continue
        if ms is not None and m != ms:
            continue
        out.append((n, w, m))
    return out


def sub_ext(case):
    """case = {'d', 'net', 'depth', 'child', 'chain', 'fp'}: every witness type x multisig x private/public."""
    from bitcoinlib.keys import Key, HDKey, get_key_format
    D = Devs()
    d = int(case['d'], 16)
    net = case['net']
    depth, child = case['depth'], case['child']
    chain = bytes.fromhex(case['chain'])
    fp = bytes.fromhex(case['fp'])
    pt = secp.pub(d)
    X = bip32.XKey(d, pt, chain, depth, fp, child)
    pub = secp.ser(pt, True)
    b = d.to_bytes(32, 'big')
    for wt in WTS:
        for ms in (False, True):
            det = {'d': case['d'], 'net': net, 'wt': wt, 'ms': ms, 'depth': depth, 'child': child}
            vprv = nets.hd_prefix(net, True, wt, ms)
            vpub = nets.hd_prefix(net, False, wt, ms)
            try:
                kp = HDKey(key=b, chain=chain, depth=depth, parent_fingerprint=fp, child_index=child, network=net,
                           witness_type=wt, multisig=ms)
                kq = HDKey(key=pub, chain=chain, depth=depth, parent_fingerprint=fp, child_index=child, network=net,
                           witness_type=wt, multisig=ms, is_private=False)
            except Exception as e:
                D.n += 1
                D.dev('HDKey(key=,chain=)|valid_key_refused', dict(det, exc=_exc(e)))
                continue
            exports = [('wif_private()', lambda: kp.wif_private(), True), ('wif(is_private=True)', lambda: kp.wif(is_private=True), True),
                       ('wif_public()', lambda: kp.wif_public(), False), ('wif()', lambda: kp.wif(), False),
                       ('public.wif_public()', lambda: kq.wif_public(), False), ('public.wif()', lambda: kq.wif(), False),
                       ('HDKey().wif(witness_type=,multisig=)', lambda: HDKey(key=b, chain=chain, depth=depth, parent_fingerprint=fp,
                                                                           child_index=child, network=net).wif(
                           is_private=True, witness_type=wt, multisig=ms), True)]
            strings = {}
            for name, f, priv in exports:
                D.n += 1
                ver = vprv if priv else vpub
                try:
                    s = f()
                except Exception as e:
                    if ver is None:
                        D.bump('unsupported_combination_refused')
                    else:
                        D.dev('export %s|raises' % name, dict(det, exc=_exc(e)))
                    continue
                if ver is None:
                    D.dev('export %s|prefix_for_unsupported_combination' % name, dict(det, got=s[:12]))
                    continue
                rs = X.ser(ver, priv)
                if s != rs:
                    D.dev('export %s|differs_from_reference' % name, dict(det, got=s, expected=rs))
                    strings.setdefault(priv, set()).add(s)
            for priv, ver in ((True, vprv), (False, vpub)):
                if ver is None:
                    continue
                todo = [X.ser(ver, priv)] + sorted(strings.get(priv, ()))
                cands = nets.hd_candidates(ver)
                cnets = _cand_networks(cands)
                for s in todo:
                    sdet = dict(det, private=priv, xkey=s)
                    D.n += 1
                    try:
                        kf = get_key_format(s)
                        if kf['is_private'] is not priv or kf['format'] != ('hdkey_private' if priv else 'hdkey_public'):
                            D.dev('get_key_format(xkey)|private_public_misclassified', dict(sdet, got=kf))
                        elif net not in (kf['networks'] or []) or wt not in kf['witness_types'] or ms not in kf['multisig']:
                            D.dev('get_key_format(xkey)|metadata_missing', dict(sdet, got=kf))
                    except Exception as e:
                        D.dev('get_key_format(xkey)|raises', dict(sdet, exc=_exc(e)))
                    imports = [
                        ('HDKey(xkey)', lambda: HDKey(s), _expect_meta(cands, priv), True),
                        ('HDKey(xkey,network)', lambda: HDKey(s, network=net), _expect_meta(cands, priv, net), False),
                        ('HDKey(xkey,all_hints)', lambda: HDKey(s, network=net, witness_type=wt, multisig=ms),
                         [(net, wt, ms)], False),
                        # every partial combination of hints: a correct hint for one field must not disturb what the
                        # prefix says about the others
                        ('HDKey(xkey,witness_type)', lambda: HDKey(s, witness_type=wt), _expect_meta(cands, priv, None, wt), True),
                        ('HDKey(xkey,network,witness_type)', lambda: HDKey(s, network=net, witness_type=wt),
                         _expect_meta(cands, priv, net, wt), False),
                        ('HDKey(xkey,multisig)', lambda: HDKey(s, multisig=ms), _expect_meta(cands, priv, None, None, ms), True),
                        ('HDKey(xkey,network,multisig)', lambda: HDKey(s, network=net, multisig=ms),
                         _expect_meta(cands, priv, net, None, ms), False),
                        ('HDKey(xkey,witness_type,multisig)', lambda: HDKey(s, witness_type=wt, multisig=ms),
                         _expect_meta(cands, priv, None, wt, ms), True),
                        ('HDKey.from_wif(xkey)', lambda: HDKey.from_wif(s), _expect_meta(cands, priv), True),
                        ('HDKey.from_wif(xkey,network,multisig)', lambda: HDKey.from_wif(s, network=net, multisig=ms),
                         _expect_meta(cands, priv, net, None, ms), False),
                    ]
                    for entry, f, allowed, nohint in imports:
                        D.n += 1
                        try:
                            ko = f()
                            got = _hd_fields(ko)
                        except Exception as e:
                            if nohint and _is_ambiguity_refusal(e, cnets):
                                D.bump('refused_ambiguous_network')
                                continue
                            D.dev('%s|valid_key_refused' % entry, dict(sdet, exc=_exc(e)))
                            continue
                        exp = {'is_private': priv, 'secret': d if priv else None, 'public_hex': pub.hex(),
                               'compressed': True, 'chain': chain.hex(), 'depth': depth,
                               'parent_fingerprint': fp.hex(), 'child_index': child}
                        ok = _check_fields(D, entry, got, exp, sdet)
                        meta = (got['network'], got['witness_type'], got['multisig'])
                        if meta not in allowed:
                            ok = False
                            D.dev('%s|metadata_outside_candidates' % entry, dict(sdet, got=meta, allowed=allowed[:8]))
                        if ok and entry == 'HDKey(xkey,all_hints)':
                            try:
                                back = ko.wif(is_private=priv)
                            except Exception as e:
                                back = _exc(e)
                            if back != s:
                                D.dev('%s|reexport_differs' % entry, dict(sdet, got=back))
    return {'devs': D.devs, 'n': D.n, 'nt': True if D.compared else [], 'out': D.out}


def sub_extunc(case):
    """Extended keys of an UNCOMPRESSED HDKey (outside BIP32): never a different key silently."""
    from bitcoinlib.keys import HDKey
    D = Devs()
    d = int(case['d'], 16)
    net = case['net']
    pt = secp.pub(d)
    chain = bytes.fromhex(case['chain'])
    b = d.to_bytes(32, 'big')
    for wt in WTS:
        det = {'d': case['d'], 'net': net, 'wt': wt}
        if nets.hd_prefix(net, True, wt, False) is None:
            continue
        try:
            k = HDKey(key=b, chain=chain, network=net, witness_type=wt, compressed=False)
        except Exception:
            D.bump('refused')
            continue
        for name, f, priv in (('wif_private()', k.wif_private, True), ('wif_public()', k.wif_public, False)):
            D.n += 1
            try:
                s = f()
            except Exception:
                D.bump('refused')
                continue
            for entry, imp in (('HDKey(xkey)', lambda: HDKey(s, network=net)), ('HDKey.from_wif(xkey)', lambda: HDKey.from_wif(s, network=net))):
                D.n += 1
                try:
                    ko = imp()
                    got_pt = ko.public_point()
                    got_secret = ko.secret
                except Exception:
                    D.bump('refused')
                    continue
                D.compared += 1
                if (priv and got_secret != d) or list(got_pt) != [pt[0], pt[1]]:
                    D.dev('%s|uncompressed_hdkey_%s_imports_as_other_key' % (entry, name),
                          dict(det, xkey=s, got_public=ko.public_hex, expected_point=['%x' % pt[0], '%x' % pt[1]]))
                else:
                    D.bump('imported_equal')
    return {'devs': D.devs, 'n': D.n, 'nt': True if D.compared else [], 'out': D.out}


# --------------------------------------------------------------------------------- BIP38
def sub_bip38(case):
    from bitcoinlib.keys import Key, HDKey, get_key_format
    D = Devs()
    d = int(case['d'], 16)
    c = case['compressed']
    net = case['net']
    pw = case['password']
    det = dict(case)
    s = bip38.encrypt(d, c, pw, nets.p2pkh_ver(net))
    D.n += 1
    try:
        kf = get_key_format(s)
        if kf['is_private'] is not True or kf['format'] != 'wif_protected':
            D.dev('get_key_format(bip38)|misclassified', dict(det, got=kf))
    except Exception as e:
        D.dev('get_key_format(bip38)|raises', dict(det, exc=_exc(e)))
    for entry, f in (('Key(bip38)', lambda: Key(s, password=pw, network=net)),
                     ('HDKey(bip38,witness_type=legacy)', lambda: HDKey(s, password=pw, network=net, witness_type='legacy'))):
        D.n += 1
        try:
            got = _key_fields(f())
        except Exception as e:
            D.dev('%s|valid_key_refused' % entry, dict(det, exc=_exc(e)))
            continue
        _check_fields(D, entry, got, {'is_private': True, 'secret': d, 'compressed': c, 'network': net,
                                      'public_hex': secp.ser(secp.pub(d), c).hex()}, det)
    return {'devs': D.devs, 'n': D.n, 'nt': True if D.compared else [], 'out': D.out}


# --------------------------------------------------------------------------------- export histories
# Histories of export / query / mutation calls on ONE live object.  A reference model (network, compression
# flag, witness type, multisig; everything else is constant) is advanced in lock-step; the value returned by
# EVERY call is compared with the reference encoding for the model state at that moment and the parameters of
# that call, and re-imported.  After the history a fixed observation suite is run the same way.
WIF_BYTES = sorted(set(nets.wif_ver(n_).hex() for n_ in NETS))
HIST_NETS = ['bitcoin', 'dogecoin', 'litecoin', 'testnet', 'bitcoinlib_test']
_IMPORT_MEMO = {}


def key_alphabet(net):
    own = nets.wif_ver(net).hex()
    ev = [['wif']]
    for b in WIF_BYTES:
        if b != own:
            ev += [['wif', 'b', b], ['wif', 'h', b]]
    ev += [['wif', 'b', own], ['as_dict', True], ['as_dict', False], ['info'], ['address'], ['address_c', False],
           ['address_c', True], ['public']]
    return ev


def hd_alphabet(net, thorough):
    own = nets.wif_ver(net).hex()
    others = [b for b in WIF_BYTES if b != own]
    ev = [['xwif', None, None, None], ['xwif', True, None, None], ['xpub'], ['xprv'], ['wif_key']]
    for b in (others if thorough else others[:2]):
        ev += [['wif_key', 'b', b], ['wif_key', 'h', b]]
    for w in WTS:
        for m in (None, True):
            ev += [['xwif', True, w, m], ['xwif', False, w, m]]
    ev += [['xwif_prefix', 'b', '0488ade4', True], ['xwif_prefix', 'h', '043587cf', False],
           ['as_dict', True], ['as_dict', False], ['info'], ['address'], ['public']]
    ev += [['netchg', n_] for n_ in HIST_NETS]
    return ev


class _Model:
    def __init__(self, cfg):
        self.hd = cfg['cls'] == 'HDKey'
        self.d = int(cfg['d'], 16)
        self.pt = secp.pub(self.d)
        self.net = cfg['net']
        self.compressed = cfg['compressed']
        self.wt = cfg.get('wt')
        self.ms = cfg.get('ms', False)
        self.chain = bytes.fromhex(cfg.get('chain', '00' * 32))
        self.depth = cfg.get('depth', 0)
        self.fp = bytes.fromhex(cfg.get('fp', '00000000'))
        self.child = cfg.get('child', 0)
        self.X = bip32.XKey(self.d, self.pt, self.chain, self.depth, self.fp, self.child)

    def wif(self, ver_hex=None):
        ver = bytes.fromhex(ver_hex) if ver_hex else nets.wif_ver(self.net)
        return codec.b58check_encode(ver + self.d.to_bytes(32, 'big') + (b'\x01' if self.compressed else b''))

    def xkey(self, priv, wt=None, ms=None):
        """reference extended key string, or None when the golden table has no prefix (must be refused)"""
        ver = nets.hd_prefix(self.net, bool(priv), wt or self.wt, bool(ms) or self.ms)
        return None if ver is None else self.X.ser(ver, bool(priv))

    def address(self):
        from vf.ref import addr as raddr
        h = codec.hash160(secp.ser(self.pt, self.compressed))
        if self.hd and self.ms:
            return None         # address of a cosigner key alone: not an export format, not demanded
        if not self.hd or self.wt == 'legacy':
            return raddr.addr_p2pkh(self.net, h)
        if self.wt == 'p2sh-segwit':
            return raddr.addr_p2sh(self.net, codec.hash160(b'\x00\x14' + h))
        return raddr.addr_witness(self.net, 0, h)


def _build(cfg):
    from bitcoinlib.keys import Key, HDKey
    d = int(cfg['d'], 16)
    if cfg['cls'] == 'Key':
        return Key(d, network=cfg['net'], compressed=cfg['compressed'])
    return HDKey(key=d.to_bytes(32, 'big'), chain=bytes.fromhex(cfg['chain']), depth=cfg['depth'],
                 parent_fingerprint=bytes.fromhex(cfg['fp']), child_index=cfg['child'], network=cfg['net'],
                 witness_type=cfg['wt'], multisig=cfg['ms'], compressed=cfg['compressed'])


def _parse_info(text):
    out = {}
    for line in text.splitlines():
        line = line.strip()
        for label in ('Network', 'Compressed', 'Private Key (wif)', 'Address (b58)', 'Extended Public Key (wif)',
                      'Extended Private Key (wif)'):
            if line.startswith(label + ' '):
                out[label] = line[len(label):].strip()
    return out


def _reimport_wif(w, net):
    from bitcoinlib.keys import Key
    k_ = ('wif', w, net)
    if k_ not in _IMPORT_MEMO:
        try:
            _IMPORT_MEMO[k_] = _key_fields(Key(w, network=net))
        except Exception as e:
            _IMPORT_MEMO[k_] = {'exc': _exc(e)}
    return _IMPORT_MEMO[k_]


def _reimport_x(s, net, wt, ms):
    from bitcoinlib.keys import HDKey
    k_ = ('x', s, net, wt, ms)
    if k_ not in _IMPORT_MEMO:
        try:
            _IMPORT_MEMO[k_] = _hd_fields(HDKey(s, network=net, witness_type=wt, multisig=ms))
        except Exception as e:
            _IMPORT_MEMO[k_] = {'exc': _exc(e)}
    return _IMPORT_MEMO[k_]


def _diff_class(got, exp):
    """Names the components in which an exported string differs from the reference string."""
    if not isinstance(got, str):
        return 'not_a_string'
    a, b = codec.b58check_decode(got), codec.b58check_decode(exp)
    if a is None or b is None:
        return 'differs' if b is None else 'not_base58check'
    if len(b) in (33, 34) and len(a) in (33, 34):
        parts = [n_ for n_, x, y in (('version_byte', a[:1], b[:1]), ('secret', a[1:33], b[1:33]),
                                     ('compressed_flag', a[33:], b[33:])) if x != y]
    elif len(b) == 78 and len(a) == 78:
        parts = [n_ for n_, i, j in (('version', 0, 4), ('depth', 4, 5), ('fingerprint', 5, 9), ('child', 9, 13),
                                     ('chain', 13, 45), ('key', 45, 78)) if a[i:j] != b[i:j]]
    else:
        return 'other_layout_len%d' % len(a)
    return 'differs_in_' + '+'.join(parts)


_KIND_SITE = {'wif()': 'wif_export', 'wif(prefix)': 'wif_export', 'wif_key()': 'wif_export',
              'wif_key(prefix)': 'wif_export', 'as_dict[wif]': 'wif_export', 'info[Private Key (wif)]': 'wif_export',
              'address()': 'address', 'address(compressed=)': 'address', 'as_dict[address]': 'address',
              'info[Address (b58)]': 'address'}


def _site(kind):
    """wif_export: everything that ends in Key.wif(); xkey_export: everything that ends in HDKey.wif()."""
    return 'hist:' + _KIND_SITE.get(kind, 'xkey_export' if ('wif' in kind or 'Extended' in kind) else kind)


class _HistRun:
    """Executes one history on one object; compares every returned export with the model."""

    def __init__(self, D, cfg, obj):
        self.D = D
        self.cfg = cfg
        self.m = _Model(cfg)
        self.k = obj
        self.hist = []
        self.earlier = set()      # every export string returned or expected earlier in this history

    def _det(self, **kw):
        d = {'cfg': {a: b for a, b in self.cfg.items() if a in ('cls', 'd', 'net', 'compressed', 'wt', 'ms')},
             'history': list(self.hist), 'model_network': self.m.net, 'model_compressed': self.m.compressed}
        d.update(kw)
        return d

    def check_str(self, kind, got, exp, reimport=None):
        """kind: small fixed name of the export; exp None = the call must be refused."""
        D = self.D
        D.n += 1
        site = _site(kind)
        if isinstance(got, Exception):
            if exp is None:
                D.bump('refused_unsupported')
            else:
                D.dev('%s|raises' % site, self._det(call=kind, exc=_exc(got), expected=exp))
            return
        if exp is None:
            D.dev('%s|prefix_for_unsupported_combination' % site, self._det(call=kind, got=got))
            return
        if got != exp:
            cls = _diff_class(got, exp) if site != 'hist:address' else 'differs'
            D.dev('%s|%s' % (site, cls), self._det(call=kind, got=got, expected=exp,
                                                   returned_or_valid_earlier=got in self.earlier))
        else:
            D.compared += 1
            D.bump('export_equal')
        self.earlier.add(exp)
        if isinstance(got, str):
            self.earlier.add(got)
        if reimport and got == exp:
            f = reimport(got)
            want = {'secret': self.m.d if f.get('is_private', True) else None, 'network': self.m.net}
            if 'exc' in f:
                D.dev('%s|reimport_refused' % site, self._det(call=kind, got=got, exc=f['exc']))
            elif any(f.get(a) != b for a, b in want.items()):
                D.dev('%s|reimport_differs' % site, self._det(call=kind, got=got, imported=f))

    def step(self, ev):
        import contextlib
        import io
        k, m = self.k, self.m
        self.hist.append(ev)
        op = ev[0]

        def call(f):
            try:
                return f()
            except Exception as e:
                return e
        if op in ('wif', 'wif_key'):
            meth = k.wif if (op == 'wif' and not m.hd) else k.wif_key
            if op == 'wif' and m.hd:
                raise AssertionError('wif on HDKey is xwif')
            if len(ev) == 1:
                got = call(meth)
                self.check_str(op + '()', got, m.wif(), lambda w: _reimport_wif(w, m.net))
            else:
                pref = bytes.fromhex(ev[2]) if ev[1] == 'b' else ev[2]
                got = call(lambda: meth(prefix=pref))
                self.check_str(op + '(prefix)', got, m.wif(ev[2]))
        elif op == 'xwif':
            _, P, W, M = ev
            kw = {}
            if P is not None:
                kw['is_private'] = P
            if W is not None:
                kw['witness_type'] = W
            if M is not None:
                kw['multisig'] = M
            got = call(lambda: k.wif(**kw))
            weff, meff = W or m.wt, bool(M) or m.ms
            self.check_str('wif(%s)' % ('plain' if W is None and M is None else 'witness_type,multisig'), got,
                           m.xkey(P, W, M), lambda s_: _reimport_x(s_, m.net, weff, meff))
        elif op == 'xpub':
            self.check_str('wif_public()', call(k.wif_public), m.xkey(False),
                           lambda s_: _reimport_x(s_, m.net, m.wt, m.ms))
        elif op == 'xprv':
            self.check_str('wif_private()', call(k.wif_private), m.xkey(True),
                           lambda s_: _reimport_x(s_, m.net, m.wt, m.ms))
        elif op == 'xwif_prefix':
            _, form, ver, P = ev
            pref = bytes.fromhex(ver) if form == 'b' else ver
            got = call(lambda: k.wif(is_private=P, prefix=pref))
            self.check_str('wif(prefix)', got, m.X.ser(bytes.fromhex(ver), P))
        elif op == 'as_dict':
            got = call(lambda: k.as_dict(include_private=ev[1]))
            self.D.n += 1
            if isinstance(got, Exception):
                if m.hd and m.xkey(False) is None:
                    self.D.bump('refused_unsupported')
                else:
                    self.D.dev('hist:%s.as_dict|raises' % self.cfg['cls'], self._det(exc=_exc(got)))
                return
            self._check_fields('as_dict', got, {'network': m.net, 'compressed': m.compressed, 'wif': m.wif(),
                                                'address': m.address(), 'extended_wif_public': m.xkey(False) if m.hd else None,
                                                'extended_wif_private': m.xkey(True) if m.hd else None,
                                                'private_hex': '%064x' % m.d, 'secret': m.d})
        elif op == 'info':
            buf = io.StringIO()
            with contextlib.redirect_stdout(buf):
                got = call(k.info)
            self.D.n += 1
            if isinstance(got, Exception):
                if m.hd and m.xkey(False) is None:
                    self.D.bump('refused_unsupported')
                else:
                    self.D.dev('hist:%s.info|raises' % self.cfg['cls'], self._det(exc=_exc(got)))
                return
            f = _parse_info(buf.getvalue())
            self._check_fields('info', f, {'Network': m.net, 'Compressed': str(m.compressed), 'Private Key (wif)': m.wif(),
                                           'Address (b58)': m.address(),
                                           'Extended Public Key (wif)': m.xkey(False) if m.hd else None,
                                           'Extended Private Key (wif)': m.xkey(True) if m.hd else None})
        elif op == 'address':
            exp = m.address()
            got = call(k.address)
            if exp is not None:
                self.check_str('address()', got, exp)
        elif op == 'address_c':
            # Key.address(compressed=X) is a query: it returns the address of the requested form and leaves the
            # key (and everything exported afterwards) as it was
            keep = m.compressed
            m.compressed = ev[1]
            exp = m.address()
            m.compressed = keep
            got = call(lambda: k.address(compressed=ev[1]))
            self.check_str('address(compressed=)', got, exp)
        elif op == 'netchg':
            got = call(lambda: k.network_change(ev[1]))
            m.net = ev[1]
            if isinstance(got, Exception):
                self.D.dev('hist:HDKey.network_change|raises', self._det(exc=_exc(got)))
        elif op == 'public':
            pk = call(k.public)
            self.D.n += 1
            if isinstance(pk, Exception):
                self.D.dev('hist:%s.public|raises' % self.cfg['cls'], self._det(exc=_exc(pk)))
                return
            leak = None
            for name in ('wif', 'wif_key', 'wif_private'):
                if not hasattr(pk, name):
                    continue
                r = call(getattr(pk, name))
                if isinstance(r, str) and r in (m.wif(), m.xkey(True)) + tuple(
                        w for w in self.earlier if w not in (m.xkey(False),) and _is_private_string(w)):
                    leak = (name, r)
            if leak or pk.secret is not None or pk.is_private:
                self.D.dev('hist:%s.public()|private_material_in_public_copy' % self.cfg['cls'],
                           self._det(leak=leak, secret=pk.secret))
            if m.hd:
                self.check_str('public().wif_public()', call(pk.wif_public), m.xkey(False))
        else:
            raise AssertionError(ev)

    def _check_fields(self, kind, got, exp):
        for f, v in exp.items():
            if v is None or f not in got:
                continue
            self.D.n += 1
            g = got[f]
            if g != v:
                site = _site('%s[%s]' % (kind, f))
                if isinstance(v, str) and site != 'hist:address' and codec.b58check_decode(v) is not None:
                    cls = _diff_class(g, v)
                else:
                    cls = 'differs'
                self.D.dev('%s|%s' % (site, cls), self._det(call='%s[%s]' % (kind, f), got=g, expected=v,
                                                           returned_or_valid_earlier=g in self.earlier))
            else:
                self.D.compared += 1
            if isinstance(v, str):
                self.earlier.add(v)
            if isinstance(g, str):
                self.earlier.add(g)

    def observe(self):
        m = self.m
        if m.hd:
            suite = [['wif_key'], ['xprv'], ['xpub'], ['xwif', None, None, None], ['as_dict', True], ['wif_key']]
        else:
            suite = [['wif']] + [['wif', 'b', b] for b in WIF_BYTES] + [['wif'], ['as_dict', True], ['wif']]
        for ev in suite:
            self.step(ev)


def _is_private_string(w):
    p_ = codec.b58check_decode(w)
    if p_ is None:
        return False
    if len(p_) in (33, 34):
        return True
    return len(p_) == 78 and p_[45] == 0


def sub_hist(case):
    """case = {'cfg': {...}, 'first': [events], 'alphabet': [[event]...], 'L': max history length}.
    All histories first + (every sequence of length <= L - len(first) over the alphabet)."""
    import copy
    import itertools
    D = Devs()
    cfg = case['cfg']
    template = _build(cfg)
    rest = case['L'] - len(case['first'])
    tails = [()]
    for ln in range(1, rest + 1):
        tails += list(itertools.product(case['alphabet'], repeat=ln))
    for tail in tails:
        run = _HistRun(D, cfg, copy.deepcopy(template))
        for ev in list(case['first']) + list(tail):
            run.step(ev)
        run.observe()
        D.bump('histories')
    return {'devs': D.devs, 'n': D.n, 'nt': True if D.compared else [], 'out': D.out, 'traces': len(tails)}


SUBS = {'plain': sub_plain, 'ext': sub_ext, 'extunc': sub_extunc, 'bip38': sub_bip38, 'hist': sub_hist}



# --------------------------------------------------------------------------------- enumeration
def _fill(seed, tag, ln=32):
    return hashlib.sha256(b'C12 %s %d' % (tag.encode(), seed)).digest()[:ln]

# ---- public-only keys: every import form x every accessor order (lazily computed coordinates)
PUB_FORMS = ['chex', 'cbytes', 'uhex', 'ubytes', 'from_private', 'hd_bytes', 'hd_xpub']
PUB_ACC = ['public_hex', 'public_byte', 'public_uncompressed_hex', 'public_uncompressed_byte', 'x', 'y', 'x_hex',
           'y_hex', 'public_point', 'as_dict']


def _coord_class(pt):
    """Shape of the coordinates (leading zero nibbles / bytes are where fixed-width formatting goes wrong)."""
    def z(v):
        h = '%064x' % v
        return len(h) - len(h.lstrip('0'))
    return 'x_lz%d|y_lz%d' % (min(z(pt[0]), 3), min(z(pt[1]), 3))


def sub_pubforms(case):
    """case = {'d': hex, 'net': name}: a public-only key of that secret is imported in every form; every public
    accessor is read, in forward and in reverse order on fresh objects; each value is compared with the reference
    point; the uncompressed and the compressed export are imported again."""
    from bitcoinlib.keys import Key, HDKey
    D = Devs()
    d = int(case['d'], 16)
    net = case['net']
    pt = secp.pub(d)
    cpub, upub = secp.ser(pt, True), secp.ser(pt, False)
    cc = _coord_class(pt)
    exp = {'public_hex': None, 'public_byte': None, 'public_uncompressed_hex': upub.hex(),
           'public_uncompressed_byte': upub.hex(), 'x': pt[0], 'y': pt[1], 'x_hex': '%064x' % pt[0],
           'y_hex': '%064x' % pt[1], 'public_point': (pt[0], pt[1])}
    nt = []

    def make(form):
        if form == 'chex':
            return Key(cpub.hex(), network=net), True
        if form == 'cbytes':
            return Key(cpub, network=net), True
        if form == 'uhex':
            return Key(upub.hex(), network=net), False
        if form == 'ubytes':
            return Key(upub, network=net), False
        if form == 'from_private':
            return Key(d, network=net).public(), True
        if form == 'hd_bytes':
            return HDKey(key=cpub, chain=b'\x05' * 32, network=net, is_private=False, witness_type='legacy'), True
        xk = bip32.XKey(None, pt, b'\x05' * 32, 0, b'\x00' * 4, 0)
        return HDKey.from_wif(xk.ser(nets.hd_prefix(net, False, 'legacy', False), False), network=net), True

    def read(k, a):
        if a == 'public_point':
            v = k.public_point()
            return (int(v[0]), int(v[1])) if isinstance(v, (tuple, list)) else (int(v.x), int(v.y))
        if a == 'as_dict':
            dd = k.as_dict()
            return {f: dd.get(f) for f in ('public_hex', 'public_uncompressed_hex', 'point_x', 'point_y') if f in dd}
        v = getattr(k, a)
        return bytes(v).hex() if isinstance(v, (bytes, bytearray)) else v
    for form in PUB_FORMS:
        for order in ('forward', 'reverse', 'uncompressed_first'):
            accs = list(PUB_ACC)
            if order == 'reverse':
                accs.reverse()
            elif order == 'uncompressed_first':
                accs = ['public_uncompressed_byte', 'y_hex'] + [a for a in accs if a not in ('public_uncompressed_byte', 'y_hex')]
            try:
                k, comp = make(form)
            except Exception as e:
                D.dev('pubforms|valid_public_key_refused|%s' % form, {'d': case['d'], 'exc': _exc(e)})
                break
            for a in accs:
                D.n += 1
                try:
                    got = read(k, a)
                except Exception as e:
                    D.dev('pubforms|%s_raises|import_%s|%s' % (a, 'compressed' if comp else 'uncompressed', cc),
                          {'d': case['d'], 'form': form, 'order': order, 'exc': _exc(e)})
                    continue
                if a in ('public_hex', 'public_byte'):
                    want = (cpub if comp else upub).hex()
                elif a == 'as_dict':
                    want = dict(got)
                    for f, w in (('public_hex', (cpub if comp else upub).hex()), ('public_uncompressed_hex', upub.hex()),
                                 ('point_x', pt[0]), ('point_y', pt[1])):
                        if f in want:
                            want[f] = w
                else:
                    want = exp[a]
                if got != want:
                    D.dev('pubforms|%s_differs_from_reference_point|import_%s|%s' % (a, 'compressed' if comp else 'uncompressed', cc),
                          {'d': case['d'], 'form': form, 'order': order, 'got': str(got)[:140], 'expected': str(want)[:140]})
            nt.append('%s.%s.%s' % (case['d'][:16], form, order))
        # the exports import back to the same public point, as public keys
        try:
            k, comp = make(form)
            for a in ('public_uncompressed_hex', 'public_uncompressed_byte', 'public_hex', 'public_byte'):
                D.n += 1
                v = getattr(k, a)
                try:
                    k2 = Key(v, network=net)
                    back = (k2.is_private, int(k2.x), int(k2.y))
                except Exception as e:
                    back = 'raise:' + _exc(e)[:80]
                if back != (False, pt[0], pt[1]):
                    D.dev('pubforms|reimport_of_%s|not_the_same_public_point|%s' % (a, cc),
                          {'d': case['d'], 'form': form, 'exported': (bytes(v).hex() if isinstance(v, (bytes, bytearray)) else v)[:140],
                           'back': str(back)[:160]})
        except Exception as e:
            D.dev('pubforms|export_for_reimport_raises|%s' % cc, {'d': case['d'], 'form': form, 'exc': _exc(e)})
    D.bump('compared')
    return {'devs': D.devs, 'n': D.n, 'nt': nt, 'out': D.out}


SUBS['pubforms'] = sub_pubforms


def _coord_specials(limit):
    """The first secrets whose public point has 1 / 2 / 3+ leading zero hex digits in x resp. y (walk k*G)."""
    found = {}
    pt = secp.G
    d = 1
    while d <= limit and len(found) < 6:
        for name, v in (('x', pt[0]), ('y', pt[1])):
            h = '%064x' % v
            lz = min(len(h) - len(h.lstrip('0')), 3)
            if lz and (name, lz) not in found:
                found[(name, lz)] = d
        d += 1
        pt = secp.add(pt, secp.G)
    return sorted(set(found.values()))


def _special_secrets(seed):
    f = _fill(seed, 'secret')
    out = [1, 2, 3, 0x0100, 0x0101, 0x01ff, 0x010000, N - 1, N - 2, 1 << 255, (1 << 248) - 1,
           N - 0x40 - ((N - 0x40) & 0xff) + 1]                  # near n, last byte 01
    for z in (1, 2, 3, 8, 16, 31):
        body = bytearray(f[: 32 - z])
        body[0] |= 1
        out.append(int.from_bytes(bytes(body), 'big'))                                # z leading zero bytes
        out.append(int.from_bytes(bytes(body[:-1]) + b'\x01', 'big') if len(body) > 1 else 1)  # ... ending in 01
    for first in (0x02, 0x03, 0x04, 0x80, 0xef):
        out.append(int.from_bytes(bytes([first]) + f[1:], 'big'))
        out.append(int.from_bytes(bytes([first]) + f[1:31] + b'\x01', 'big'))
    out.append(int.from_bytes(f[:31] + b'\x01', 'big') % N or 1)
    out.append(int.from_bytes(f[:30] + b'\x01\x01', 'big') % N or 1)
    return list(dict.fromkeys(v for v in out if 1 <= v < N))


def _window_base(seed, k, span):
    h = int.from_bytes(hashlib.sha256(b'C12 window %d %d' % (seed, k)).digest(), 'big')
    return 1 + h % (N - span - 1)


def run(ctx):
    q = ctx.quick
    seed = ctx.seed
    only = getattr(ctx, 'only', None)

    def want(s):
        return not only or s in only

    special = _special_secrets(seed)
    span = 64 if q else 512
    wb = [_window_base(seed, k, span) for k in range(1 if q else 2)]
    window = [d for b0 in wb for d in range(b0, b0 + span)]
    keys = list(dict.fromkeys(special + list(range(1, 17 if q else 258)) + window))
    B = 2
    if want('plain'):
        ctx.pmap('plain', [{'ds': ['%x' % d for d in keys[i:i + B]], 'i0': i} for i in range(0, len(keys), B)], chunk=1)
    # ---- public-only keys in every import form: secrets whose point has leading zero digits in x or y first
    if want('pubforms'):
        ps = _coord_specials(3000 if q else 40000) + [1, 2, 3, N - 1] + special[12:16] + window[:4 if q else 32]
        ps = list(dict.fromkeys(ps))
        ctx.pmap('pubforms', [{'d': '%x' % d, 'net': NETS[i % len(NETS)]} for i, d in enumerate(ps)], chunk=1)
        ctx.note('pubforms', {'secrets': len(ps), 'forms': PUB_FORMS, 'accessors': PUB_ACC,
                              'orders': ['forward', 'reverse', 'uncompressed_first']})
    # ---- extended keys
    dcs_all = [(dp, ci) for dp in (0, 1, 3, 255) for ci in (0, (1 << 31) - 1, 1 << 31, (1 << 32) - 1)]
    dcs = [(0, 0), (1, (1 << 31) - 1), (3, 1 << 31), (255, (1 << 32) - 1), (1, 1), (0, 1 << 31)] if q else dcs_all
    chains = ['00' * 32, 'ff' * 32, '00' * 31 + '01', _fill(seed, 'chain').hex()]
    fps = ['00000000', 'ffffffff', '00000001', _fill(seed, 'fp', 4).hex()]
    ekeys = [1, special[-1], N - 1] + [d for d in special if d.bit_length() <= 248][:2] + window[:1 if q else 24]
    ekeys = list(dict.fromkeys(ekeys))
    ecases = []
    i = 0
    for d in ekeys:
        for net in NETS:
            for dp, ci in dcs:
                ecases.append({'d': '%x' % d, 'net': net, 'depth': dp, 'child': ci,
                               'chain': chains[i % len(chains)], 'fp': fps[(i // len(chains)) % len(fps)]})
                i += 1
    # the chain / fingerprint alphabets in full product for one key on two networks
    for net in ('bitcoin', 'litecoin'):
        for ch in chains:
            for fp in fps:
                ecases.append({'d': '%x' % ekeys[1], 'net': net, 'depth': 2, 'child': 7, 'chain': ch, 'fp': fp})
    if want('ext'):
        ctx.pmap('ext', ecases, chunk=1)
    if want('extunc'):
        ctx.pmap('extunc', [{'d': '%x' % d, 'net': net, 'chain': chains[3]} for d in ekeys[:3 if q else 8]
                            for net in NETS], chunk=1)
    if want('bip38'):
        bkeys = [(1, True, 'bitcoin'), (special[-1], False, 'bitcoin'), (N - 1, True, 'testnet'), (window[0], False, 'litecoin')]
        if not q:
            bkeys += [(d, c, net) for d in (special[12], window[1]) for c in (True, False) for net in NETS]
        ctx.pmap('bip38', [{'d': '%x' % d, 'compressed': c, 'net': net, 'password': 'C12 passé'} for d, c, net in bkeys],
                 chunk=1)
    # ---- export histories on one live object
    L = 2 if q else 3
    hcases = []
    hsecret = [special[13], N - 2] if not q else [special[13]]
    for d in hsecret:
        for net in (['bitcoin', 'litecoin'] if q else ['bitcoin', 'litecoin', 'dogecoin_testnet']):
            for c in (True, False):
                cfg = {'cls': 'Key', 'd': '%x' % d, 'net': net, 'compressed': c}
                al = key_alphabet(net)
                hcases += [{'cfg': cfg, 'first': [e], 'alphabet': al, 'L': L} for e in al]
                hcases.append({'cfg': cfg, 'first': [], 'alphabet': al, 'L': 0})
    hdcfg = [('bitcoin', 'segwit', False), ('bitcoin', 'legacy', True), ('litecoin', 'p2sh-segwit', False)]
    if not q:
        hdcfg += [('testnet', 'segwit', True), ('dogecoin', 'legacy', False)]
    for net, wt, ms in hdcfg:
        cfg = {'cls': 'HDKey', 'd': '%x' % hsecret[0], 'net': net, 'compressed': True, 'wt': wt, 'ms': ms,
               'chain': chains[3], 'depth': 3, 'fp': fps[3], 'child': (1 << 31) + 5}
        al = hd_alphabet(net, not q)
        if q or (net, wt, ms) not in hdcfg[:2]:
            # length 3 (thorough) for the first two configurations, length 2 for the others
            hcases += [{'cfg': cfg, 'first': [e], 'alphabet': al, 'L': 2} for e in al]
        else:
            hcases += [{'cfg': cfg, 'first': [e, f], 'alphabet': al, 'L': L} for e in al for f in al]
            hcases += [{'cfg': cfg, 'first': [e], 'alphabet': al, 'L': 1} for e in al]
        hcases.append({'cfg': cfg, 'first': [], 'alphabet': al, 'L': 0})
    if want('hist'):
        ctx.pmap('hist', hcases, chunk=1)
    ctx.note('bounds', {
        'plain_keys': '%d secrets (%d special incl. leading-zero / ending-01 / prefix lookalikes, [1,%d], %d seed '
                      'window(s) of %d consecutive secrets) x compressed flag x 11 networks (WIF), 6 plain import '
                      'forms' % (len(keys), len(special), 16 if q else 257, len(wb), span),
        'window_bases': ['%x' % b0 for b0 in wb],
        'extended': '%d secrets x 11 networks x %d (depth, child) pairs x 3 witness types x {single,multisig} x '
                    '{private,public} x 5 import entry points; chain x fingerprint alphabets 4x4' % (len(ekeys), len(dcs)),
        'depth_child_alphabet': [list(x) for x in dcs],
        'export_histories': 'every sequence of length <= %d over the export/query/mutation alphabet (Key: %d events, '
                            'HDKey: %d events incl. network_change to %s) on one live object, for %d Key and %d HDKey '
                            'configurations; every returned export compared with the reference for the model state, '
                            'then a fixed observation suite' % (L, len(key_alphabet('bitcoin')), len(hd_alphabet('bitcoin', not q)),
                                                                 HIST_NETS, len(hsecret) * (2 if q else 3) * 2, len(hdcfg)),
    })
